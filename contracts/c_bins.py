"""Contracts for cnvlib/target.py, cnvlib/antitarget.py (C12) and cnvlib/access.py (C13).

The oracles are set algebra on base pairs written from the statements; the interval kernels they rest on
(subtract, subdivide, resize_ranges, merge) have their own contracts in c_intervals.py (C06).
"""
import re

from .dsl import *     # noqa
from . import vocab    # noqa
from .c_intervals import GA, _covx, _runs_minus, _runs_and, _nonempty, spans, is_sorted


PAD = 500        # "the 500-base margin" of the statement (2 x insert size)


# ----------------------------------------------------------------------------- C12: target
def _baits(rng, tier, chroms=("chr1", "chr2", "chr17_gl000205_random"), scale=None):
    """bait tables: overlapping, nested, abutting, zero-width rows on 1..3 contigs (incl. a non-canonical one)"""
    scale = scale or rng.choice([1, 1, 100])
    rows = []
    use = [c for c in chroms if rng.random() < 0.7] or [chroms[0]]
    for c in use:
        pos = rng.choice([0, 3, 2000]) * scale
        for _ in range(rng.randint(1, 6)):
            kind = rng.random()
            L = rng.choice([0, 1, 2, 7, 30, 120, 400]) * scale
            if kind < 0.2 and rows and rows[-1][0] == c:
                ps, pe = rows[-1][1], rows[-1][2]
                if pe - ps >= 2:
                    s = rng.randint(ps, pe - 1)
                    rows.append((c, s, rng.randint(s, pe), "g%d" % rng.randint(0, 3)))
                    continue
            gap = rng.choice([0, 0, 1, 50, 3000]) * scale if kind < 0.85 else -rng.randint(0, 5) * scale
            s = max(0, pos + gap)
            rows.append((c, s, s + L, rng.choice(["ref|A,mRNA|x1", "ref|A", "B", "ens|E1,ref|B", "-"])))
            pos = max(pos, s + L)
    return GA(rows, ("chromosome", "start", "end", "gene"))


def _gen_target(rng, tier, i):
    """bait tables x split on/off x average bin size x label shortening on/off"""
    if i >= (1500 if tier == "quick" else 20000):
        return None
    return dict(baits=_baits(rng, tier), split=rng.random() < 0.6, avg=rng.choice([1, 3, 10, 100, 266.67, 1000]),
                short=rng.random() < 0.5)


def _chk_target(args, res, old):
    b = old["baits"]
    nonempty = [r for r in b.data.itertuples(index=False) if r.start != r.end]
    out = list(res.data.itertuples(index=False))
    if any(r.end <= r.start for r in out):
        return "target bins of zero or negative width: %r" % ([tuple(r)[:3] for r in out if r.end <= r.start][:3],)
    if not old["split"]:
        if [tuple(r)[:3] for r in out] != [tuple(r)[:3] for r in nonempty]:
            return "without split the non-empty baits must be returned unchanged: %r -> %r" % (spans(b), spans(res))
        if not old["short"] and [tuple(r) for r in out] != [tuple(r) for r in nonempty]:
            return "without split/shortening rows changed"
        return None
    merged = _covx(GA([tuple(r)[:3] for r in nonempty]))
    if _nonempty(_covx(res)) != _nonempty(merged):
        return "split targets cover %r, expected the union of the non-empty baits %r" % (_covx(res), merged)
    if not is_sorted(res):
        return "targets not in genomic order: %r" % (spans(res),)
    got = {}
    for c, s, e in spans(res):
        got.setdefault(c, []).append((s, e))
    for c, runs in merged.items():
        for s, e in runs:
            pieces = [p for p in got.get(c, []) if s <= p[0] and p[1] <= e]
            n = max(1, int(round((e - s) / old["avg"])))
            sizes = [q - p for p, q in pieces]
            if len(pieces) != n or pieces[0][0] != s or pieces[-1][1] != e or \
                    any(p[1] != q[0] for p, q in zip(pieces, pieces[1:])) or max(sizes) - min(sizes) > 1:
                return "merged bait %r (avg %r): bins %r, expected %d equal consecutive bins" % ((c, s, e), old["avg"], pieces, n)


def _call_target(fn, a):
    from cnvlib import target
    return target.do_target(a["baits"], None, a["short"], a["split"], a["avg"])


contract("cnvlib/target.py::do_target#rt", params=dict(baits=ObjT("GenomicArray")), bounded=True, gen=_gen_target,
         call=_call_target, props=("C12",), checks=[("union_of_baits_equal_bins", _chk_target)])


def _gen_labels(rng, tier, i):
    """label sequences: comma-separated accession lists sharing / not sharing names between neighbours"""
    if i >= (2000 if tier == "quick" else 30000):
        return None
    pool = ["ref|A", "mRNA|x1", "ens|E1", "ref|B", "B", "ccds|C1", "mRNA|y", "-", "Q|"]
    n = rng.randint(0, 9)
    labels = []
    for _ in range(n):
        if labels and rng.random() < 0.5:
            base = labels[-1].split(",")
            k = [x for x in base if rng.random() < 0.7] or base[:1]
            k += [rng.choice(pool)] if rng.random() < 0.3 else []
        else:
            k = rng.sample(pool, rng.randint(1, 3))
        labels.append(",".join(k))
    return dict(gene_labels=labels)


def _chk_labels(args, res, old):
    res = list(res)
    if len(res) != len(old["gene_labels"]):
        return "%d names for %d labels %r" % (len(res), len(old["gene_labels"]), old["gene_labels"])
    for lab, nm in zip(old["gene_labels"], res):
        parts = lab.split(",")
        if not any(nm == p or nm == p.split("|")[-1] for p in parts):
            return "name %r does not come from its own label %r" % (nm, lab)


contract("cnvlib/target.py::shorten_labels", params=dict(gene_labels=ListT(Str)), bounded=True, gen=_gen_labels,
         call=lambda fn, a: list(fn(list(a["gene_labels"]))), props=("C12",), checks=[("one_name_per_label", _chk_labels)])


# ----------------------------------------------------------------------------- C12: antitarget
def _canonical(name):
    """the package's contig-name rule, restated from its documentation: alt, random, Un, HLA, EBV, mitochondrial
    (and NC_ accessions, hapN haplotypes) are non-canonical"""
    return not re.search(r"^chrEBV$|^NC|_random$|Un_|^HLA\-|_alt$|hap\d$|chrM|MT", name)


def _gen_anti(rng, tier, i, corner=False):
    """bait tables (nested/overlapping, untargeted and non-canonical contigs) x access tables (or none) x
    average / minimum bin sizes (minimum <= half the average; the corner contract covers larger minima)"""
    if i >= (1200 if tier == "quick" else 20000):
        return None
    scale = 100
    targets = _baits(rng, tier, chroms=("chr1", "chr2", "chr17_gl000205_random"), scale=scale)
    targets = targets[targets.start != targets.end]
    if not len(targets):
        targets = GA([("chr1", 5000, 9000, "A")], ("chromosome", "start", "end", "gene"))
    access = None
    if rng.random() < 0.7:
        rows = []
        for c in ["chr1", "chr2", "chr3", "chrUn_gl000211", "chr17_gl000205_random", "chrM"]:
            if rng.random() < 0.25:
                continue
            pos = rng.choice([0, 1000, 10000])
            for _ in range(rng.randint(1, 3)):
                L = rng.choice([800, 1500, 5000, 40000, 200000])
                rows.append((c, pos, pos + L))
                pos += L + rng.choice([1, 300, 5000, 100000])
        if not (set(r[0] for r in rows) & set(targets.chromosome)):
            rows.append((targets.chromosome.iat[0], 0, 100000))
        access = GA(rows)
    avg = rng.choice([200, 1000, 5000, 150000])
    if not corner and rng.random() < 0.15:
        # an off-target accessible stretch of exactly the default minimum size (and one a base shorter)
        from cnvlib.params import MIN_REF_COVERAGE
        avg = rng.choice([150000, 1000, 5000, 200, 48, 80])
        mn0 = 2 * int(avg * (2 ** MIN_REF_COVERAGE))
        tchrom = targets.chromosome.iat[0]
        other = "chr3" if tchrom != "chr3" else "chr2"
        rows = [(tchrom, 0, int(targets.end.max()) + 2000), (other, 1000, 1000 + mn0 + 2 * PAD), (other, 900000, 900000 + mn0 + 2 * PAD - 1)]
        return dict(targets=targets, access=GA(rows), avg=avg, mn=None)
    if corner:
        mn = rng.choice([int(0.8 * avg), avg, int(1.2 * avg)])
    else:
        mn = rng.choice([None, 1, avg // 16, avg // 4, avg // 2])
    return dict(targets=targets, access=access, avg=avg, mn=mn)


def _anti_space(old):
    """off-target accessible space per the statement, as disjoint runs per contig"""
    t, acc = old["targets"], old["access"]
    tchroms = set(t.chromosome)
    if acc is None:
        rows = []
        for c in dict.fromkeys(t.chromosome):
            sub = t.data[t.data.chromosome == c]
            rows.append((c, 150000, int(sub.end.iat[-1])))
        acc_rows = [r for r in rows if r[2] > r[1]]
    else:
        achroms = set(acc.chromosome)
        if any(_canonical(c) for c in tchroms):
            keep = {c for c in achroms if c in tchroms or _canonical(c)}
        else:
            mx = max(len(c) for c in tchroms)
            keep = {c for c in achroms if c in tchroms or len(c) <= mx}
        acc_rows = [r for r in spans(acc) if r[0] in keep]
    shrunk = [(c, s + PAD, e - PAD) for c, s, e in acc_rows if e - PAD > s + PAD]
    padded = [(c, max(0, s - PAD), e + PAD) for c, s, e in spans(t)]
    # NB: accessible regions are shrunk one by one (rows stay separate), then the union is taken
    return _runs_minus(_covx(GA(shrunk, sort=False)) if shrunk else {}, _covx(GA(padded, sort=False))), shrunk, padded


def _chk_anti(args, res, old, corner=False):
    from cnvlib.params import MIN_REF_COVERAGE
    avg = old["avg"]
    mn = old["mn"] or 2 * int(avg * (2 ** MIN_REF_COVERAGE))
    space, shrunk, padded = _anti_space(old)
    out = spans(res)
    if any(g != "Antitarget" for g in res.data["gene"]):
        return "bins not all named Antitarget"
    by = {}
    for c, s, e in out:
        by.setdefault(c, []).append((s, e))
    for c, iv in by.items():
        iv_sorted = sorted(iv)
        for (s1, e1), (s2, e2) in zip(iv_sorted, iv_sorted[1:]):
            if s2 < e1:
                return "antitarget bins overlap on %s: %r" % (c, iv_sorted)
    cov_out = _nonempty(_covx(res))
    # inside the shrunk accessible space and >= 500 from every target base: subset of `space`
    if _nonempty(_runs_minus(cov_out, space)):
        return "antitarget bases outside (access shrunk by %d) minus (targets padded by %d): %r  (targets %r, access %r)" % (
            PAD, PAD, _runs_minus(cov_out, space), spans(old["targets"]), None if old["access"] is None else spans(old["access"]))
    # every stretch of such space of at least the minimum size is covered, smaller ones are not
    want = {c: [(s, e) for s, e in runs if e - s >= mn] for c, runs in space.items()}
    if _nonempty(want) != cov_out:
        return "covered %r, expected every off-target accessible stretch >= %d: %r" % (cov_out, mn, _nonempty(want))
    if corner:
        return None
    for c, s, e in out:
        if e - s < mn or e - s > 1.5 * avg:
            return "bin %r has size %d outside [min %d, 1.5 x avg %d]" % ((c, s, e), e - s, mn, avg)


def _call_anti(fn, a):
    from cnvlib import antitarget
    return antitarget.do_antitarget(a["targets"], a["access"], a["avg"], a["mn"])


contract("cnvlib/antitarget.py::do_antitarget", params=dict(targets=ObjT("GenomicArray")), bounded=True, gen=_gen_anti,
         call=_call_anti, props=("C12",), checks=[("margin_disjoint_cover_sizes", _chk_anti)])


# ----------------------------------------------------------------------------- C13: access
def _fasta_case(rng, tier, i):
    seqs = []
    names = ["chr1", "chr2", "chrUn_gl000211", "chrM", "chr6_apd_hap1", "chrEBV", "HLA-A", "chr19_KI270866v1_alt", "scaffold7"]
    for name in rng.sample(names, rng.randint(1, 4)):
        parts = []
        for _ in range(rng.randint(0, 6)):
            kind = rng.choice(["N", "n", "ACGT", "acgt"])
            L = rng.choice([0, 1, 2, 3, 5, 10, 37, 80, 200]) if tier != "quick" else rng.choice([0, 1, 2, 3, 5, 10, 37])
            parts.append("".join(rng.choice(kind) for _ in range(L)) if kind in ("ACGT", "acgt") else kind * L)
        seqs.append((name, "".join(parts)))
    width = rng.choice([1, 2, 3, 5, 7, 10, 60, 80]) if rng.random() < 0.7 else rng.randint(1, 80)
    return seqs, width


def _write_fasta(path, seqs, width):
    with open(path, "w") as fh:
        for name, s in seqs:
            fh.write(">%s some description\n" % name)
            for k in range(0, len(s), width):
                fh.write(s[k:k + width] + "\n")


def _gen_regions_exh(rng, tier, i):
    """exhaustive: every text over {N, A, n} of length <= 7 (thorough: <= 9) x every line width 1..len+1, as a
    two-sequence FASTA (the second sequence is the reversed text); then random long texts with runs straddling line breaks"""
    import os
    import tempfile
    maxlen = 7 if tier == "quick" else 9
    # decode i -> (length, text index, width)
    k = i
    for L in range(0, maxlen + 1):
        nt = 3 ** L
        block = nt * (L + 1)
        if k < block:
            ti, w = divmod(k, L + 1)
            text = ""
            for _ in range(L):
                ti, d = divmod(ti, 3)
                text += "NAn"[d]
            seqs, width = [("s1", text), ("s2", text[::-1])], w + 1
            break
        k -= block
    else:
        if k >= (400 if tier == "quick" else 5000):
            return None
        seqs, width = _fasta_case(rng, tier, i)
    d = tempfile.mkdtemp(prefix="verif_c13_")
    p = os.path.join(d, "g.fa")
    _write_fasta(p, seqs, width)
    return dict(fasta=p, seqs=seqs, width=width, tmp=d)


def _maxruns(seq):
    return [(m.start(), m.end()) for m in re.finditer(r"[^N]+", seq)]


def _call_regions(fn, a):
    import shutil
    try:
        return list(fn(a["fasta"]))
    finally:
        shutil.rmtree(a["tmp"], ignore_errors=True)


def _chk_regions(args, res, old):
    want = [(name, s, e) for name, seq in old["seqs"] for s, e in _maxruns(seq)]
    got = [(c, int(s), int(e)) for c, s, e in res]
    if got != want:
        return "get_regions (line width %d) on %r: got %r, expected %r" % (old["width"], old["seqs"], got, want)


contract("cnvlib/access.py::get_regions", params=dict(fasta=Str), bounded=True, gen=_gen_regions_exh, call=_call_regions,
         modifies=("tmp", "fasta"), props=("C13",), checks=[("maximal_non_N_runs", _chk_regions)])


def _gen_access(rng, tier, i):
    """FASTA texts (1..4 sequences incl. empty and non-canonical ones, N/n/ACGT/acgt runs of length 0..200, line widths
    1..80) x 0..2 exclude BEDs (overlapping, nested, touching region edges) x min gap 0..300 x skip_noncanonical"""
    import os
    import tempfile
    if i >= (500 if tier == "quick" else 8000):
        return None
    seqs, width = _fasta_case(rng, tier, i)
    d = tempfile.mkdtemp(prefix="verif_c13_")
    p = os.path.join(d, "g.fa")
    _write_fasta(p, seqs, width)
    ex_files, ex_rows = [], []
    for k in range(rng.choice([0, 1, 1, 2])):
        rows = []
        for name, s in seqs:
            if not s or rng.random() < 0.3:
                continue
            runs = _maxruns(s)
            for _ in range(rng.randint(0, 3)):
                if runs and rng.random() < 0.6:
                    rs, re_ = rng.choice(runs)
                    a = rng.choice([rs, rs, rng.randint(rs, re_ - 1), max(0, rs - 1)])
                    b = rng.choice([re_, re_, rng.randint(a + 1, max(a + 1, re_)), re_ + 1])
                else:
                    a = rng.randint(0, max(0, len(s) - 1))
                    b = a + rng.randint(1, 6)
                if b > a:
                    rows.append((name, a, b))
                    if rng.random() < 0.3 and b - a >= 3:       # nested row
                        rows.append((name, a + 1, b - 1))
        if not rows:
            rows.append((seqs[0][0], 0, 1))
        rows.sort()
        fn = os.path.join(d, "ex%d.bed" % k)
        with open(fn, "w") as fh:
            for r in rows:
                fh.write("%s\t%d\t%d\n" % r)
        ex_files.append(fn)
        ex_rows.append(rows)
    return dict(fasta=p, seqs=seqs, width=width, exclude=ex_files, ex_rows=ex_rows,
                min_gap=rng.choice([0, 1, 2, 3, 5, 10, 50, 300]), skip=rng.random() < 0.5, tmp=d)


def _call_access(fn, a):
    import shutil
    from cnvlib import access
    try:
        return access.do_access(a["fasta"], a["exclude"], a["min_gap"], a["skip"])
    finally:
        shutil.rmtree(a["tmp"], ignore_errors=True)


def _chk_access(args, res, old):
    runs = {}
    order = []
    for name, seq in old["seqs"]:
        if old["skip"] and not _canonical(name):
            continue
        r = _maxruns(seq)
        if r:
            runs[name] = r
            order.append(name)
    for rows in old["ex_rows"]:
        ex = {}
        for c, s, e in rows:
            ex.setdefault(c, []).append((s, e))
        ex = {c: [tuple(x) for x in _covx(GA([(c, s, e) for s, e in iv], sort=False))[c]] for c, iv in ex.items()}
        runs = _nonempty(_runs_minus(runs, ex))
    want = {}
    for c, iv in runs.items():
        out = []
        for s, e in iv:
            if out and s - out[-1][1] < old["min_gap"]:
                out[-1][1] = e
            else:
                out.append([s, e])
        want[c] = [tuple(x) for x in out]
    got = {}
    for c, s, e in spans(res):
        if e <= s:
            return "empty region reported: %r" % ((c, s, e),)
        got.setdefault(c, []).append((s, e))
    if got != _nonempty(want):
        return "do_access(min_gap=%d, skip_noncanonical=%s) reports %r, expected %r (sequences %r, excluded %r)" % (
            old["min_gap"], old["skip"], got, _nonempty(want), [(n, s[:60]) for n, s in old["seqs"]], old["ex_rows"])
    for c, iv in got.items():
        for (s1, e1), (s2, e2) in zip(iv, iv[1:]):
            if s2 - e1 < 1:
                return "regions of %s not sorted / not separated by a base: %r" % (c, iv)


contract("cnvlib/access.py::do_access", params=dict(fasta=Str), bounded=True, gen=_gen_access, call=_call_access,
         modifies=("tmp", "fasta", "exclude"), props=("C13",), checks=[("runs_minus_excluded_joined", _chk_access)])


# ----------------------------------------------------------------------------- deductive: target / antitarget composition
# get_antitargets and do_target are proved against the contracts of the interval operations they call:
# resize_ranges and subtract are themselves proved (c_intervals), subdivide and drop_noncanonical_contigs are assumed
# here and checked at run time by their bounded twins.
from .c_call import CHROM, GENE       # noqa: E402
from .c_intervals import _KEEP, _IV3, _GA      # noqa: E402

_GAT = ObjT("GenomicArray", data=TabT(index="any", chromosome=CHROM, start=Int, end=Int, gene=GENE), meta=DictT())

contract(
    "skgenome/gary.py::GenomicArray.subdivide",
    params=dict(self=_GAT, avg_size=Int, min_size=Int, verbose=Lit(False)),
    returns=ObjT("GenomicArray", data=TabT(index="range", chromosome=CHROM, start=Int, end=Int, gene=GENE), meta=DictT()),
    trusted=True, requires=[],
    ensures=[
        ("bins_nonempty", "forall(0, len(result.data), lambda j: result.data.start[j] < result.data.end[j])"),
        ("bins_inside_input", "forall(0, len(result.data), lambda j: forall(lambda x: implies(uf_bool('base', x) and result.data.start[j] <= x and "
                              "x < result.data.end[j], exists(0, len(self.data), lambda q: self.data.chromosome[q] == result.data.chromosome[j] and "
                              "self.data.start[q] <= x and x < self.data.end[q]))))"),
        ("bins_disjoint", "forall(0, len(result.data), lambda a: forall(0, len(result.data), lambda b: implies(a < b and "
                          "result.data.chromosome[a] == result.data.chromosome[b], result.data.end[a] <= result.data.start[b] or "
                          "result.data.end[b] <= result.data.start[a])))"),
        ("covers_input_without_minimum", "implies(min_size <= 0, forall(0, len(self.data), lambda q: forall(lambda x: implies(uf_bool('base', x) and "
                                         "self.data.start[q] <= x and x < self.data.end[q], exists(0, len(result.data), lambda j: "
                                         "result.data.chromosome[j] == self.data.chromosome[q] and result.data.start[j] <= x and x < result.data.end[j])))))"),
    ],
    props=(), domain="skip",
    notes="assumed at call sites; the bounded contract GenomicArray.subdivide#rt checks the stronger statement (equal split "
          "of every merged region of at least the minimum size, exact cover) on generated tables",
)

contract(
    "cnvlib/antitarget.py::drop_noncanonical_contigs",
    params=dict(accessible=_GAT, targets=_GAT, verbose=Lit(True)),
    returns=_GAT, trusted=True, requires=[],
    ensures=[("rows_of_accessible", "forall(0, len(result.data), lambda j: exists(0, len(accessible.data), lambda q: "
                                    "accessible.data.chromosome[q] == result.data.chromosome[j] and accessible.data.start[q] == result.data.start[j] "
                                    "and accessible.data.end[q] == result.data.end[j]))")],
    props=(), domain="skip",
    notes="assumed: keeps a subset of the accessible rows (which contigs it drops is the bounded C12 contract's business)",
)

_PAD = 500
contract(
    "cnvlib/antitarget.py::get_antitargets",
    params=dict(targets=_GAT, accessible=_GAT, avg_bin_size=Int, min_bin_size=Int),
    returns=ObjT("GenomicArray", data=TabT(index="range", chromosome=CHROM, start=Int, end=Int, gene=GENE), meta=DictT()),
    requires=["len(accessible.data) > 0"],
    ensures=[
        ("named_antitarget", "forall(0, len(result.data), lambda j: result.data.gene[j] == 'Antitarget')"),
        # every base of every bin lies inside an accessible region shrunk by the 500-base margin ...
        ("inside_shrunk_access", "forall(0, len(result.data), lambda j: forall(lambda x: implies(uf_bool('base', x) and result.data.start[j] <= x and "
                                 "x < result.data.end[j], exists(0, len(accessible.data), lambda q: accessible.data.chromosome[q] == result.data.chromosome[j] "
                                 "and accessible.data.start[q] + 500 <= x and x < accessible.data.end[q] - 500))))"),
        # ... and at least 500 bases away from every target
        ("clear_of_targets", "forall(0, len(result.data), lambda j: forall(lambda x: implies(uf_bool('base', x) and result.data.start[j] <= x and "
                             "x < result.data.end[j], forall(0, len(targets.data), lambda t: not (targets.data.chromosome[t] == result.data.chromosome[j] "
                             "and targets.data.start[t] - 500 <= x and x < targets.data.end[t] + 500)))))"),
        ("bins_disjoint", "forall(0, len(result.data), lambda a: forall(0, len(result.data), lambda b: implies(a < b and "
                          "result.data.chromosome[a] == result.data.chromosome[b], result.data.end[a] <= result.data.start[b] or "
                          "result.data.end[b] <= result.data.start[a])))"),
    ],
    props=("C12",), domain="skip",
    canaries=[("targets_not_padded", "targets.resize_ranges(pad_size)", "targets.resize_ranges(0)"),
              ("access_not_shrunk", "accessible.resize_ranges(-pad_size)", "accessible.resize_ranges(0)"),
              ("margin_halved", "pad_size = 2 * INSERT_SIZE", "pad_size = INSERT_SIZE"),
              ("not_named", "bg_arr[\"gene\"] = ANTITARGET_NAME", "pass")],
)


_BAITS = ObjT("GenomicArray", data=TabT(index="range", chromosome=CHROM, start=Int, end=Int, gene=GENE), meta=DictT())
contract(
    "cnvlib/target.py::do_target",
    params=dict(bait_arr=_BAITS, annotate=Lit(None), do_short_names=Lit(False), do_split=Bool, avg_size=Int),
    returns=ObjT("GenomicArray", data=TabT(index="any", chromosome=CHROM, start=Int, end=Int, gene=GENE), meta=DictT()),
    requires=["forall(0, len(bait_arr.data), lambda k: bait_arr.data.start[k] <= bait_arr.data.end[k])"],
    ensures=[
        # without --split: exactly the non-empty baits, unchanged and in order (result.data.index = their positions)
        ("nonempty_baits_unchanged", "implies(not do_split, forall(0, len(result.data), lambda j: let(lambda k: 0 <= k and k < len(bait_arr.data) and "
                                     "bait_arr.data.start[k] != bait_arr.data.end[k] and result.data.chromosome[j] == bait_arr.data.chromosome[k] and "
                                     "result.data.start[j] == bait_arr.data.start[k] and result.data.end[j] == bait_arr.data.end[k] and "
                                     "result.data.gene[j] == bait_arr.data.gene[k], result.data.index[j])) and "
                                     "forall(0, len(result.data), lambda a: forall(0, len(result.data), lambda b: implies(a < b, result.data.index[a] < result.data.index[b]))) and "
                                     "forall(0, len(bait_arr.data), lambda k: implies(bait_arr.data.start[k] != bait_arr.data.end[k], "
                                     "exists(0, len(result.data), lambda j: result.data.index[j] == k))))"),
        # with --split: non-overlapping bins covering exactly the union of the non-empty baits
        ("split_bins_cover_exactly_the_baits", "implies(do_split, "
            "forall(0, len(result.data), lambda j: forall(lambda x: implies(uf_bool('base', x) and result.data.start[j] <= x and x < result.data.end[j], "
            "exists(0, len(bait_arr.data), lambda q: bait_arr.data.chromosome[q] == result.data.chromosome[j] and bait_arr.data.start[q] <= x and x < bait_arr.data.end[q])))) and "
            "forall(0, len(bait_arr.data), lambda q: forall(lambda x: implies(uf_bool('base', x) and bait_arr.data.start[q] <= x and x < bait_arr.data.end[q], "
            "exists(0, len(result.data), lambda j: result.data.chromosome[j] == bait_arr.data.chromosome[q] and result.data.start[j] <= x and x < result.data.end[j])))) and "
            "forall(0, len(result.data), lambda a: forall(0, len(result.data), lambda b: implies(a < b and result.data.chromosome[a] == result.data.chromosome[b], "
            "result.data.end[a] <= result.data.start[b] or result.data.end[b] <= result.data.start[a]))))"),
    ],
    props=("C12",), domain="skip",
    canaries=[("empty_baits_kept", "tgt_arr = tgt_arr[tgt_arr.start != tgt_arr.end]", "tgt_arr = tgt_arr[tgt_arr.start <= tgt_arr.end]"),
              ("minimum_size_on_split", "tgt_arr.subdivide(avg_size, 0)", "tgt_arr.subdivide(avg_size, 100)")],
)


# ----------------------------------------------------------------------------- deductive: joining accessible regions over small gaps (C13)
_SUB = ObjT("GenomicArray", data=TabT(index="any", chromosome=CHROM, start=Int, end=Int), meta=DictT())
_REGS = ObjT("GenomicArray", data=TabT(index="any", chromosome=CHROM, start=Int, end=Int), meta=DictT(),
             groups=SeqT(TupT(CHROM, _SUB)))

# row m of group i, and the gap after it
_RS = "regions.groups[i][1].data.start[m]"
_RE = "regions.groups[i][1].data.end[m]"
_GLEN = "len(regions.groups[i][1].data)"
# base x of group i's chromosome is inside row m, or inside the gap after row m when that gap is smaller than the minimum
_IN_ROW_OR_SMALL_GAP = ("((RS <= x and x < RE) or (m + 1 < GLEN and RE <= x and x < RS1 and RS1 - RE < min_gap_size))"
                        .replace("RS1", _RS.replace("[m]", "[m + 1]")).replace("RS", _RS).replace("RE", _RE).replace("GLEN", _GLEN))

contract(
    "cnvlib/access.py::join_regions",
    params=dict(regions=_REGS, min_gap_size=Int),
    yields=TupT(CHROM, Int, Int),
    requires=[
        "min_gap_size >= 0",
        # what by_chromosome hands out (assumed): non-empty per-chromosome tables, sorted with a gap of at least one base
        "forall(0, len(regions.groups), lambda i: GLEN >= 1 and forall(0, GLEN, lambda m: RS < RE and "
        "implies(m + 1 < GLEN, RE < RS1)))".replace("RS1", _RS.replace("[m]", "[m + 1]")).replace("RS", _RS).replace("RE", _RE).replace("GLEN", _GLEN),
    ],
    loops={
        0: dict(inv=[
            ("pieces_sound", "forall(0, len(out_), lambda j: let(lambda i: 0 <= i and i < i_ and out_[j][0] == regions.groups[i][0] and "
                             "out_[j][1] < out_[j][2] and forall(lambda x: implies(uf_bool('base', x) and out_[j][1] <= x and x < out_[j][2], "
                             "exists(0, GLEN, lambda m: INROW))), src_[j][0]))".replace("INROW", _IN_ROW_OR_SMALL_GAP).replace("GLEN", _GLEN)),
            ("groups_done_covered", "forall(0, i_, lambda i: forall(0, GLEN, lambda m: forall(lambda x: implies(uf_bool('base', x) and INROW, "
                                    "exists(0, len(out_), lambda j: src_[j][0] == i and out_[j][1] <= x and x < out_[j][2])))))"
                                    .replace("INROW", _IN_ROW_OR_SMALL_GAP).replace("GLEN", _GLEN)),
        ]),
        1: dict(inv=[
            ("pieces_sound", "forall(0, len(out_), lambda j: let(lambda i: 0 <= i and i <= i0_ and out_[j][0] == regions.groups[i][0] and "
                             "out_[j][1] < out_[j][2] and forall(lambda x: implies(uf_bool('base', x) and out_[j][1] <= x and x < out_[j][2], "
                             "exists(0, GLEN, lambda m: INROW))), src_[j][0]))".replace("INROW", _IN_ROW_OR_SMALL_GAP).replace("GLEN", _GLEN)),
            ("groups_done_covered", "forall(0, i0_, lambda i: forall(0, GLEN, lambda m: forall(lambda x: implies(uf_bool('base', x) and INROW, "
                                    "exists(0, len(out_), lambda j: src_[j][0] == i and out_[j][1] <= x and x < out_[j][2])))))"
                                    .replace("INROW", _IN_ROW_OR_SMALL_GAP).replace("GLEN", _GLEN)),
            # the run being grown: it ends with row i_ of the current group, and is made of rows and small gaps only
            ("pending_run_ends_here", "prev_end == rows.data.end[i_] and prev_start < prev_end and chrom == regions.groups[i0_][0] and "
                                      "rows is regions.groups[i0_][1]"),
            ("pending_run_sound", "let(lambda i: forall(lambda x: implies(uf_bool('base', x) and prev_start <= x and x < prev_end, "
                                  "exists(0, i_ + 1, lambda m: INROW))), i0_)".replace("INROW", _IN_ROW_OR_SMALL_GAP)),
            ("rows_so_far_covered", "let(lambda i: forall(0, i_ + 1, lambda m: forall(lambda x: implies(uf_bool('base', x) and INROW2, "
                                    "(prev_start <= x and x < prev_end) or exists(0, len(out_), lambda j: src_[j][0] == i and out_[j][1] <= x and x < out_[j][2])))), i0_)"
                                    .replace("INROW2", _IN_ROW_OR_SMALL_GAP.replace("m + 1 < " + _GLEN, "m + 1 <= i_"))),
        ]),
    },
    ensures=[
        # every base of every reported region is a base of an input region or of a gap smaller than the minimum ...
        ("only_regions_and_small_gaps", "forall(0, len(result), lambda j: let(lambda i: 0 <= i and i < len(regions.groups) and result[j][0] == regions.groups[i][0] and "
                                        "result[j][1] < result[j][2] and forall(lambda x: implies(uf_bool('base', x) and result[j][1] <= x and x < result[j][2], "
                                        "exists(0, GLEN, lambda m: INROW))), src_[j][0]))".replace("INROW", _IN_ROW_OR_SMALL_GAP).replace("GLEN", _GLEN)),
        # ... and every such base is reported
        ("all_regions_and_small_gaps", "forall(0, len(regions.groups), lambda i: forall(0, GLEN, lambda m: forall(lambda x: implies(uf_bool('base', x) and INROW, "
                                       "exists(0, len(result), lambda j: src_[j][0] == i and result[j][1] <= x and x < result[j][2])))))"
                                       .replace("INROW", _IN_ROW_OR_SMALL_GAP).replace("GLEN", _GLEN)),
    ],
    props=("C13",), domain="skip",
    canaries=[("gap_le", "if gap < min_gap_size:", "if gap <= min_gap_size:"),
              ("start_not_reset", "prev_start, prev_end = start, end", "prev_end = end"),
              ("single_region_groups_dropped", 'logging.info("%s: Joining over small gaps", chrom)', "if len(rows) < 2: continue"),
              ("emits_current_instead_of_previous", "yield (chrom, prev_start, prev_end)\n                prev_start", "yield (chrom, start, end)\n                prev_start")],
    notes="the per-chromosome tables are the ghost field regions.groups (= what by_chromosome yields, assumed to be the "
          "non-empty per-chromosome sub-tables, sorted, rows at least one base apart: access/subtract output)",
)

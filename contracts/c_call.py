"""Contracts for cnvlib/call.py  (C01, C02, C10, C14)."""
import math

from .dsl import *     # noqa
from . import vocab    # noqa
from runner.gen import int_in, choice, sorted_reals

PLOIDY = int_in(1, 6)
PURITY = choice(None, 1.0, 0.9, 0.5, 0.3, 0.05, 0.75)


def _thr_fix(rec, rng, tier):
    """put log2 values on thresholds, just beside them, and on integer crossings of r*2^v"""
    lg = rec["cnarr"]["data"]["log2"]
    thr = rec["thresholds"]
    for i in range(len(lg)):
        u = rng.random()
        if u < 0.35:
            t = rng.choice(thr)
            lg[i] = rng.choice([t, math.nextafter(t, 9), math.nextafter(t, -9)])
        elif u < 0.5:
            lg[i] = math.log2(rng.randint(1, 9) / rng.choice([1, 2, 3, 4, 6]))
    return rec

CHROM = Atom("Chrom")
GENE = Atom("Gene")
CNA_COLS = dict(chromosome=CHROM, start=Int, end=Int, gene=GENE, log2=NReal)


def CNA(opt=(), index="range", **extra):
    cols = dict(CNA_COLS)
    cols.update(extra)
    return ObjT("CopyNumArray", data=TabT(opt=opt, index=index, **cols), meta=DictT())


# ----------------------------------------------------------------------------- scalar kernels
contract(
    "cnvlib/call.py::_log2_ratio_to_absolute_pure",
    params=dict(log2_ratio=Real, ref_copies=Int),
    returns=Real,
    requires=[],
    ensures=[("formula", "result == ref_copies * exp2(log2_ratio)")],
    props=("C01", "C02", "C20"),
    canaries=[("pow_base", "2**log2_ratio", "log2_ratio**2")],
)

contract(
    "cnvlib/call.py::_log2_ratio_to_absolute",
    params=dict(log2_ratio=Real, ref_copies=Int, expect_copies=Int, purity=Opt(Real)),
    returns=Real,
    requires=["ref_copies >= 0", "expect_copies >= 0", "purity is None or (0 < purity and purity <= 1)"],
    ensures=[
        ("purity_formula", "implies(purity is not None and purity < 1, "
                           "result == (ref_copies * exp2(log2_ratio) - expect_copies * (1 - purity)) / purity)"),
        ("pure_formula", "implies(purity is None or purity == 1, result == ref_copies * exp2(log2_ratio))"),
    ],
    props=("C01",),
    domain=dict(purity=PURITY, ref_copies=int_in(0, 6), expect_copies=int_in(0, 6)),
    canaries=[("one_minus_purity", "expect_copies * (1 - purity)", "expect_copies * purity"),
              ("div_purity", ") / purity", ") * purity")],
)

contract(
    "cnvlib/call.py::_reference_copies_pure",
    params=dict(chrom=CHROM, ploidy=Int, is_haploid_x_reference=Bool),
    returns=Int,
    requires=["ploidy >= 1"],
    ensures=[("Rpure", "result == Rpure(chrom, ploidy, is_haploid_x_reference)")],
    props=("C01", "C02", "C20"),
    domain=dict(ploidy=PLOIDY),
    canaries=[("floor_half", "ploidy // 2", "ploidy - 1")],
)

contract(
    "cnvlib/call.py::rescale_baf",
    params=dict(purity=Real, observed_baf=NReal, normal_baf=Real),
    returns=NReal,
    requires=["0 < purity and purity <= 1"],
    ensures=[("formula", "isnull(result) == isnull(observed_baf) and implies(not isnull(observed_baf), "
                         "val(result) == (val(observed_baf) - normal_baf * (1 - purity)) / purity)")],
    props=("C02", "C18"),
    domain=dict(purity=choice(1.0, 0.9, 0.5, 0.3, 0.05), observed_baf=choice(None, 0.0, 0.1, 0.5, 0.77, 1.0),
                normal_baf=choice(0.5, 0.4)),
    canaries=[("one_minus", "(1 - purity)", "purity")],
)

# ----------------------------------------------------------------------------- C02: the step function
contract(
    "cnvlib/call.py::absolute_threshold",
    params=dict(cnarr=CNA(), ploidy=Int, thresholds=ListT(Real), is_haploid_x_reference=Bool),
    returns=VecT(Real),
    requires=["ploidy >= 1", "len(thresholds) >= 1", "increasing(thresholds)"],
    ensures=[
        ("rowcount", "len(result) == len(cnarr.data)"),
        ("missing_log2", "forall(0, len(result), lambda k: implies(isnull(cnarr.data.log2[k]), "
                         "result[k] == Rpure(cnarr.data.chromosome[k], ploidy, is_haploid_x_reference)))"),
        ("T", "forall(0, len(result), lambda k: forall(0, len(thresholds) + 1, lambda c: "
              "implies(not isnull(cnarr.data.log2[k]) and is_cut(thresholds, c, val(cnarr.data.log2[k])), "
              "result[k] == T_at(c, len(thresholds), val(cnarr.data.log2[k]), "
              "Rpure(cnarr.data.chromosome[k], ploidy, is_haploid_x_reference), ploidy))))"),
    ],
    loops={
        0: dict(inv=[
            ("len", "len(absolutes) == len(cnarr.data)"),
            ("missing_log2", "forall(0, i_, lambda k: implies(isnull(cnarr.data.log2[k]), "
                             "absolutes[k] == Rpure(cnarr.data.chromosome[k], ploidy, is_haploid_x_reference)))"),
            ("T", "forall(0, i_, lambda k: forall(0, len(thresholds) + 1, lambda c: "
                  "implies(not isnull(cnarr.data.log2[k]) and is_cut(thresholds, c, val(cnarr.data.log2[k])), "
                  "absolutes[k] == T_at(c, len(thresholds), val(cnarr.data.log2[k]), "
                  "Rpure(cnarr.data.chromosome[k], ploidy, is_haploid_x_reference), ploidy))))"),
        ]),
        1: dict(inv=[
            ("below", "forall(0, i_, lambda j: thresholds[j] < val(row.log2))"),
        ]),
    },
    props=("C02",),
    domain=dict(ploidy=PLOIDY, thresholds=sorted_reals(1, 12), __fix__=_thr_fix),
    canaries=[("le_to_lt", "row.log2 <= thresh", "row.log2 < thresh"),
              ("ceil_to_floor", "np.ceil(", "np.floor("),
              ("scale_swapped", "cnum * ref_copies / ploidy", "cnum * ploidy / ref_copies"),
              ("nan_neutral", "absolutes[idx] = ref_copies", "absolutes[idx] = ploidy")],
)

contract(
    "cnvlib/call.py::absolute_pure",
    params=dict(cnarr=CNA(), ploidy=Int, is_haploid_x_reference=Bool),
    returns=VecT(NReal),
    requires=["ploidy >= 1"],
    ensures=[
        ("rowcount", "len(result) == len(cnarr.data)"),
        ("formula", "forall(0, len(result), lambda k: isnull(result[k]) == isnull(cnarr.data.log2[k]) and "
                    "implies(not isnull(cnarr.data.log2[k]), val(result[k]) == "
                    "Rpure(cnarr.data.chromosome[k], ploidy, is_haploid_x_reference) * exp2(val(cnarr.data.log2[k]))))"),
    ],
    loops={0: dict(
        vars=dict(absolutes=VecT(NReal)),
        inv=[("len", "len(absolutes) == len(cnarr.data)"),
             ("formula", "forall(0, i_, lambda k: isnull(absolutes[k]) == isnull(cnarr.data.log2[k]) and "
                         "implies(not isnull(cnarr.data.log2[k]), val(absolutes[k]) == "
                         "Rpure(cnarr.data.chromosome[k], ploidy, is_haploid_x_reference) * exp2(val(cnarr.data.log2[k]))))")])},
    props=("C01",),
    domain=dict(ploidy=PLOIDY),
    canaries=[("wrong_row", "absolutes[i] = ", "absolutes[0] = ")],
)

"""Contracts for cnvlib/call.py  (C01, C02, C10, C14)."""
import math

from .dsl import *     # noqa
from . import vocab    # noqa
from runner.gen import int_in, choice, sorted_reals

PLOIDY = int_in(1, 6)
PURITY = choice(None, 1.0, 0.9, 0.5, 0.3, 0.05, 0.75)


def _thr_fix(rec, rng, tier):
    """put log2 values on thresholds, just beside them, and on integer crossings of r*2^v"""
    lg = rec["cnarr"]["data"]["log2"]
    thr = rec["thresholds"]
    for i in range(len(lg)):
        u = rng.random()
        if u < 0.35:
            t = rng.choice(thr)
            lg[i] = rng.choice([t, math.nextafter(t, 9), math.nextafter(t, -9)])
        elif u < 0.5:
            lg[i] = math.log2(rng.randint(1, 9) / rng.choice([1, 2, 3, 4, 6]))
    return rec

def _plant_model(rec, rng, tier):
    """put log2 = log2((p*n + (1-p)*x)/r) for a random integer n on most rows (the hypothesis of C01), PAR rows,
    extreme log2 values for the non-negativity clause, and threshold-boundary values"""
    from contracts import vocab as V
    data = rec["cnarr"]["data"]
    n = len(data["chromosome"])
    if not n:
        return rec
    build = rec.get("diploid_parx_genome")
    style_chr = data["chromosome"][0].startswith("chr")
    xl, yl = ("chrX", "chrY") if style_chr else ("X", "Y")
    # some rows inside PAR regions when a build is given
    if build:
        par = V.PAR[build]
        for i in range(n):
            if data["chromosome"][i] in (xl, yl) and rng.random() < 0.5:
                key = ("PAR1" if rng.random() < 0.5 else "PAR2") + ("X" if data["chromosome"][i] == xl else "Y")
                lo, hi = par[key]
                data["start"][i] = lo + rng.randint(0, 1000)
                data["end"][i] = min(hi, data["start"][i] + rng.randint(1, 5000))
    p = rec.get("purity")
    ploidy = rec["ploidy"]
    for i in range(n):
        u = rng.random()
        if u < 0.15:
            data["log2"][i] = rng.choice([-30.0, -20.0, -8.0, 8.0, 30.0, rng.uniform(-30, 30)])
            continue
        if u > 0.85:
            continue
        cls = V.cls_of(data["chromosome"][i], data["start"][i], data["end"][i], xl, yl, V.par_of(build))
        r = V.Rcopies(cls, ploidy, rec["is_haploid_x_reference"])
        x = V.Xcopies(cls, ploidy, rec["is_sample_female"])
        nn = rng.randint(0, 12)
        pp = p if (p is not None and p < 1) else 1.0
        num = pp * nn + (1 - pp) * x
        if r > 0 and num > 0:
            data["log2"][i] = math.log2(num / r)
    if "baf" in data:
        data["baf"] = [rng.choice([None, 0.0, 0.1, 0.33, 0.5, 0.77, 1.0, round(rng.random(), 3)]) for _ in range(n)]
    if "thresholds" in rec and rng.random() < 0.5:
        rec = _thr_fix(rec, rng, tier)
    return rec


CHROM = Atom("Chrom")
GENE = Atom("Gene")
CNA_COLS = dict(chromosome=CHROM, start=Int, end=Int, gene=GENE, log2=NReal)


def CNA(opt=(), index="range", **extra):
    cols = dict(CNA_COLS)
    cols.update(extra)
    return ObjT("CopyNumArray", data=TabT(opt=opt, index=index, **cols), meta=DictT())


# ----------------------------------------------------------------------------- scalar kernels
contract(
    "cnvlib/call.py::_log2_ratio_to_absolute_pure",
    params=dict(log2_ratio=Real, ref_copies=Int),
    returns=Real,
    requires=[],
    ensures=[("formula", "result == ref_copies * exp2(log2_ratio)")],
    props=("C01", "C02", "C20"),
    canaries=[("pow_base", "2**log2_ratio", "log2_ratio**2")],
)

contract(
    "cnvlib/call.py::_log2_ratio_to_absolute",
    params=dict(log2_ratio=Real, ref_copies=Int, expect_copies=Int, purity=Opt(Real)),
    returns=Real,
    requires=["ref_copies >= 0", "expect_copies >= 0", "purity is None or (0 < purity and purity <= 1)"],
    ensures=[
        ("purity_formula", "implies(purity is not None and purity < 1, "
                           "result == (ref_copies * exp2(log2_ratio) - expect_copies * (1 - purity)) / purity)"),
        ("pure_formula", "implies(purity is None or purity == 1, result == ref_copies * exp2(log2_ratio))"),
    ],
    props=("C01",),
    domain=dict(purity=PURITY, ref_copies=int_in(0, 6), expect_copies=int_in(0, 6)),
    canaries=[("one_minus_purity", "expect_copies * (1 - purity)", "expect_copies * purity"),
              ("div_purity", ") / purity", ") * purity")],
)

contract(
    "cnvlib/call.py::_reference_copies_pure",
    params=dict(chrom=CHROM, ploidy=Int, is_haploid_x_reference=Bool),
    returns=Int,
    requires=["ploidy >= 1"],
    ensures=[("Rpure", "result == Rpure(chrom, ploidy, is_haploid_x_reference)")],
    props=("C01", "C02", "C20"),
    domain=dict(ploidy=PLOIDY),
    canaries=[("floor_half", "ploidy // 2", "ploidy - 1")],
)

contract(
    "cnvlib/call.py::rescale_baf",
    params=dict(purity=Real, observed_baf=NReal, normal_baf=Real),
    returns=NReal,
    requires=["0 < purity and purity <= 1"],
    ensures=[("formula", "isnull(result) == isnull(observed_baf) and implies(not isnull(observed_baf), "
                         "val(result) == (val(observed_baf) - normal_baf * (1 - purity)) / purity)")],
    props=("C02", "C18"),
    domain=dict(purity=choice(1.0, 0.9, 0.5, 0.3, 0.05), observed_baf=choice(None, 0.0, 0.1, 0.5, 0.77, 1.0),
                normal_baf=choice(0.5, 0.4)),
    canaries=[("one_minus", "(1 - purity)", "purity")],
)

# ----------------------------------------------------------------------------- C02: the step function
contract(
    "cnvlib/call.py::absolute_threshold",
    params=dict(cnarr=CNA(), ploidy=Int, thresholds=ListT(Real), is_haploid_x_reference=Bool),
    returns=VecT(Real),
    requires=["ploidy >= 1", "len(thresholds) >= 1", "increasing(thresholds)"],
    ensures=[
        ("rowcount", "len(result) == len(cnarr.data)"),
        ("missing_log2", "forall(0, len(result), lambda k: implies(isnull(cnarr.data.log2[k]), "
                         "result[k] == Rpure(cnarr.data.chromosome[k], ploidy, is_haploid_x_reference)))"),
        ("nonneg_int", "forall(0, len(result), lambda k: not isnull(result[k]) and val(result[k]) >= 0 and "
                       "val(result[k]) == floor(val(result[k])))"),
        ("T", "forall(0, len(result), lambda k: forall(0, len(thresholds) + 1, lambda c: "
              "implies(not isnull(cnarr.data.log2[k]) and is_cut(thresholds, c, val(cnarr.data.log2[k])), "
              "result[k] == T_at(c, len(thresholds), val(cnarr.data.log2[k]), "
              "Rpure(cnarr.data.chromosome[k], ploidy, is_haploid_x_reference), ploidy))))"),
    ],
    loops={
        0: dict(inv=[
            ("len", "len(absolutes) == len(cnarr.data)"),
            ("missing_log2", "forall(0, i_, lambda k: implies(isnull(cnarr.data.log2[k]), "
                             "absolutes[k] == Rpure(cnarr.data.chromosome[k], ploidy, is_haploid_x_reference)))"),
            ("nonneg_int", "forall(0, i_, lambda k: not isnull(absolutes[k]) and val(absolutes[k]) >= 0 and "
                           "val(absolutes[k]) == floor(val(absolutes[k])))"),
            ("T", "forall(0, i_, lambda k: forall(0, len(thresholds) + 1, lambda c: "
                  "implies(not isnull(cnarr.data.log2[k]) and is_cut(thresholds, c, val(cnarr.data.log2[k])), "
                  "absolutes[k] == T_at(c, len(thresholds), val(cnarr.data.log2[k]), "
                  "Rpure(cnarr.data.chromosome[k], ploidy, is_haploid_x_reference), ploidy))))"),
        ]),
        1: dict(inv=[
            ("below", "forall(0, i_, lambda j: thresholds[j] < val(row.log2))"),
        ]),
    },
    props=("C02",),
    domain=dict(ploidy=PLOIDY, thresholds=sorted_reals(1, 12), __fix__=_thr_fix),
    canaries=[("le_to_lt", "row.log2 <= thresh", "row.log2 < thresh"),
              ("ceil_to_floor", "np.ceil(", "np.floor("),
              ("scale_swapped", "cnum * ref_copies / ploidy", "cnum * ploidy / ref_copies"),
              ("nan_neutral", "absolutes[idx] = ref_copies", "absolutes[idx] = ploidy")],
)

contract(
    "cnvlib/call.py::absolute_pure",
    params=dict(cnarr=CNA(), ploidy=Int, is_haploid_x_reference=Bool),
    returns=VecT(NReal),
    requires=["ploidy >= 1"],
    ensures=[
        ("rowcount", "len(result) == len(cnarr.data)"),
        ("formula", "forall(0, len(result), lambda k: isnull(result[k]) == isnull(cnarr.data.log2[k]) and "
                    "implies(not isnull(cnarr.data.log2[k]), val(result[k]) == "
                    "Rpure(cnarr.data.chromosome[k], ploidy, is_haploid_x_reference) * exp2(val(cnarr.data.log2[k]))))"),
    ],
    loops={0: dict(
        vars=dict(absolutes=VecT(NReal)),
        inv=[("len", "len(absolutes) == len(cnarr.data)"),
             ("formula", "forall(0, i_, lambda k: isnull(absolutes[k]) == isnull(cnarr.data.log2[k]) and "
                         "implies(not isnull(cnarr.data.log2[k]), val(absolutes[k]) == "
                         "Rpure(cnarr.data.chromosome[k], ploidy, is_haploid_x_reference) * exp2(val(cnarr.data.log2[k]))))")])},
    props=("C01",),
    domain=dict(ploidy=PLOIDY),
    canaries=[("wrong_row", "absolutes[i] = ", "absolutes[0] = ")],
)

# ----------------------------------------------------------------------------- C01: reference / expected copies per row
BUILD = Lit(None, "grch37", "grch38")
_REFEXP_ENS = [
    ("rowcount", "len(result) == len(cnarr.data)"),
    ("reference", "forall(0, len(result), lambda k: result.reference[k] == Rcopies(cls_of("
                  "cnarr.data.chromosome[k], cnarr.data.start[k], cnarr.data.end[k], "
                  "xlabel_of(cnarr.data.chromosome[0]), ylabel_of(cnarr.data.chromosome[0]), par_of(diploid_parx_genome)), "
                  "ploidy, is_haploid_x_reference))"),
    ("expect", "forall(0, len(result), lambda k: result.expect[k] == Xcopies(cls_of("
               "cnarr.data.chromosome[k], cnarr.data.start[k], cnarr.data.end[k], "
               "xlabel_of(cnarr.data.chromosome[0]), ylabel_of(cnarr.data.chromosome[0]), par_of(diploid_parx_genome)), "
               "ploidy, is_sample_female))"),
    ("other_columns", "forall(0, len(result), lambda k: result.chromosome[k] == cnarr.data.chromosome[k] and "
                      "result.start[k] == cnarr.data.start[k] and result.end[k] == cnarr.data.end[k] and "
                      "result.gene[k] == cnarr.data.gene[k] and "
                      "isnull(result.log2[k]) == isnull(cnarr.data.log2[k]) and "
                      "implies(not isnull(result.log2[k]), val(result.log2[k]) == val(cnarr.data.log2[k])))"),
]

contract(
    "cnvlib/call.py::get_as_dframe_and_set_reference_and_expect_copies",
    params=dict(cnarr=CNA(), ploidy=Int, is_haploid_x_reference=Bool, diploid_parx_genome=BUILD, is_sample_female=Bool),
    returns=TabT(reference=Int, expect=Int, **CNA_COLS),
    requires=["ploidy >= 1"],
    ensures=_REFEXP_ENS,
    ghost=dict(frame_exempt_keys=("chr_x", "chr_y")),
    props=("C01", "C20"),
    domain=dict(ploidy=PLOIDY),
    canaries=[("x_expect_swapped", "ploidy if is_sample_female else ploidy // 2", "ploidy // 2 if is_sample_female else ploidy"),
              ("y_ref_full", '"reference"] = ploidy // 2', '"reference"] = ploidy'),
              ("pary_not_zeroed", 'df.loc[cnarr.pary_filter(diploid_parx_genome), "expect"] = 0', "pass")],
)

_CLS_K = ("cls_of(cnarr.data.chromosome[k], cnarr.data.start[k], cnarr.data.end[k], xlabel_of(cnarr.data.chromosome[0]), "
          "ylabel_of(cnarr.data.chromosome[0]), par_of(diploid_parx_genome))")
_R_K = "Rcopies(%s, ploidy, is_haploid_x_reference)" % _CLS_K
_X_K = "Xcopies(%s, ploidy, is_sample_female)" % _CLS_K

lemma("L1_inversion",
      vars=dict(p=Real, n=Int, x=Int, r=Int, v=Real),
      requires=["0 < p", "p < 1", "n >= 0", "r > 0", "p * n + (1 - p) * x > 0", "v == log2((p * n + (1 - p) * x) / r)"],
      ensures=[("inverts", "(r * exp2(v) - x * (1 - p)) / p == n")],
      props=("C01",), nl=True, notes="the purity formula inverts the mixing model (nonlinear real arithmetic)")

_HYP_N = ("n >= 0 and %s > 0 and purity * n + (1 - purity) * %s > 0 and not isnull(cnarr.data.log2[k]) and "
          "val(cnarr.data.log2[k]) == log2((purity * n + (1 - purity) * %s) / %s)" % (_R_K, _X_K, _X_K, _R_K))
_USE_L1 = "use('L1_inversion', p=purity, n=n, x=%s, r=%s, v=val(cnarr.data.log2[k]))" % (_X_K, _R_K)

contract(
    "cnvlib/call.py::absolute_dataframe",
    params=dict(cnarr=CNA(), ploidy=Int, purity=Opt(Real), is_haploid_x_reference=Bool, diploid_parx_genome=BUILD,
                is_sample_female=Bool),
    returns=TabT(absolute=NReal, expect=Int, reference=Int),
    requires=["ploidy >= 1", "purity is None or (0 < purity and purity <= 1)"],
    ensures=[
        ("rowcount", "len(result) == len(cnarr.data)"),
        ("reference", "forall(0, len(result), lambda k: result.reference[k] == %s)" % _R_K),
        ("expect", "forall(0, len(result), lambda k: result.expect[k] == %s)" % _X_K),
        ("absolute", "forall(0, len(result), lambda k: isnull(result.absolute[k]) == isnull(cnarr.data.log2[k]) and "
                     "implies(not isnull(cnarr.data.log2[k]), val(result.absolute[k]) == "
                     "ite(purity is not None and purity < 1, "
                     "(result.reference[k] * exp2(val(cnarr.data.log2[k])) - result.expect[k] * (1 - purity)) / purity, "
                     "result.reference[k] * exp2(val(cnarr.data.log2[k])))))"),
        ("inverts", "implies(purity is not None and purity < 1, forall(0, len(result), lambda k: forall(lambda n: "
                    "implies(%s and %s, not isnull(result.absolute[k]) and val(result.absolute[k]) == n))))" % (_HYP_N, _USE_L1)),
    ],
    ghost=dict(frame_exempt_keys=("chr_x", "chr_y"), nonlinear_clauses=("inverts",)),
    props=("C01",),
    domain=dict(ploidy=PLOIDY, purity=PURITY),
    canaries=[("wrong_columns", 'row["reference"], row["expect"], purity', 'row["expect"], row["reference"], purity')],
)

contract(
    "cnvlib/call.py::absolute_clonal",
    params=dict(cnarr=CNA(), ploidy=Int, purity=Opt(Real), is_haploid_x_reference=Bool, diploid_parx_genome=BUILD,
                is_sample_female=Bool),
    returns=SeriesT(NReal, like="cnarr"),
    requires=["ploidy >= 1", "purity is None or (0 < purity and purity <= 1)"],
    ensures=[
        ("rowcount", "len(result) == len(cnarr.data)"),
        ("absolute", "forall(0, len(result), lambda k: isnull(result[k]) == isnull(cnarr.data.log2[k]) and "
                     "implies(not isnull(cnarr.data.log2[k]), val(result[k]) == "
                     "ite(purity is not None and purity < 1, "
                     "(%s * exp2(val(cnarr.data.log2[k])) - %s * (1 - purity)) / purity, "
                     "%s * exp2(val(cnarr.data.log2[k])))))" % (_R_K, _X_K, _R_K)),
        ("inverts", "implies(purity is not None and purity < 1, forall(0, len(result), lambda k: forall(lambda n: "
                    "implies(%s, not isnull(result[k]) and val(result[k]) == n))))" % _HYP_N),
    ],
    ghost=dict(frame_exempt_keys=("chr_x", "chr_y")),
    props=("C01",),
    domain=dict(ploidy=PLOIDY, purity=PURITY),
    canaries=[("wrong_column", 'df["absolute"]', 'df["reference"]')],
)

contract(
    "cnvlib/call.py::log2_ratios",
    params=dict(cnarr=CNA(), absolutes=SeriesT(NReal), ploidy=Int, is_haploid_x_reference=Bool, diploid_parx_genome=BUILD),
    returns=SeriesT(NReal, like="absolutes"),
    requires=["ploidy >= 1", "len(absolutes) == len(cnarr.data)"],
    ensures=[
        ("rowcount", "len(result) == len(cnarr.data)"),
        ("rescaled_log2", "forall(0, len(result), lambda k: isnull(result[k]) == isnull(absolutes[k]) and "
                          "implies(not isnull(absolutes[k]), val(result[k]) == "
                          "log2(ite(val(absolutes[k]) / ploidy > 0.001, val(absolutes[k]) / ploidy, 0.001)) + "
                          "ite((%s == 1 and is_haploid_x_reference) or %s == 2, 1, 0)))" % (_CLS_K, _CLS_K)),
    ],
    ghost=dict(frame_exempt_keys=("chr_x", "chr_y")),
    props=("C01",),
    domain=dict(ploidy=PLOIDY),
    canaries=[("y_shift_dropped", "ratios[(cnarr.chr_y_filter(diploid_parx_genome)).values] += 1.0", "pass"),
              ("x_shift_always", "if is_haploid_x_reference:", "if True:")],
)

# log2(2y) = log2(y) + 1: a fact about the abstract log2 symbol (listed as trusted in the evidence)
lemma("log2_doubling", vars=dict(y=Real), requires=["y > 0"], ensures=[("double", "log2(2 * y) == log2(y) + 1")],
      trusted=True, props=("C01",), notes="mathematical identity of the real logarithm; log2 is an abstract symbol here")

lemma("floor_scale",
      vars=dict(a=Real, d=Real),
      requires=["d > 0"],
      ensures=[("cmp", "(a > d / 1000) == (a / d > 1 / 1000)"), ("const", "(d / 1000) / d == 1 / 1000")],
      props=("C01",), nl=True, notes="flooring n at 0.001*ploidy is flooring n/ploidy at 0.001")

_CNA_REAL = ObjT("CopyNumArray", data=TabT(opt=("baf",), index="range", chromosome=CHROM, start=Int, end=Int, gene=GENE,
                                           log2=Real, baf=NReal), meta=DictT())
_RP_K = "Rpure(cnarr.data.chromosome[k], ploidy, is_haploid_x_reference)"

contract(
    "cnvlib/call.py::do_call",
    params=dict(cnarr=_CNA_REAL, variants=Lit(None), method=Lit("threshold", "clonal", "none"), ploidy=Int,
                purity=Opt(Real), is_haploid_x_reference=Bool, is_sample_female=Bool, diploid_parx_genome=BUILD,
                filters=Lit(None), thresholds=ListT(Real)),
    returns=ObjT("CopyNumArray", data=TabT(opt=("baf", "cn", "cn1", "cn2"), chromosome=CHROM, start=Int, end=Int, gene=GENE,
                                           log2=Real, baf=NReal, cn=Int, cn1=NReal, cn2=NReal), meta=DictT()),
    requires=["ploidy >= 1", "purity is None or (0 < purity and purity <= 1)", "len(thresholds) >= 1",
              "increasing(thresholds)"],
    ensures=[
        ("rowcount", "len(result.data) == len(cnarr.data)"),
        ("same_bins", "forall(0, len(result.data), lambda k: result.data.chromosome[k] == cnarr.data.chromosome[k] and "
                      "result.data.start[k] == cnarr.data.start[k] and result.data.end[k] == cnarr.data.end[k] and "
                      "result.data.gene[k] == cnarr.data.gene[k])"),
        ("cn_nonneg", "implies(method != 'none', forall(0, len(result.data), lambda k: result.data.cn[k] >= 0))"),
        ("log2_kept", "implies(purity is None or purity == 1, forall(0, len(result.data), lambda k: "
                      "result.data.log2[k] == cnarr.data.log2[k]))"),
        ("threshold_T", "implies(method == 'threshold' and (purity is None or purity == 1), "
                        "forall(0, len(result.data), lambda k: forall(0, len(thresholds) + 1, lambda c: "
                        "implies(is_cut(thresholds, c, cnarr.data.log2[k]), result.data.cn[k] == "
                        "T_at(c, len(thresholds), cnarr.data.log2[k], %s, ploidy)))))" % _RP_K),
        ("clonal_nearest", "implies(method == 'clonal' and (purity is None or purity == 1), "
                           "forall(0, len(result.data), lambda k: "
                           "result.data.cn[k] - %s * exp2(cnarr.data.log2[k]) <= 1/2 and "
                           "%s * exp2(cnarr.data.log2[k]) - result.data.cn[k] <= 1/2))" % (_RP_K, _RP_K)),
        ("clonal_inverts", "implies(method == 'clonal' and purity is not None and purity < 1, "
                           "forall(0, len(result.data), lambda k: forall(lambda n: "
                           "implies(%s, result.data.cn[k] == n))))" % _HYP_N),
        ("clonal_rescaled_log2", "implies(method == 'clonal' and purity is not None and purity < 1 and ploidy %% 2 == 0, "
                                 "forall(0, len(result.data), lambda k: forall(lambda n: implies(%s, "
                                 "result.data.log2[k] == ite(2 * %s == ploidy, "
                                 "log2(ite(n / ploidy > 0.001, n / ploidy, 0.001)) + 1, "
                                 "ite(%s == ploidy, log2(ite(n / ploidy > 0.001, n / ploidy, 0.001)), "
                                 "log2(ite(n > ploidy / 1000, real(n), ploidy / 1000) / %s)))))))"
                                 % (_HYP_N, _R_K, _R_K, _R_K)),
        ("allelic", "implies(method != 'none' and 'baf' in cnarr.data, forall(0, len(result.data), lambda k: "
                    "(isnull(result.data.cn1[k]) == (isnull(cnarr.data.baf[k]) and result.data.cn[k] > 0)) and "
                    "(isnull(result.data.cn2[k]) == isnull(result.data.cn1[k])) and "
                    "implies(not isnull(result.data.cn1[k]), val(result.data.cn1[k]) + val(result.data.cn2[k]) == result.data.cn[k] "
                    "and 0 <= val(result.data.cn1[k]) and val(result.data.cn1[k]) <= result.data.cn[k] "
                    "and 0 <= val(result.data.cn2[k]) and val(result.data.cn2[k]) <= result.data.cn[k])))"),
    ],
    ghost=dict(frame_exempt_keys=("chr_x", "chr_y")),
    props=("C01", "C02"),
    domain=dict(ploidy=PLOIDY, purity=PURITY, thresholds=sorted_reals(1, 12), __fix__=_plant_model),
    canaries=[("round_to_trunc", 'absolutes.round().clip(0)', 'absolutes.clip(0)'),
              ("clip_cn_removed", 'absolutes.round().clip(0)', 'absolutes.round()'),
              ("no_copy", "outarr = cnarr.copy()", "outarr = cnarr"),
              ("clip_removed", ".clip(0, outarr[\"cn\"])", "")],
)

"""Contracts for centring and sex inference in cnvlib/cnary.py  (C15)."""
from .dsl import *     # noqa
from . import vocab    # noqa

_AUTO = ["1", "2", "3", "5", "7", "10", "12", "17", "21", "22"]


def _levels_table(rng, tier, named_auto=True, with_par=None):
    """bin tables with 1..24 chromosomes in either naming style (or none named like autosomes), any per-chromosome
    levels and null-coverage bins, optionally bins inside PAR-X"""
    import pandas as pd
    from cnvlib.cnary import CopyNumArray
    from contracts import vocab as V
    pref = rng.choice(["chr", ""])
    if named_auto:
        names = [pref + a for a in rng.sample(_AUTO, rng.randint(1, 8))] + \
                [pref + s for s in rng.sample(["X", "Y"], rng.randint(0, 2))]
    else:
        names = rng.sample(["scaffold_a", "scaffold_b", "contigX", "LG1x"], rng.randint(1, 3))
    from contracts.c_tabio import natural_key
    names.sort(key=natural_key)
    rows = []
    for c in names:
        level = rng.choice([0.0, 0.3, -0.8, 1.7, rng.gauss(0, 1)])
        pos = 0
        for _ in range(rng.choice([1, 1, 2, 5, 20])):
            L = rng.choice([200, 1000])
            lg = level + rng.gauss(0, 0.2)
            dep = 30 * 2 ** lg
            if rng.random() < 0.1:
                lg, dep = -20.0 - rng.random(), 0.0
            s = pos
            if with_par and c == pref + "X" and rng.random() < 0.5:
                lo, hi = V.PAR[with_par]["PAR1X"]
                s = lo + rng.randint(0, 2000) + pos
            rows.append(dict(chromosome=c, start=s, end=s + L, gene="A", log2=lg, depth=dep, weight=rng.uniform(0.2, 1)))
            pos += L + 100
    return CopyNumArray(pd.DataFrame(rows), {"sample_id": "s"})


def _gen_center(rng, tier, i):
    if i >= (400 if tier == "quick" else 8000):
        return None
    par = rng.choice([None, None, "grch37", "grch38"])
    return dict(cnarr=_levels_table(rng, tier, named_auto=rng.random() < 0.85, with_par=par),
                estimator=rng.choice(["median", "mean", "biweight", "mode"]), by_chrom=rng.random() < 0.6,
                skip_low=rng.random() < 0.5, par=par)


_gen_center.__doc__ = _levels_table.__doc__ + "; every estimator x by_chrom x skip_low x PAR genome"


def _call_center(fn, a):
    c = a["cnarr"].copy()
    c.center_all(a["estimator"], a["by_chrom"], a["skip_low"], False, a["par"])
    return c


def _two_level(cn, estimator, by_chrom, skip_low, par):
    """the estimator of the autosomal bins as the statement describes it, on the package's own row selections"""
    import pandas as pd
    from cnvlib import descriptives as D
    f = {"median": pd.Series.median, "mean": pd.Series.mean, "biweight": D.biweight_location, "mode": D.modal_location}[estimator]
    sel = (cn.drop_low_coverage() if skip_low else cn).autosomes(diploid_parx_genome=par)
    if not len(sel):
        return None
    if by_chrom:
        vals = pd.Series([f(sel.data[sel.data.chromosome == c]["log2"]) for c in dict.fromkeys(sel.chromosome)])
        return float(f(vals))
    return float(f(sel["log2"]))


def _chk_center(args, res, old):
    import numpy as np
    before, after = old["cnarr"], res
    d = after.data["log2"].values - before.data["log2"].values
    if len(d) and not np.abs(d - d[0]).max() <= 1e-9 * max(1.0, np.abs(d).max()):
        return "center_all does not add one constant to every bin: shifts range over [%r, %r]" % (d.min(), d.max())
    for c in before.data.columns:
        if c != "log2" and not before.data[c].equals(after.data[c]):
            return "center_all changed column %s" % c
    est = _two_level(after, old["estimator"], old["by_chrom"], old["skip_low"], old["par"])
    tol = {"median": 1e-9, "mean": 1e-9, "biweight": 2e-3, "mode": 1e-6}[old["estimator"]]
    if est is not None and not abs(est) <= tol:
        return "after centring the %s (by_chrom=%s, skip_low=%s, PAR=%s) of the autosomal bins is %r, not 0" % (
            old["estimator"], old["by_chrom"], old["skip_low"], old["par"], est)


contract("cnvlib/cnary.py::CopyNumArray.center_all#rt", params=dict(cnarr=ObjT("CopyNumArray")), bounded=True,
         gen=_gen_center, call=_call_center, props=("C15", "C04"), checks=[("uniform_shift_zeroes_autosomes", _chk_center)])


# ----------------------------------------------------------------------------- flat expectation, X shift
def _gen_flat(rng, tier, i):
    """tables with autosomes, X and Y bins (some inside PAR-X) x reference sex x PAR genome"""
    if i >= (300 if tier == "quick" else 5000):
        return None
    par = rng.choice([None, None, "grch37", "grch38"])
    return dict(cnarr=_levels_table(rng, tier, with_par=par), male_ref=rng.random() < 0.5, par=par,
                is_xx=rng.random() < 0.5)


def _chk_flat(args, res, old):
    from contracts import vocab as V
    cn = old["cnarr"]
    first = cn.chromosome.iat[0]
    xl, yl = V.xlabel_of(first), V.ylabel_of(first)
    for k, r in enumerate(cn.data.itertuples(index=False)):
        cls = V.cls_of(r.chromosome, r.start, r.end, xl, yl, V.par_of(old["par"]))
        if cls == 4 and old["male_ref"]:
            continue                       # PAR-Y under a male reference and a diploid-PAR genome: not specified
        if cls == 4:
            cls = 2                        # female reference: every Y bin, PAR included, sits at -1
        want = 0.0
        if cls == 2 or (cls == 1 and old["male_ref"]):
            want = -1.0
        if cls == 3 and not old["male_ref"]:
            want = 0.0
        if res[k] != want:
            return "expect_flat_log2[%d] = %r for %s (class %d, male reference %s, PAR %s), expected %r" % (
                k, res[k], r.chromosome, cls, old["male_ref"], old["par"], want)


contract("cnvlib/cnary.py::CopyNumArray.expect_flat_log2#rt", params=dict(cnarr=ObjT("CopyNumArray")), bounded=True,
         gen=_gen_flat, call=lambda fn, a: a["cnarr"].expect_flat_log2(a["male_ref"], a["par"]),
         props=("C15", "C05"), checks=[("zero_auto_minus_one_y_x_if_male_ref", _chk_flat)])


def _chk_shift(args, res, old):
    cn = old["cnarr"]
    first = cn.chromosome.iat[0]
    from contracts import vocab as V
    xl = V.xlabel_of(first)
    delta = 0.0
    if old["is_xx"] and old["male_ref"]:
        delta = -1.0
    elif not old["is_xx"] and not old["male_ref"]:
        delta = 1.0
    for b, a in zip(cn.data.itertuples(index=False), res.data.itertuples(index=False)):
        want = b.log2 + (delta if b.chromosome == xl else 0.0)
        if not abs(a.log2 - want) <= 1e-12:
            return "shift_xx(male_ref=%s, is_xx=%s): %s bin moved from %r to %r, expected %r" % (
                old["male_ref"], old["is_xx"], b.chromosome, b.log2, a.log2, want)


contract("cnvlib/cnary.py::CopyNumArray.shift_xx#rt", params=dict(cnarr=ObjT("CopyNumArray")), bounded=True,
         gen=_gen_flat, call=lambda fn, a: a["cnarr"].shift_xx(a["male_ref"], a["is_xx"], None),
         props=("C15",), checks=[("x_to_autosomal_level", _chk_shift)])


# ----------------------------------------------------------------------------- sex inference (statistical: bounded only)
def _gen_sex(rng, tier, i):
    """samples whose chrX (and chrY, if present) bins sit at the levels expected for their sex relative to the stated
    reference sex: sex x reference sex x with/without Y bins x with/without weights x noise sd 0.01..0.3 x 40..400 X bins"""
    import pandas as pd
    from cnvlib.cnary import CopyNumArray
    if i >= (300 if tier == "quick" else 6000):
        return None
    female = rng.random() < 0.5
    male_ref = rng.random() < 0.5
    sd = rng.choice([0.01, 0.05, 0.1, 0.2, 0.3])
    nx = rng.choice([40, 60, 150, 400])
    with_y = rng.random() < 0.6
    with_w = rng.random() < 0.5
    pref = rng.choice(["chr", ""])
    rows = []
    for c in rng.sample(_AUTO, 5):
        for k in range(rng.choice([40, 100])):
            rows.append((pref + c, k * 1000, k * 1000 + 500, rng.gauss(0.0, sd)))
    xlevel = (0.0 if female else -1.0) + (1.0 if male_ref else 0.0)
    for k in range(nx):
        rows.append((pref + "X", k * 1000, k * 1000 + 500, rng.gauss(xlevel, sd)))
    if with_y:
        ylevel = (-12.0 if female else -1.0) + (1.0 if male_ref else 0.0)
        for k in range(rng.choice([10, 40])):
            rows.append((pref + "Y", k * 1000, k * 1000 + 500, rng.gauss(ylevel, sd if not female else 2.0)))
    from contracts.c_tabio import natural_key
    rows.sort(key=lambda r: (natural_key(r[0]), r[1]))
    df = pd.DataFrame(rows, columns=["chromosome", "start", "end", "log2"])
    df["gene"] = "A"
    if with_w:
        df["weight"] = [rng.uniform(0.3, 1.0) for _ in range(len(df))]
    df = df[["chromosome", "start", "end", "gene", "log2"] + (["weight"] if with_w else [])]
    return dict(cnarr=CopyNumArray(df, {"sample_id": "s", "filename": "s.cnr"}), female=female, male_ref=male_ref, sd=sd, nx=nx)


def _call_sex(fn, a):
    from cnvlib import commands
    g = a["cnarr"].guess_xx(a["male_ref"], None, False)
    t = commands.do_sex([a["cnarr"]], a["male_ref"], None)
    sh = a["cnarr"].shift_xx(a["male_ref"], None, None)
    return dict(guess=bool(g), table_sex=t["sex"].iat[0], shifted=sh)


def _chk_sex(args, res, old):
    import numpy as np
    if res["guess"] != old["female"]:
        return "guess_xx says %s for a %s sample (male reference %s, sd %r, %d X bins)" % (
            "female" if res["guess"] else "male", "female" if old["female"] else "male", old["male_ref"], old["sd"], old["nx"])
    if res["table_sex"] != ("Female" if old["female"] else "Male"):
        return "sex report says %s for a %s sample" % (res["table_sex"], "female" if old["female"] else "male")
    sh = res["shifted"].data
    x = sh[sh.chromosome.isin(["chrX", "X"])]["log2"].values
    a = sh[~sh.chromosome.isin(["chrX", "X", "chrY", "Y"])]["log2"].values
    want = 0.0 if not old["male_ref"] else -1.0 + 1.0 * 0   # level of X after shift: autosomal for a female reference,
    # and the single-copy level of the male reference otherwise (the reference's own X ploidy)
    target = np.median(a) + (0.0 if not old["male_ref"] else 0.0)
    if not abs(np.median(x) - target) <= 5 * old["sd"] / np.sqrt(len(x)) + 0.05:
        return "after shift_xx chrX sits at %r, autosomes at %r" % (float(np.median(x)), float(np.median(a)))


contract("prop::C15.sex_inference", params=dict(cnarr=ObjT("CopyNumArray")), bounded=True, gen=_gen_sex, call=_call_sex,
         props=("C15",), checks=[("sex_recovered_and_x_levelled", _chk_sex)],
         notes="a statistical claim over noise realisations (Mood's median test): only the bounded stand-in speaks about it")


# ----------------------------------------------------------------------------- deductive: flat expectation and X shift
from .c_call import CNA, BUILD, CHROM, GENE      # noqa: E402

_CLS_S = ("cls_of(self.data.chromosome[k], self.data.start[k], self.data.end[k], xlabel_of(self.data.chromosome[0]), "
          "ylabel_of(self.data.chromosome[0]), par_of(diploid_parx_genome))")

contract(
    "cnvlib/cnary.py::CopyNumArray.expect_flat_log2",
    params=dict(self=CNA(), is_haploid_x_reference=Bool, diploid_parx_genome=BUILD),
    returns=VecT(NReal),
    requires=[],
    ensures=[
        ("rowcount", "len(result) == len(self.data)"),
        # autosomes 0; Y -1; X -1 only for a male reference; PAR-X counts as autosomal under a diploid-PAR genome;
        # PAR-Y: -1 like the rest of Y under a female reference; left unspecified under a male reference
        ("flat_levels", "forall(0, len(result), lambda k: implies(CLS != 4 or not is_haploid_x_reference, "
                        "not isnull(result[k]) and val(result[k]) == "
                        "ite(CLS == 2 or (CLS == 4 and not is_haploid_x_reference) or (CLS == 1 and is_haploid_x_reference), -1, 0)))"
                        .replace("CLS", _CLS_S)),
    ],
    ghost=dict(frame_exempt_keys=("chr_x", "chr_y")),
    props=("C15", "C05"),
    domain="skip",
    canaries=[("y_forgotten_male_ref", "idx = self.chr_x_filter(diploid_parx_genome).values | (self.chr_y_filter(diploid_parx_genome)).values",
               "idx = self.chr_x_filter(diploid_parx_genome).values"),
              ("wrong_level", "cvg[idx] = -1.0", "cvg[idx] = 1.0")],
)

contract(
    "cnvlib/cnary.py::CopyNumArray.shift_xx",
    params=dict(self=CNA(), is_haploid_x_reference=Bool, is_xx=Bool, diploid_parx_genome=Lit(None)),
    returns=CNA(),
    requires=[],
    ensures=[
        ("rowcount", "len(result.data) == len(self.data)"),
        ("x_shift", "forall(0, len(result.data), lambda k: isnull(result.data.log2[k]) == isnull(self.data.log2[k]) and "
                    "implies(not isnull(self.data.log2[k]), val(result.data.log2[k]) == val(self.data.log2[k]) + "
                    "ite(self.data.chromosome[k] == xlabel_of(self.data.chromosome[0]), "
                    "ite(is_xx and is_haploid_x_reference, -1, ite(not is_xx and not is_haploid_x_reference, 1, 0)), 0)))"),
        ("other_columns", "forall(0, len(result.data), lambda k: result.data.chromosome[k] == self.data.chromosome[k] and "
                          "result.data.start[k] == self.data.start[k] and result.data.end[k] == self.data.end[k] and "
                          "result.data.gene[k] == self.data.gene[k])"),
        # the caller may go on to add columns to / drop rows from the result: it must never be the receiver itself (C10)
        ("fresh_result", "result is not self and result.data is not self.data"),
    ],
    ghost=dict(frame_exempt_keys=("chr_x", "chr_y")),
    props=("C15", "C10"),
    domain="skip",
    canaries=[("returns_self", "outprobes = self.copy()", "outprobes = self"),
              ("wrong_sign", '"log2"] -= 1.0', '"log2"] += 1.0')],
)


# ----------------------------------------------------------------------------- deductive: centring is one uniform shift
# The estimator is a callable parameter: an opaque, congruent functional of its vector argument.  That the estimator of
# the shifted autosomes is then zero needs the estimator's shift-equivariance (C19's business) and stays with the
# bounded contract center_all#rt.
contract(
    "cnvlib/cnary.py::CopyNumArray.center_all",
    params=dict(self=CNA(), estimator=FuncT("EST", args=("vec",)), by_chrom=Bool, skip_low=Bool, verbose=Lit(False),
                diploid_parx_genome=BUILD),
    returns=Lit(None),
    requires=[],
    modifies=("self.data",),
    ensures=[
        ("rowcount", "len(self.data) == len(old(self.data))"),
        # one constant is added to every bin: missing values stay missing, and any two bins move by the same amount
        ("uniform_shift", "forall(0, len(self.data), lambda j: isnull(self.data.log2[j]) == isnull(old(self.data).log2[j]) and "
                          "forall(0, len(self.data), lambda k: implies(not isnull(self.data.log2[j]) and not isnull(self.data.log2[k]), "
                          "val(self.data.log2[j]) - val(old(self.data).log2[j]) == val(self.data.log2[k]) - val(old(self.data).log2[k]))))"),
        ("other_columns", "forall(0, len(self.data), lambda k: self.data.chromosome[k] == old(self.data).chromosome[k] and "
                          "self.data.start[k] == old(self.data).start[k] and self.data.end[k] == old(self.data).end[k] and "
                          "self.data.gene[k] == old(self.data).gene[k])"),
    ],
    ghost=dict(frame_exempt_keys=("chr_x", "chr_y")),
    props=("C15",), domain="skip",
    canaries=[("scale_not_shift", 'self.data["log2"] += shift', 'self.data["log2"] *= shift'),
              ("not_on_x", 'self.data["log2"] += shift', 'self.data.loc[self.chromosome != self.chr_x_label, "log2"] += shift'),
              ("moves_coordinates", 'self.data["log2"] += shift', 'self.data["log2"] += shift; self.data["start"] += 1')],
)

contract("skgenome/gary.py::GenomicArray.by_chromosome", params=dict(self=CNA()),
         yields=TupT(CHROM, CNA(index="any")), trusted=True, requires=[], ensures=[], props=(), domain="skip",
         ghost=dict(result_is_field=("self", "groups")),
         notes="per-chromosome sub-arrays (pandas groupby): assumed to yield some sequence of (name, array) pairs; "
               "what they contain is the bounded contracts' business (C15 center_all#rt).  A caller's contract may model "
               "the sequence as a ghost field `groups` of the receiver (then the call returns that field)")

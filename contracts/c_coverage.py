"""Contracts for cnvlib/coverage.py and cnvlib/parallel.py::to_chunks  (C09)."""
from .dsl import *     # noqa
from . import vocab    # noqa


def _bam_case(rng, tier, i):
    """synthetic coordinate-sorted BAMs (1..3 contigs, 0..5000 reads (quick: ..400), read lengths 30..150, soft clips,
    every flag combination, MAPQ 0..60, reads straddling bin edges and contig ends) x BED files (3/4/6 columns,
    abutting, overlapping, zero-width, off-contig-end bins) x mapq cut-offs x both algorithms x 1..3 processes"""
    import os
    import tempfile
    import pysam
    d = tempfile.mkdtemp(prefix="verif_c09_")
    ncontig = rng.randint(1, 3)
    contigs = [("ctg%d" % (k + 1), rng.choice([2000, 5000, 12000])) for k in range(ncontig)]
    header = {"HD": {"VN": "1.6", "SO": "coordinate"}, "SQ": [{"SN": n, "LN": L} for n, L in contigs]}
    nreads = rng.choice([0, 1, 20, 150, 400 if tier == "quick" else 5000])
    reads = []
    for _ in range(nreads):
        ci = rng.randrange(ncontig)
        name, clen = contigs[ci]
        rl = rng.randint(30, 150)
        clip_l = rng.choice([0, 0, 0, 5, 12])
        clip_r = rng.choice([0, 0, 0, 7])
        aligned = rl - clip_l - clip_r
        pos = rng.choice([0, rng.randint(0, max(0, clen - aligned)), max(0, clen - aligned)])
        flag = 0
        for bit, p in ((0x400, 0.1), (0x100, 0.08), (0x200, 0.08), (0x10, 0.5), (0x4, 0.05)):
            if rng.random() < p:
                flag |= bit
        mapq = rng.choice([0, 0, 1, 10, 29, 30, 31, 60])
        reads.append(dict(ci=ci, pos=pos, aligned=aligned, clip_l=clip_l, clip_r=clip_r, flag=flag, mapq=mapq, rl=rl))
    reads.sort(key=lambda r: (r["ci"], r["pos"]))
    bam = os.path.join(d, "s.bam")
    with pysam.AlignmentFile(bam, "wb", header=header) as out:
        for k, r in enumerate(reads):
            a = pysam.AlignedSegment()
            a.query_name = "r%d" % k
            a.query_sequence = "A" * r["rl"]
            a.flag = r["flag"]
            a.reference_id = r["ci"]
            a.reference_start = r["pos"]
            a.mapping_quality = r["mapq"]
            cig = []
            if r["clip_l"]:
                cig.append((4, r["clip_l"]))
            cig.append((0, r["aligned"]))
            if r["clip_r"]:
                cig.append((4, r["clip_r"]))
            a.cigar = cig
            a.query_qualities = pysam.qualitystring_to_array("I" * r["rl"])
            out.write(a)
    pysam.index(bam)
    # regions
    ncol = rng.choice([3, 4, 6])
    bins = []
    many = (i % 12 == 5)
    if many:
        # more than one chunk of the regions file (chunks hold 5000 lines), incl. exact multiples of the chunk size
        nb = rng.choice([5000, 10000, 10003, 5001])
        name, clen = contigs[0]
        for k in range(nb):
            s0 = (k * 7) % max(1, clen - 10)
            bins.append((name, s0, s0 + rng.choice([1, 3, 9]), "g%d" % k))
    for name, clen in ([] if many else contigs):
        pos = rng.choice([0, 100])
        while pos < clen + 200 and len(bins) < (40 if tier == "quick" else 400):
            kind = rng.random()
            L = rng.choice([1, 50, 100, 333, 1000])
            if kind < 0.06:
                L = 0
            s = pos
            e = s + L
            if s >= clen:
                break
            bins.append((name, s, e, "g%d" % len(bins)))
            if kind < 0.3:
                pos = e                       # abutting
            elif kind < 0.4:
                pos = max(0, e - rng.randint(1, 30))      # overlapping the previous bin
            else:
                pos = e + rng.randint(1, 500)
    bed = os.path.join(d, "r.bed")
    with open(bed, "w") as fh:
        for b in bins:
            if ncol == 3:
                fh.write("%s\t%d\t%d\n" % b[:3])
            elif ncol == 4:
                fh.write("%s\t%d\t%d\t%s\n" % b)
            else:
                fh.write("%s\t%d\t%d\t%s\t0\t+\n" % b)
    return dict(tmp=d, bam=bam, bed=bed, bins=bins, reads=reads, contigs=contigs, ncol=ncol,
                min_mapq=rng.choice([0, 0, 1, 30, 31]), by_count=(rng.random() < 0.5 and not many),
                processes=rng.choice([1, 1, 2, 3]) if not many else rng.choice([2, 3]))


def _gen_cov(rng, tier, i):
    if i >= (150 if tier == "quick" else 3000):
        return None
    return _bam_case(rng, tier, i)


_gen_cov.__doc__ = _bam_case.__doc__


def _call_cov(fn, a):
    import shutil
    import warnings
    warnings.simplefilter("ignore")
    from cnvlib import coverage
    try:
        main = coverage.do_coverage(a["bed"], a["bam"], a["by_count"], a["min_mapq"], a["processes"])
        other = coverage.do_coverage(a["bed"], a["bam"], not a["by_count"], a["min_mapq"], 1)
        return dict(main=main, other=other)
    finally:
        shutil.rmtree(a["tmp"], ignore_errors=True)


def _expected_depths(a):
    import math
    out = []
    for name, s, e, g in a["bins"]:
        ci = [n for n, _ in a["contigs"]].index(name)
        bases = 0
        for r in a["reads"]:
            if r["ci"] != ci or (r["flag"] & (0x400 | 0x100 | 0x200 | 0x4)) or r["mapq"] < a["min_mapq"]:
                continue
            lo, hi = max(s, r["pos"]), min(e, r["pos"] + r["aligned"])
            if hi > lo:
                bases += hi - lo
        depth = bases / (e - s) if e > s else 0.0
        out.append((name, s, e, g if a["ncol"] > 3 else "-", depth, math.log2(depth) if depth > 0 else -20.0))
    return out


def _chk_cov(args, res, old):
    from contracts.c_tabio import natural_key
    exp = _expected_depths(old)
    exp.sort(key=lambda r: (natural_key(r[0]), r[1], r[2], r[3]))
    for label, table in (("%s algorithm, %d processes" % ("count" if old["by_count"] else "pileup", old["processes"]), res["main"]),
                         ("%s algorithm, 1 process" % ("pileup" if old["by_count"] else "count"), res["other"])):
        # row order is not part of the statement (the two algorithms order an unsorted BED differently)
        rows = sorted(table.data.itertuples(index=False), key=lambda r: (natural_key(r.chromosome), r.start, r.end, r.gene))
        if len(rows) != len(exp):
            return "%s: %d output rows for %d bins" % (label, len(rows), len(exp))
        for r, x in zip(rows, exp):
            if (r.chromosome, r.start, r.end) != x[:3]:
                return "%s: row %r does not keep its bin's coordinates %r" % (label, (r.chromosome, r.start, r.end), x[:3])
            if r.gene != x[3]:
                return "%s: bin %r name %r, expected %r" % (label, x[:3], r.gene, x[3])
            if not abs(r.depth - x[4]) <= 1e-9 * max(1.0, x[4]) or not abs(r.log2 - x[5]) <= 1e-9 * max(1.0, abs(x[5])):
                return "%s (mapq cut-off %d): bin %r depth/log2 = (%r, %r), expected (%r, %r)" % (
                    label, old["min_mapq"], x[:3], r.depth, r.log2, x[4], x[5])


contract("cnvlib/coverage.py::do_coverage", params=dict(bed=Str, bam=Str), bounded=True, gen=_gen_cov, call=_call_cov,
         modifies=("tmp", "bam", "bed"), props=("C09",), checks=[("mean_depth_of_counted_reads", _chk_cov)])


# ----------------------------------------------------------------------------- chunking
def _gen_chunks(rng, tier, i):
    """regions files of 0..40 lines (with comment lines) x chunk sizes 1..12, incl. line counts that are exact multiples"""
    import os
    import tempfile
    if i >= (400 if tier == "quick" else 5000):
        return None
    d = tempfile.mkdtemp(prefix="verif_c09_")
    n = rng.choice([0, 1, 2, 5, 10, 12, 24, 40]) if rng.random() < 0.7 else rng.randint(0, 40)
    lines = []
    for k in range(n):
        if rng.random() < 0.1:
            lines.append("# comment %d\n" % k)
        lines.append("chr1\t%d\t%d\tg%d\n" % (k * 100, k * 100 + 50, k))
    p = os.path.join(d, "r.bed")
    with open(p, "w") as fh:
        fh.writelines(lines)
    return dict(tmp=d, bed=p, lines=lines, chunk=rng.choice([1, 2, 3, 4, 5, 6, 10, 12]))


def _call_chunks(fn, a):
    import shutil
    from cnvlib import parallel
    try:
        out = []
        for name in parallel.to_chunks(a["bed"], a["chunk"]):
            out.append(open(name).readlines())
            parallel.rm(name)
        return out
    finally:
        shutil.rmtree(a["tmp"], ignore_errors=True)


def _chk_chunks(args, res, old):
    want = [l for l in old["lines"] if not l.startswith("#")]
    got = [l for ch in res for l in ch]
    if got != want:
        return "chunks concatenate to %d lines, the file has %d non-comment lines (chunk size %d)" % (len(got), len(want), old["chunk"])
    if any(len(ch) > old["chunk"] or len(ch) == 0 for ch in res):
        return "chunk sizes %r exceed %d or are empty" % ([len(ch) for ch in res], old["chunk"])


contract("cnvlib/parallel.py::to_chunks", params=dict(bed=Str, chunk=Int), bounded=True, gen=_gen_chunks, call=_call_chunks,
         modifies=("tmp", "bed"), props=("C09",), checks=[("chunks_partition_the_lines", _chk_chunks)])


# ----------------------------------------------------------------------------- deductive: the --count algorithm's rule
# Reads are objects with the flags pysam exposes; AlignmentFile.fetch is an assumed contract returning the file's
# reads for the region (ghost field `reads`).  The counts are sums of indicators (prefix-sum functions), the invariant
# says "so far" for both accumulators.
from .c_call import CHROM, GENE       # noqa: E402

_READ = ObjT("AlignedSegment", is_duplicate=Bool, is_secondary=Bool, is_unmapped=Bool, is_qcfail=Bool, mapq=Int,
             positions=VecT(Int, kind="list"))
_BAM = ObjT("AlignmentFile", reads=SeqT(_READ))

contract("ext::AlignmentFile.fetch", params=dict(self=_BAM, reference=CHROM, start=Int, end=Int),
         returns=SeqT(_READ), trusted=True, requires=[],
         ensures=[], ghost=dict(result_is="self.reads"),
         props=(), domain="skip",
         notes="pysam: the reads overlapping the region, as a sequence (modelled as the object's ghost field `reads`; which "
               "reads pysam returns for a region is its business and is exercised by the bounded C09 contracts)")

_PASS = ("(not bamfile.reads[k].is_duplicate and not bamfile.reads[k].is_secondary and not bamfile.reads[k].is_unmapped and "
         "not bamfile.reads[k].is_qcfail and bamfile.reads[k].mapq >= min_mapq)")

_INREG = "countif(bamfile.reads[k].positions, lambda p: start <= p and p < end)"

contract(
    "cnvlib/coverage.py::region_depth_count",
    params=dict(bamfile=_BAM, chrom=CHROM, start=Int, end=Int, gene=GENE, min_mapq=Int),
    returns=TupT(Int, TupT(CHROM, Int, Int, GENE, Real, Real)),
    requires=[],
    ghost=dict(defs=dict(
        g_counted="Vec(len(bamfile.reads), lambda k: ite(PASS, 1, 0))".replace("PASS", _PASS),
        g_bases="Vec(len(bamfile.reads), lambda k: ite(PASS, INREG, 0))".replace("PASS", _PASS).replace("INREG", _INREG))),
    loops={0: dict(inv=[("count_so_far", "count == psum(g_counted, i_)"),
                        ("bases_so_far", "bases == psum(g_bases, i_)")])},
    ensures=[
        ("echoes_the_bin", "result[1][0] == chrom and result[1][1] == start and result[1][2] == end and result[1][3] == gene"),
        # reads flagged duplicate, secondary, unmapped or QC-fail, or below the mapping-quality cut-off, are not counted
        ("counts_only_usable_reads", "result[0] == sumof(g_counted)"),
        # depth = aligned bases of the counted reads inside the bin / bin length (0 for an empty or reversed bin)
        ("mean_depth", "result[1][5] == ite(end > start, sumof(g_bases) / (end - start), 0)"),
        ("log2_of_depth", "result[1][4] == ite(result[1][5] != 0, log2(result[1][5]), -20)"),
    ],
    props=("C09",), domain="skip",
    canaries=[("duplicates_counted", "read.is_duplicate\n            or ", ""),
              ("mapq_le", "read.mapq < min_mapq", "read.mapq <= min_mapq"),
              ("bases_outside_bin", "if start <= p < end", "if start <= p <= end"),
              ("unfiltered_bases", "if filter_read(read):", "if True:")],
)


# ----------------------------------------------------------------------------- deductive: one chunk of bins

_REGS4 = ObjT("GenomicArray", data=TabT(index="any", chromosome=CHROM, start=Int, end=Int, gene=GENE), meta=DictT())
_PASSQ = _PASS
_BASESQ = ("sumof(Vec(len(bamfile.reads), lambda k: ite(PASS, countif(bamfile.reads[k].positions, lambda p: regions.data.start[j] <= p and p < regions.data.end[j]), 0)))"
           .replace("PASS", _PASS))
contract(
    "cnvlib/coverage.py::_rdc_chunk",
    params=dict(bamfile=_BAM, regions=_REGS4, min_mapq=Int, fasta=Lit(None)),
    yields=TupT(Int, TupT(CHROM, Int, Int, GENE, Real, Real)),
    requires=[],
    loops={0: dict(inv=[
        ("one_row_per_bin", "len(out_) == i_"),
        ("rows_echo_their_bins", "forall(0, i_, lambda j: out_[j][1][0] == regions.data.chromosome[j] and out_[j][1][1] == regions.data.start[j] and "
                                 "out_[j][1][2] == regions.data.end[j] and out_[j][1][3] == regions.data.gene[j])"),
        ("depths", "forall(0, i_, lambda j: out_[j][1][5] == ite(regions.data.end[j] > regions.data.start[j], BASES / (regions.data.end[j] - regions.data.start[j]), 0))".replace("BASES", _BASESQ)),
    ])},
    ensures=[
        ("one_row_per_bin", "len(result) == len(regions.data)"),
        ("rows_echo_their_bins", "forall(0, len(result), lambda j: result[j][1][0] == regions.data.chromosome[j] and result[j][1][1] == regions.data.start[j] and "
                                 "result[j][1][2] == regions.data.end[j] and result[j][1][3] == regions.data.gene[j])"),
        ("depths", "forall(0, len(result), lambda j: result[j][1][5] == ite(regions.data.end[j] > regions.data.start[j], BASES / (regions.data.end[j] - regions.data.start[j]), 0))".replace("BASES", _BASESQ)),
    ],
    props=("C09",), domain="skip",
    canaries=[("coordinates_shifted", "yield region_depth_count(bamfile, chrom, start, end, gene, min_mapq)",
               "yield region_depth_count(bamfile, chrom, start + 1, end, gene, min_mapq)"),
              ("quality_cutoff_dropped", "yield region_depth_count(bamfile, chrom, start, end, gene, min_mapq)",
               "yield region_depth_count(bamfile, chrom, start, end, gene, 0)")],
    notes="one chunk of the regions file (what each worker process runs): one row per bin, in order, with the bin's own "
          "coordinates and name and the depth of region_depth_count's contract; GenomicArray.coords is executed in place",
)

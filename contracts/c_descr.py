"""Contracts for cnvlib/descriptives.py and cnvlib/smoothing.py  (C19; shared with C05, C15, C17).

Deductive tier: _width2wing (scalar arithmetic).  Bounded tier (run-time contracts on generated inputs,
never counted as proved): the estimators and smoothers, whose bodies bottom out in numpy sort/percentile/
median kernels, scipy and pandas rolling windows.
"""
import math

from .dsl import *     # noqa
from . import vocab    # noqa


# ----------------------------------------------------------------------------- deductive: window arithmetic
contract(
    "cnvlib/smoothing.py::_width2wing",
    params=dict(width=Real, x=VecT(Real), min_wing=Int),
    returns=Int,
    requires=["len(x) >= 2", "min_wing >= 1",
              "(0 < width and width < 1) or (width >= 2 and width == floor(width))"],
    ensures=[("wing_range", "1 <= result and result <= len(x) - 1"),
             ("wing_at_least_min", "result >= min_wing or result == len(x) - 1")],
    props=("C19",),
    ghost=dict(nonlinear=False),
    domain=dict(width=lambda rng, tier: rng.choice([0.1, 0.25, 0.5, 0.9, 2.0, 3.0, 7.0, 50.0, 401.0]),
                x=lambda rng, tier: [0.0] * rng.randint(2, 40), min_wing=lambda rng, tier: rng.choice([1, 3])),
    canaries=[("no_upper_clip", "wing = min(wing, len(x) - 1)", "wing = min(wing, len(x))"),
              ("no_lower_clip", "wing = max(wing, min_wing)", "wing = wing")],
)


# ----------------------------------------------------------------------------- bounded: generators
def _vec(rng, tier, nmax=None):
    """finite float vectors of length 1..400 (quick: ..60): ties, repeated values, one extreme outlier,
    all-equal, symmetric, integers"""
    import numpy as np
    nmax = nmax or (60 if tier == "quick" else 400)
    kind = rng.choice(["normal", "ties", "const", "outlier", "ints", "two", "symmetric", "tiny"])
    n = rng.choice([1, 2, 3, 4, 5, 7, 10, 11, 25, nmax]) if rng.random() < 0.7 else rng.randint(1, nmax)
    if kind == "tiny":
        n = rng.randint(1, 3)
    if kind == "normal":
        a = [rng.gauss(0, rng.choice([0.01, 1, 100])) for _ in range(n)]
    elif kind == "ties":
        vals = [rng.gauss(0, 1) for _ in range(rng.randint(1, 3))]
        a = [rng.choice(vals) for _ in range(n)]
    elif kind == "const":
        a = [rng.choice([0.0, 2.0, -3.5, 1e6])] * n
    elif kind == "outlier":
        a = [rng.gauss(0, 1) for _ in range(n)]
        a[rng.randrange(n)] = rng.choice([1e6, -1e6])
    elif kind == "ints":
        a = [float(rng.randint(-3, 3)) for _ in range(n)]
    elif kind == "two":
        a = [rng.choice([0.0, 1.0]) for _ in range(n)]
    elif kind == "symmetric":
        h = [rng.gauss(0, 1) for _ in range(n // 2)]
        a = h + [-x for x in h] + ([0.0] if n % 2 else [])
    else:
        a = [rng.gauss(0, 1) for _ in range(n)]
    return np.array(a, dtype=float)


def _weights(rng, n):
    import numpy as np
    kind = rng.choice(["equal", "random", "dominant", "zeros", "ints"])
    if kind == "equal":
        w = [rng.choice([1.0, 0.5, 3.0])] * n
    elif kind == "random":
        w = [rng.uniform(0.01, 1) for _ in range(n)]
    elif kind == "dominant":
        w = [rng.uniform(0.01, 0.1) for _ in range(n)]
        w[rng.randrange(n)] = 5.0 * n
    elif kind == "zeros":
        w = [rng.choice([0.0, 1.0, 0.3]) for _ in range(n)]
        if not any(w):
            w[rng.randrange(n)] = 1.0
    else:
        w = [float(rng.randint(1, 4)) for _ in range(n)]
    return np.array(w, dtype=float)


def _gen_aw(rng, tier, i):
    """value vector x positive weight vector (equal, random, one dominant weight, zeros, small integers)"""
    a = _vec(rng, tier)
    return dict(a=a, w=_weights(rng, len(a)))


def _gen_a(rng, tier, i):
    """finite float vectors of length 1..400 (ties, repeated values, outlier, all-equal, symmetric)"""
    return dict(a=_vec(rng, tier))


def _gen_a_nan(rng, tier, i):
    """as _gen_a, with NaN entries sprinkled in (the estimators promise to ignore them)"""
    import numpy as np
    a = _vec(rng, tier)
    if len(a) > 1 and rng.random() < 0.4:
        a = a.copy()
        for _ in range(rng.randint(1, max(1, len(a) // 3))):
            a[rng.randrange(len(a))] = np.nan
    return dict(a=a)


def _close(x, y, rel=1e-9, ab=1e-9):
    return x == y or abs(x - y) <= max(ab, rel * max(abs(x), abs(y)))


def _call_a(fn, args):
    return fn(args["a"].copy())


def _call_aw(fn, args):
    return fn(args["a"].copy(), args["w"].copy())


# ----------------------------------------------------------------------------- weighted median
def _wm_half(args, m, old):
    import numpy as np
    a, w = old["a"], old["w"]
    if np.isnan(m):
        return "result is NaN"
    tot = w.sum()
    lo = w[a < m].sum()
    hi = w[a > m].sum()
    tol = 1e-9 * max(1.0, tot)
    if lo > tot / 2 + tol:
        return "weight(values < m)=%r exceeds half of %r (m=%r)" % (lo, tot, m)
    if hi > tot / 2 + tol:
        return "weight(values > m)=%r exceeds half of %r (m=%r)" % (hi, tot, m)


def _wm_equal(args, m, old):
    import numpy as np
    a, w = old["a"], old["w"]
    if len(set(w.tolist())) == 1 and not _close(m, float(np.median(a))):
        return "equal weights: weighted median %r != median %r of %r" % (m, float(np.median(a)), a.tolist())


def _in_range(args, m, old):
    import numpy as np
    a = old["a"]
    a = a[~np.isnan(a)]
    if len(a) and not (a.min() - 1e-9 * max(1, abs(a.min())) <= m <= a.max() + 1e-9 * max(1, abs(a.max()))):
        return "location %r outside the data range [%r, %r]" % (m, a.min(), a.max())


def _generic_weights(w):
    """Two-execution comparisons of the weighted median / MAD are made only for weights in general position:
    where a prefix of the sorted values carries exactly half the weight the weighted median is an interval, and
    which point of it the code returns depends on float rounding of the running sum (over the reals it does not);
    the defining inequalities are checked on every input regardless."""
    w = [float(x) for x in w if x > 0]
    if len(set(w)) != len(w):
        return False
    tot = sum(w)
    # no subset-sum coincidence is checked exhaustively; distinct irrational-looking weights make one improbable
    return all(abs(x * 1000 - round(x * 1000)) > 1e-9 for x in w) or len(w) == 1


def _shift_equivariant(fn_name, weighted=False, tol=1e-6):
    def chk(args, m, old):
        import numpy as np
        from cnvlib import descriptives as D
        f = getattr(D, fn_name)
        if weighted and not _generic_weights(old["w"]):
            return None
        for c in (1.0, -2.5, 1000.0):
            m2 = f(old["a"] + c, old["w"].copy()) if weighted else f(old["a"] + c)
            if np.isnan(m) and np.isnan(m2):
                continue
            scale = max(1.0, abs(c), float(np.nanmax(np.abs(old["a"]))))
            if not abs((m2 - c) - m) <= tol * scale:
                if fn_name == "modal_location":
                    # two density peaks of exactly equal height (symmetric data): which one argmax picks is
                    # floating-point noise, not a property of the estimator over the reals
                    from scipy import stats
                    aa = old["a"][~np.isnan(old["a"])]
                    y = stats.gaussian_kde(aa).evaluate([m, m2 - c])
                    if abs(y[0] - y[1]) <= 1e-9 * max(y):
                        continue
                return "adding %r moves the estimate from %r to %r (expected %r)" % (c, m, m2, m + c)
    return chk


contract("cnvlib/descriptives.py::weighted_median", params=dict(a=VecT(Real), weights=VecT(Real)), returns=Real, trusted=True,
         requires=[], props=(), domain="skip",
         ensures=[("within_the_data_range", "implies(len(a) >= 1, exists(0, len(a), lambda k1: exists(0, len(a), lambda k2: "
                                            "a[k1] <= result and result <= a[k2])))")],
         notes="assumed at call sites: a weighted median lies within the range of its values (the bounded twin "
               "weighted_median#rt checks this clause `in_range`, and the half-weight definition, on generated inputs)")

# The body of weighted_median under contract (key suffix #body: the text verified is the function's own body; call sites
# see the decorated function, whose contract above stays assumed -- what separates the two is on_weighted_array's
# glue: length check, NaN dropping, the single-value shortcut).  Clauses are stated over the sorted view the body builds
# (local_a, local_weights = the values in non-decreasing order and their weights, a joint reordering of the arguments).
_WM_TOL = "len(a) * 2.220446049250313e-16 * sumof(local_weights)"
_WM_ABOVE = ("forall(0, len(a) + 1, lambda q: implies(forall(0, len(a), lambda i: (i >= q) == (local_a[i] > result)), "
             "sumof(local_weights) - psum(local_weights, q) <= 0.5 * sumof(local_weights) + TOL))")
_WM_BELOW = ("forall(0, len(a) + 1, lambda p: implies(forall(0, len(a), lambda i: (i < p) == (local_a[i] < result)), "
             "psum(local_weights, p) <= 0.5 * sumof(local_weights) + TOL))")
contract(
    "cnvlib/descriptives.py::weighted_median#body",
    params=dict(a=VecT(Real), weights=VecT(Real)), returns=Real,
    requires=["len(a) == len(weights)", "len(a) >= 2", "forall(0, len(weights), lambda k: weights[k] >= 0)"],
    ensures=[
        ("result_within_the_data_range", "exists(0, len(a), lambda k1: exists(0, len(a), lambda k2: a[k1] <= result and result <= a[k2]))"),
        # the sorted view: local_a / local_weights are the values in non-decreasing order and their weights
        ("sorted_view", "len(local_a) == len(a) and len(local_weights) == len(a) and "
                        "forall(0, len(a), lambda x: forall(0, len(a), lambda y: implies(x <= y, local_a[x] <= local_a[y]))) and "
                        "forall(0, len(a), lambda x: local_weights[x] >= 0)"),
        ("sorted_view_is_a_joint_reordering", "forall(0, len(a), lambda k: 0 <= local_order[k] and local_order[k] < len(a) and "
                                              "local_a[k] == a[local_order[k]] and local_weights[k] == weights[local_order[k]]) and "
                                              "forall(0, len(a), lambda x: forall(0, len(a), lambda y: implies(x != y, local_order[x] != local_order[y])))"),
        # stepping stones (lemmas psum_monotone, psum_flat instantiated on the sorted weights)
        ("prefix_weights_monotone", "forall(0, len(a) + 1, lambda x: forall(0, len(a) + 1, lambda y: implies(x <= y, "
                                    "implies(use('psum_monotone', v=local_weights, a=x, b=y), psum(local_weights, x) <= psum(local_weights, y)))))",
         ["sorted_view"]),
        ("zero_stretch_adds_nothing", "forall(0, len(a) + 1, lambda x: forall(0, len(a) + 1, lambda y: implies(x <= y and "
                                      "forall(0, len(a), lambda k: implies(x <= k and k < y, local_weights[k] == 0)), "
                                      "implies(use('psum_flat', v=local_weights, a=x, b=y), psum(local_weights, y) == psum(local_weights, x)))))",
         ["sorted_view"]),
        # what every path establishes: the result is a value whose own position splits the weight (at most half before it,
        # at most half after it), or the mean of two values with only zero weights between them, the first of which ends
        # exactly half the weight
        ("median_point", "let(lambda W, A, H: exists(0, len(a), lambda m: "
                         "(result == A[m] and psum(W, m) <= H and sumof(W) - psum(W, m + 1) <= H) or "
                         "exists(0, len(a), lambda m2: m < m2 and 2 * result == A[m] + A[m2] and psum(W, m + 1) <= H and "
                         "sumof(W) - psum(W, m + 1) <= H and forall(0, len(a), lambda k: implies(m < k and k < m2, W[k] == 0)))), "
                         "local_weights, local_a, 0.5 * sumof(local_weights) + TOL)".replace("TOL", _WM_TOL),
         ["sorted_view", "prefix_weights_monotone"]),
        # the definition of a weighted median, up to the rounding allowance TOL = n * eps * total the code grants itself:
        # the weight strictly below the result and the weight strictly above it are each at most half the total
        ("at_most_half_the_weight_below", _WM_BELOW.replace("TOL", _WM_TOL), ["median_point", "sorted_view", "prefix_weights_monotone", "zero_stretch_adds_nothing", "-path"]),
        ("at_most_half_the_weight_above", _WM_ABOVE.replace("TOL", _WM_TOL), ["median_point", "sorted_view", "prefix_weights_monotone", "zero_stretch_adds_nothing", "-path"]),
    ],
    ghost=dict(decorated="body of the function: what on_weighted_array hands it is two float arrays of equal length >= 2 "
                         "without NaN (it returns a[0] itself for one value); the wrapper is not verified",
               locals_visible=True, chain_ensures=True),
    props=("C19", "C14"), domain="skip",
    notes="the function's own body (what on_weighted_array calls with two NaN-free float arrays of equal length >= 2); "
          "real arithmetic; clauses over the sorted view local_a/local_weights, a joint reordering of the arguments",
    canaries=[("weights_not_reordered", "    weights = weights[order]\n", "    weights = weights\n"),
              ("majority_needs_only_a_third", "midpoint = 0.5 * weights.sum()\n    if (weights > midpoint).any():", "midpoint = 0.5 * weights.sum()\n    if (weights > midpoint / 1.5).any():"),
              ("search_from_the_right", "cumulative_weight.searchsorted(midpoint - tol)", 'cumulative_weight.searchsorted(midpoint - tol, "right")'),
              ("averages_too_eagerly", "cumulative_weight[midpoint_idx] - midpoint <= tol", "cumulative_weight[midpoint_idx] - midpoint <= 0.25 * midpoint"),
              ("returns_the_previous_value", "    return a[midpoint_idx]", "    return a[midpoint_idx - 1]")],
)

contract("cnvlib/descriptives.py::weighted_median#rt", params=dict(a=VecT(Real), w=VecT(Real)), bounded=True,
         gen=_gen_aw, call=_call_aw, props=("C19", "C14"),
         checks=[("half_weight", _wm_half), ("equal_weights_is_median", _wm_equal), ("in_range", _in_range),
                 ("shift_equivariant", _shift_equivariant("weighted_median", True))])

contract("cnvlib/descriptives.py::biweight_location", params=dict(a=VecT(NReal)), bounded=True,
         gen=_gen_a_nan, call=_call_a, props=("C19", "C05"),
         checks=[("in_range", _in_range), ("shift_equivariant", _shift_equivariant("biweight_location", tol=2e-3))],
         notes="the iteration stops within epsilon=1e-3 of its fixed point, so equivariance holds to that tolerance")


def _mode_returns(args, m, old):
    import numpy as np
    a = old["a"][~np.isnan(old["a"])]
    if len(a) and (m is None or np.isnan(m)):
        return "no modal value for non-empty input"


contract("cnvlib/descriptives.py::modal_location", params=dict(a=VecT(NReal)), bounded=True,
         gen=_gen_a_nan, call=_call_a, props=("C19", "C15"),
         checks=[("returns_value", _mode_returns), ("in_range", _in_range),
                 ("shift_equivariant", _shift_equivariant("modal_location", tol=1e-6))])


# ----------------------------------------------------------------------------- scale estimators
def _ref_mad(a):
    import numpy as np
    return float(np.median(np.abs(a - np.median(a))) * 1.4826)


def _ref_iqr(a):
    import numpy as np
    s = np.sort(a)
    n = len(s)

    def q(p):
        h = (n - 1) * p
        lo = int(math.floor(h))
        hi = min(lo + 1, n - 1)
        return s[lo] + (h - lo) * (s[hi] - s[lo])
    return float(q(0.75) - q(0.25))


def _ref_gapper(a):
    import numpy as np
    s = np.sort(a)
    n = len(s)
    tot = 0.0
    for i in range(1, n):
        tot += i * (n - i) * (s[i] - s[i - 1])
    return float(tot * math.sqrt(math.pi) / (n * (n - 1)))


def _ref_qn(a):
    import numpy as np
    n = len(a)
    d = sorted(abs(a[i] - a[j]) for i in range(n) for j in range(i + 1, n))
    h = (len(d) - 1) * 0.25
    lo = int(math.floor(h))
    hi = min(lo + 1, len(d) - 1)
    q = d[lo] + (h - lo) * (d[hi] - d[lo])
    scale = 1.392 if n <= 10 else (1.0 + 4 / n if n < 400 else 1.0)
    return float(q / scale)


def _ref_bimidvar(a):
    import numpy as np
    from cnvlib import descriptives as D
    init = D.biweight_location(a)
    d = a - init
    mad = float(np.median(np.abs(d)))
    w = d / max(9.0 * mad, 1e-3)
    mask = np.abs(w) < 1
    if w[mask].sum() == 0:
        return mad * 1.4826
    n = mask.sum()
    d_, w_ = d[mask], (w ** 2)[mask]
    return float(math.sqrt(n * float((d_ ** 2 * (1 - w_) ** 4).sum())) / abs(float(((1 - w_) * (1 - 5 * w_)).sum())))


def _scale_checks(fn_name, ref=None, shift_invariant=True, weighted=False):
    def nonneg(args, s, old):
        import numpy as np
        if not np.isnan(s) and s < 0:
            return "scale estimate %r is negative" % (s,)
        a = old["a"][~np.isnan(old["a"])]
        if len(a) and np.isnan(s):
            return "scale estimate is NaN for non-empty data"

    def zero_const(args, s, old):
        import numpy as np
        a = old["a"][~np.isnan(old["a"])]
        if len(a) and np.all(a == a[0]) and not abs(s) <= 1e-9 * max(1.0, abs(a[0])):   # floats are not reals
            return "constant data %r give scale %r, not 0" % (a[:3].tolist(), s)

    def invariances(args, s, old):
        import numpy as np
        from cnvlib import descriptives as D
        f = getattr(D, fn_name)
        a = old["a"]
        mag = max(1.0, float(np.nanmax(np.abs(a)))) if len(a) else 1.0

        def run(x):
            return f(x, old["w"].copy()) if weighted else f(x)
        if weighted and fn_name == "weighted_mad" and not _generic_weights(old["w"]):
            return None
        if shift_invariant:
            for c in (1.0, -7.25):
                s2 = run(a + c)
                if not (np.isnan(s) and np.isnan(s2)) and not abs(s2 - s) <= 1e-6 * max(mag, abs(c)):
                    return "adding %r changes the scale from %r to %r" % (c, s, s2)
        for k in (2.0, 0.5, 10.0):
            s2 = run(a * k)
            if not (np.isnan(s) and np.isnan(s2)) and not abs(s2 - k * s) <= 1e-6 * max(mag * k, 1.0) + 2e-3 * (not shift_invariant):
                return "multiplying by %r changes the scale from %r to %r (expected %r)" % (k, s, s2, k * s)

    def formula(args, s, old):
        import numpy as np
        a = old["a"][~np.isnan(old["a"])]
        if len(a) < 2:
            return None
        r = ref(a)
        if not abs(r - s) <= 1e-7 * max(1.0, abs(r)):
            return "differs from the independent implementation of the published formula: %r vs %r" % (s, r)
    out = [("non_negative", nonneg), ("zero_on_constant", zero_const)]
    if shift_invariant:
        # the statement exempts the biweight midvariance from both invariances
        out.append(("shift_scale_behaviour", invariances))
    if ref is not None:
        out.append(("formula", formula))
    return out


for _name, _ref, _shift in (("median_absolute_deviation", _ref_mad, True), ("interquartile_range", _ref_iqr, True),
                            ("gapper_scale", _ref_gapper, True), ("q_n", _ref_qn, True),
                            ("biweight_midvariance", _ref_bimidvar, False)):
    contract("cnvlib/descriptives.py::" + _name + ("#rt" if _name in ("median_absolute_deviation", "weighted_std", "biweight_midvariance") else ""),
             params=dict(a=VecT(NReal)), bounded=True,
             gen=(lambda rng, tier, i, _n=_name: dict(a=_vec(rng, tier, 40 if _n == "q_n" else None)))
             if _name == "q_n" else _gen_a_nan,
             call=_call_a, props=("C19",) + (("C05",) if _name == "biweight_midvariance" else ()) + (("C17",)),
             checks=_scale_checks(_name, _ref, _shift))


def _ref_wmad(a, w):
    import numpy as np

    def wmed(x, ww):
        o = np.argsort(x, kind="mergesort")
        x, ww = x[o], ww[o]
        half = ww.sum() / 2.0
        if (ww > half).any():
            return x[ww.argmax()]
        c = np.cumsum(ww)
        i = int(np.searchsorted(c, half))
        if abs(c[i] - half) <= 1e-12 * max(1.0, half) and i + 1 < len(x):
            return (x[i] + x[i + 1]) / 2.0
        return x[i]
    m = wmed(a, w)
    return float(wmed(np.abs(a - m), w) * 1.4826)


def _ref_wstd(a, w):
    import numpy as np
    m = float((a * w).sum() / w.sum())
    return float(math.sqrt(float(((a - m) ** 2 * w).sum() / w.sum())))


def _wformula(ref):
    def chk(args, s, old):
        a, w = old["a"], old["w"]
        r = ref(a, w)
        if not abs(r - s) <= 1e-7 * max(1.0, abs(r)):
            return "differs from the independent implementation: %r vs %r" % (s, r)
    return chk


def _wmad_def(args, s, old):
    """definition-based (independent of how ties at exactly half the weight are broken): s/1.4826 must be a
    weighted median of |a - m| for a weighted median m of a"""
    import numpy as np
    a, w = old["a"], old["w"]
    if len(a) < 2:
        return None
    m = _ref_wmedian_any(a, w)
    tot = w.sum()
    tol = 1e-9 * max(1.0, tot)
    ok = False
    for m1 in m:
        dev = np.abs(a - m1)
        m2 = s / 1.4826
        eps = 1e-9 * max(1.0, float(dev.max()))
        if w[dev < m2 - eps].sum() <= tot / 2 + tol and w[dev > m2 + eps].sum() <= tot / 2 + tol:
            ok = True
    if not ok:
        return "%r/1.4826 is not a weighted median of the absolute deviations from a weighted median %r" % (s, m)


def _ref_wmedian_any(a, w):
    """the admissible weighted medians at a tie: lower value, upper value and their mean"""
    import numpy as np
    o = np.argsort(a, kind="mergesort")
    x, ww = a[o], w[o]
    half = ww.sum() / 2.0
    c = np.cumsum(ww)
    i = int(np.searchsorted(c, half - 1e-12 * max(1.0, half)))
    out = [float(x[i])]
    if abs(c[i] - half) <= 1e-12 * max(1.0, half):
        j = i + 1
        while j < len(x) and ww[j] == 0:
            j += 1
        if j < len(x):
            out += [float(x[j]), float((x[i] + x[j]) / 2.0), float((x[i] + x[i + 1]) / 2.0)]
    return out


contract("cnvlib/descriptives.py::weighted_mad", params=dict(a=VecT(Real), w=VecT(Real)), bounded=True,
         gen=_gen_aw, call=_call_aw, props=("C19",),
         checks=_scale_checks("weighted_mad", None, True, True) + [("definition", _wmad_def)])
contract("cnvlib/descriptives.py::weighted_std", params=dict(a=VecT(Real), w=VecT(Real)), bounded=True,
         gen=_gen_aw, call=_call_aw, props=("C19",),
         checks=_scale_checks("weighted_std", None, True, True) + [("formula", _wformula(_ref_wstd))])


# ----------------------------------------------------------------------------- smoothers
def _gen_smooth(rng, tier, i):
    """signal of length 2..400 (constant, step, noise, ramp) x window width (fraction in (0,1) or integer >= 2,
    also wider than the signal) x optional positive weights"""
    import numpy as np
    n = rng.choice([2, 3, 4, 5, 8, 20, 60 if tier == "quick" else 400])
    kind = rng.choice(["const", "noise", "step", "ramp"])
    if kind == "const":
        x = np.full(n, rng.choice([0.0, 1.5, -2.0]))
    elif kind == "noise":
        x = np.array([rng.gauss(0, 1) for _ in range(n)])
    elif kind == "step":
        x = np.array([0.0] * (n // 2) + [1.0] * (n - n // 2))
    else:
        x = np.linspace(-1, 1, n)
    width = rng.choice([0.1, 0.3, 0.5, 0.99, 2, 3, 5, 7, 10, n, n + 5, 2 * n])
    w = None
    if rng.random() < 0.4:
        w = np.array([rng.uniform(0.1, 1.0) for _ in range(n)])
    return dict(x=x, width=width, weights=w)


def _smooth_checks(in_range, const_exact=True):
    def shape(args, y, old):
        import numpy as np
        y = np.asarray(y, dtype=float)
        if len(y) != len(old["x"]):
            return "%d output values for %d input values" % (len(y), len(old["x"]))
        if not np.all(np.isfinite(y)):
            return "non-finite output %r" % (y.tolist()[:10],)

    def const(args, y, old):
        import numpy as np
        x = old["x"]
        if np.all(x == x[0]):
            y = np.asarray(y, dtype=float)
            if not np.abs(y - x[0]).max() <= 1e-9 * max(1.0, abs(x[0])):
                return "constant signal %r not reproduced: %r" % (x[0], y.tolist()[:6])

    def rng_(args, y, old):
        import numpy as np
        x = old["x"]
        y = np.asarray(y, dtype=float)
        tol = 1e-9 * max(1.0, float(np.abs(x).max()))
        if y.min() < x.min() - tol or y.max() > x.max() + tol:
            return "output range [%r, %r] leaves input range [%r, %r]" % (y.min(), y.max(), x.min(), x.max())
    out = [("one_finite_value_per_input", shape), ("constant_reproduced", const)]
    if in_range:
        out.append(("within_input_range", rng_))
    return out


contract("cnvlib/smoothing.py::rolling_median", params=dict(x=VecT(Real), width=Real), bounded=True, gen=_gen_smooth,
         call=lambda fn, a: fn(a["x"].copy(), a["width"]), props=("C19", "C04"), checks=_smooth_checks(True))
contract("cnvlib/smoothing.py::kaiser", params=dict(x=VecT(Real), width=Real), bounded=True, gen=_gen_smooth,
         call=lambda fn, a: fn(a["x"].copy(), a["width"]), props=("C19",), checks=_smooth_checks(True),
         notes="unweighted Kaiser (the statement's claim); weights are not passed")
contract("cnvlib/smoothing.py::savgol", params=dict(x=VecT(Real), width=Real, weights=Opt(VecT(Real))), bounded=True,
         gen=_gen_smooth,
         call=lambda fn, a: fn(a["x"].copy(), a["width"], None if a["weights"] is None else a["weights"].copy()),
         props=("C19",), checks=_smooth_checks(False))


def _pad_check(args, y, old):
    import numpy as np
    x, wing = old["x"], old["wing"]
    y = np.asarray(y)
    n = len(x)
    if len(y) != n + 2 * wing:
        return "padded length %d != %d + 2*%d" % (len(y), n, wing)
    exp = np.concatenate((x[:wing][::-1], x, x[n - wing:][::-1]))
    if not np.array_equal(exp, y):
        return "not the mirror padding: %r vs %r" % (y.tolist(), exp.tolist())


def _gen_pad(rng, tier, i):
    """every signal length 2..12 x every wing 1..len-1 (exhaustive), values = positions"""
    import numpy as np
    cases = [(n, w) for n in range(2, 13) for w in range(1, n)]
    if i >= len(cases):
        return None
    n, w = cases[i]
    return dict(x=np.arange(n, dtype=float), wing=w)


contract("cnvlib/smoothing.py::_pad_array", params=dict(x=VecT(Real), wing=Int), bounded=True, gen=_gen_pad,
         props=("C19",), checks=[("mirror_padding", _pad_check)])


# ----------------------------------------------------------------------------- deductive: bodies of two decorated estimators
contract(
    "cnvlib/descriptives.py::median_absolute_deviation",
    params=dict(a=VecT(Real), scale_to_sd=Bool),
    returns=Real,
    requires=["len(a) >= 2"],
    ghost=dict(decorated="on_array(0) is the identity on a NaN-free array of at least two values (it returns 0 for one value)"),
    ensures=[
        ("non_negative", "result >= 0"),
        ("zero_on_constant_data", "implies(forall(0, len(a), lambda k: a[k] == a[0]), result == 0)"),
    ],
    props=("C19",), domain="skip",
    canaries=[("signed_deviations", "np.median(np.abs(a - a_median))", "np.median(a - a_median)")],
    notes="the body under the on_array decorator (which hands it a NaN-free array of at least two values; the decorator "
          "itself is exercised by the bounded twin); np.median is abstract: some element lies at or below it and some at "
          "or above it",
)

contract(
    "cnvlib/descriptives.py::mean_squared_error",
    params=dict(a=VecT(Real), initial=Lit(None)),
    returns=Real,
    requires=["len(a) >= 2"],
    ghost=dict(decorated="on_array(0) is the identity on a NaN-free array of at least two values (it returns 0 for one value)"),
    ensures=[
        # from zero by default (the deviations are handed in): the mean of the squares, not their variance
        ("mean_of_squares", "result == sumof(Vec(len(a), lambda k: a[k] ** 2)) / len(a)"),
    ],
    props=("C17", "C19"), domain="skip",
    canaries=[("mean_subtracted_first", "return (a**2).mean()", "return ((a - a.mean())**2).mean()")],
    notes="the body under the on_array decorator; products are uninterpreted (congruence)",
)

contract(
    "cnvlib/descriptives.py::weighted_mad#body",
    params=dict(a=VecT(Real), weights=VecT(Real), scale_to_sd=Bool),
    returns=Real,
    requires=["len(a) == len(weights)", "len(a) >= 2"],
    ensures=[
        ("non_negative", "result >= 0"),
        ("zero_on_constant_data", "implies(forall(0, len(a), lambda k: a[k] == a[0]), result == 0)"),
    ],
    props=("C19",), domain="skip",
    canaries=[("signed_deviations", "weighted_median(np.abs(a - a_median), weights)", "weighted_median(a - a_median, weights)")],
    notes="the body under on_weighted_array(0) (which hands it two NaN-free float arrays of equal length >= 2); rests on the "
          "assumed contract of the decorated weighted_median (a value within the range of its data), whose body is proved "
          "separately (weighted_median#body)",
)

contract(
    "cnvlib/descriptives.py::weighted_std#body",
    params=dict(a=VecT(Real), weights=VecT(Real)),
    returns=Real,
    requires=["len(a) == len(weights)", "len(a) >= 2", "forall(0, len(weights), lambda k: weights[k] >= 0)", "sumof(weights) > 0"],
    ensures=[("non_negative", "result >= 0")],
    props=("C19",), domain="skip",
    canaries=[("negated", "return np.sqrt(var)", "return -np.sqrt(var) - 1")],
    notes="the body under on_weighted_array(0); sqrt is abstract (non-negative on non-negative arguments)",
)

"""Contracts for cnvlib/export.py and skgenome/tabio/seg.py writers  (C20)."""
from .dsl import *     # noqa
from . import vocab    # noqa

_CHR = {"chr": ["chr1", "chr2", "chr7", "chrX", "chrY"], "plain": ["1", "2", "7", "X", "Y"]}


def _segments(rng, tier, with_cn=None, build=None):
    """segment tables with or without a cn column, both naming styles, segments starting at 0, PAR rows when a
    PAR genome is given"""
    import pandas as pd
    from cnvlib.cnary import CopyNumArray
    from contracts import vocab as V
    style = rng.choice(["chr", "plain"])
    names = _CHR[style]
    chroms = sorted(rng.sample(range(len(names)), rng.randint(1, len(names))))
    rows = []
    for ci in chroms:
        c = names[ci]
        pos = rng.choice([0, 0, 1, 500])
        for _ in range(rng.randint(1, 4 if tier == "quick" else 12)):
            L = rng.choice([1, 10, 1000, 250000])
            if build and c in (names[3], names[4]) and rng.random() < 0.5:
                key = ("PAR1" if rng.random() < 0.5 else "PAR2") + ("X" if c == names[3] else "Y")
                lo, hi = V.PAR[build][key]
                s = lo + rng.randint(0, 1000)
                if s < pos:
                    continue
                pos, L = s, min(L, hi - s)
            rows.append(dict(chromosome=c, start=pos, end=pos + L, gene=rng.choice(["A", "B,C", "-"]),
                             log2=rng.choice([-8.0, -1.0, -0.58, -0.4, 0.0, 0.03, 0.32, 0.58, 1.0, 2.3]),
                             probes=rng.randint(1, 500), weight=rng.uniform(0.1, 30)))
            pos += L + rng.choice([0, 0, 100])
    if not rows:
        rows.append(dict(chromosome=names[0], start=0, end=10, gene="A", log2=0.0, probes=3, weight=1.0))
    if with_cn is None:
        with_cn = rng.random() < 0.6
    if with_cn:
        for r in rows:
            r["cn"] = rng.choice([0, 1, 2, 2, 2, 3, 4, 6])
    return CopyNumArray(pd.DataFrame(rows), {"sample_id": "S1"})


def _expected(seg, ploidy, female, build):
    from contracts import vocab as V
    first = seg.chromosome.iat[0]
    xl, yl = V.xlabel_of(first), V.ylabel_of(first)
    return [V.Xcopies(V.cls_of(r.chromosome, r.start, r.end, xl, yl, V.par_of(build)), ploidy, female)
            for r in seg.data.itertuples(index=False)]


def _ncopies(seg, ploidy, male_ref):
    from contracts import vocab as V
    if "cn" in seg.data.columns:
        return [int(x) for x in seg.data["cn"]]
    return [int(round(V.Rpure(r.chromosome, ploidy, male_ref) * 2.0 ** r.log2)) for r in seg.data.itertuples(index=False)]


def _gen_bed(rng, tier, i):
    """segment tables (with/without cn; both naming styles; PAR rows) x ploidy 1..6 x sample sex x reference sex x
    PAR genome x label x show in {all, ploidy, variant}"""
    if i >= (1500 if tier == "quick" else 30000):
        return None
    build = rng.choice([None, None, "grch37", "grch38"])
    return dict(segments=_segments(rng, tier, build=build), ploidy=rng.randint(1, 6), male_ref=rng.random() < 0.5,
                build=build, female=rng.random() < 0.5, label=rng.choice([None, "lab"]), show=rng.choice(["all", "ploidy", "variant"]))


def _chk_bed(args, res, old):
    seg = old["segments"]
    nc = _ncopies(seg, old["ploidy"], old["male_ref"])
    exp = _expected(seg, old["ploidy"], old["female"], old["build"])
    want = []
    for k, r in enumerate(seg.data.itertuples(index=False)):
        keep = old["show"] == "all" or (old["show"] == "ploidy" and nc[k] != old["ploidy"]) or \
            (old["show"] == "variant" and nc[k] != exp[k])
        if keep:
            want.append((r.chromosome, r.start, r.end, old["label"] or r.gene, nc[k]))
    got = [tuple(r) for r in res.itertuples(index=False)]
    if got != want:
        return "export_bed(show=%s, ploidy=%d, female=%s, build=%s): got %r, expected %r" % (
            old["show"], old["ploidy"], old["female"], old["build"], got[:6], want[:6])


contract("cnvlib/export.py::export_bed#rt", params=dict(segments=ObjT("CopyNumArray")), bounded=True, gen=_gen_bed,
         call=lambda fn, a: fn(a["segments"], a["ploidy"], a["male_ref"], a["build"], a["female"], a["label"], a["show"]),
         props=("C20",), checks=[("rows_selected_and_copied", _chk_bed)])


def _gen_vcf(rng, tier, i):
    """as export_bed; records are compared field by field"""
    if i >= (1500 if tier == "quick" else 30000):
        return None
    build = rng.choice([None, None, "grch37", "grch38"])
    return dict(segments=_segments(rng, tier, build=build), ploidy=rng.randint(1, 6), male_ref=rng.random() < 0.5,
                build=build, female=rng.random() < 0.5)


def _info(rec):
    d = {}
    for f in rec[7].split(";"):
        if "=" in f:
            k, v = f.split("=", 1)
            d[k] = v
    return d


def _chk_vcf(args, res, old):
    seg = old["segments"]
    nc = _ncopies(seg, old["ploidy"], old["male_ref"])
    if "cn" not in seg.data.columns:
        # without a cn column the VCF path uses the PAR-aware reference copies (absolute_dataframe with purity 1)
        from contracts import vocab as V
        first = seg.chromosome.iat[0]
        xl, yl = V.xlabel_of(first), V.ylabel_of(first)
        nc = [int(round(V.Rcopies(V.cls_of(r.chromosome, r.start, r.end, xl, yl, V.par_of(old["build"])), old["ploidy"],
                                  old["male_ref"]) * 2.0 ** r.log2)) for r in seg.data.itertuples(index=False)]
    exp = _expected(seg, old["ploidy"], old["female"], old["build"])
    want = [(k, r) for k, r in enumerate(seg.data.itertuples(index=False)) if nc[k] != exp[k]]
    recs = list(res)
    if len(recs) != len(want):
        return "%d VCF records for %d segments whose copy number differs from the expected one (ncopies %r, expected %r)" % (
            len(recs), len(want), nc, exp)
    for rec, (k, r) in zip(recs, want):
        info = _info(rec)
        loss = nc[k] < exp[k]
        kind = "DEL" if loss else "DUP"
        problems = []
        if rec[0] != r.chromosome:
            problems.append("CHROM %r" % rec[0])
        if int(rec[1]) != (r.start if r.start != 0 else 1):
            problems.append("POS %r for start %d" % (rec[1], r.start))
        if rec[4] != "<%s>" % kind or info.get("SVTYPE") != kind:
            problems.append("ALT/SVTYPE %r/%r, expected %s" % (rec[4], info.get("SVTYPE"), kind))
        if int(info.get("END", -1)) != r.end:
            problems.append("END %r != %d" % (info.get("END"), r.end))
        if int(info.get("SVLEN", 0)) != (r.end - r.start) * (-1 if loss else 1):
            problems.append("SVLEN %r, expected %d" % (info.get("SVLEN"), (r.end - r.start) * (-1 if loss else 1)))
        if not loss:
            f = rec[9].split(":")
            if rec[8] != "GT:GQ:CN:CNQ" or len(f) < 3 or int(f[2]) != nc[k]:
                problems.append("sample field %r does not carry copy number %d" % (rec[9], nc[k]))
        if problems:
            return "segment %r (ncopies %d, expected %d): %s" % (tuple(r)[:3], nc[k], exp[k], "; ".join(problems))


contract("cnvlib/export.py::segments2vcf#rt", params=dict(segments=ObjT("CopyNumArray")), bounded=True, gen=_gen_vcf,
         call=lambda fn, a: list(fn(a["segments"], a["ploidy"], a["male_ref"], a["build"], a["female"])),
         props=("C20",), checks=[("one_record_per_variant_segment", _chk_vcf)])


# ----------------------------------------------------------------------------- SEG
def _gen_seg(rng, tier, i):
    """1..5 samples of segment tables, chromosome renumbering on/off"""
    if i >= (400 if tier == "quick" else 5000):
        return None
    n = rng.randint(1, 5)
    segs = [_segments(rng, tier, with_cn=False) for _ in range(n)]
    return dict(dframes=[s.data for s in segs], ids=["S%d" % k for k in range(n)], chrom_ids=rng.choice([False, None]))


def _chk_seg(args, res, old):
    rows = [tuple(r) for r in res.itertuples(index=False)]
    cols = list(res.columns)
    if cols != ["ID", "chrom", "loc.start", "loc.end", "num.mark", "seg.mean"]:
        return "SEG columns %r" % (cols,)
    want = []
    first = old["dframes"][0]
    mapping = {}
    if old["chrom_ids"] is None:
        seen = []
        for c in first.chromosome:
            if c not in seen:
                seen.append(c)
        mapping = {c: k + 1 for k, c in enumerate(seen) if str(k + 1) != c}
    for df, sid in zip(old["dframes"], old["ids"]):
        for r in df.itertuples(index=False):
            want.append((sid, mapping.get(r.chromosome, r.chromosome), r.start + 1, r.end, r.probes, r.log2))
    if rows != want:
        bad = [(g, w) for g, w in zip(rows, want) if g != w][:3]
        return "SEG rows differ: %r (n=%d vs %d)" % (bad, len(rows), len(want))


contract("skgenome/tabio/seg.py::write_seg", params=dict(dframes=SeqT(TabT())), bounded=True, gen=_gen_seg,
         call=lambda fn, a: fn(a["dframes"], a["ids"], a["chrom_ids"]), props=("C20", "C08"),
         checks=[("one_based_rows_under_sample_id", _chk_seg)])


def _gen_seg_files(rng, tier, i):
    """1..4 .cns files (sample id = file name), sometimes two files of the same name in different directories"""
    if i >= (60 if tier == "quick" else 600):
        return None
    import os
    import tempfile
    from skgenome import tabio
    d = tempfile.mkdtemp(prefix="verif_c20s_")
    n = rng.randint(1, 4)
    names = rng.sample(["tumor", "normal", "s10", "s2"], n)
    if n > 1 and rng.random() < 0.4:
        names[rng.randrange(1, n)] = names[0]           # run1/tumor.cns and run2/tumor.cns
    files, tables = [], []
    for k, nm in enumerate(names):
        seg = _segments(rng, tier, with_cn=False)
        sub = os.path.join(d, "run%d" % k)
        os.makedirs(sub)
        fn = os.path.join(sub, nm + ".cns")
        tabio.write(seg, fn)
        files.append(fn)
        tables.append(seg.data)
    return dict(files=files, names=names, tables=tables, tmp=d)


def _call_seg_files(fn, a):
    import shutil
    from cnvlib import export
    try:
        return export.export_seg(a["files"], chrom_ids=False)
    finally:
        shutil.rmtree(a["tmp"], ignore_errors=True)


def _chk_seg_files(args, res, old):
    want = []
    for nm, df in zip(old["names"], old["tables"]):
        for r in df.itertuples(index=False):
            want.append((nm, r.chromosome, r.start + 1, r.end, r.probes))
    got = [(r[0], r[1], r[2], r[3], r[4]) for r in res.itertuples(index=False)]
    if got != want:
        return "export seg of files %r: %d rows %r..., expected %d rows %r..." % (
            old["names"], len(got), got[:3], len(want), want[:3])
    for g, (nm, df) in zip([], []):
        pass
    logs = [float(r.log2) for df in old["tables"] for r in df.itertuples(index=False)]
    if any(not abs(float(a) - b) <= 1e-6 * max(1.0, abs(b)) for a, b in zip(res.iloc[:, 5], logs)):
        return "export seg: seg.mean differs from the segments' log2"


contract("cnvlib/export.py::export_seg", params=dict(files=ListT(Str)), bounded=True, gen=_gen_seg_files, call=_call_seg_files,
         props=("C20",), modifies=("tmp", "files"), checks=[("every_files_segments_under_its_sample_id", _chk_seg_files)])


# ----------------------------------------------------------------------------- multi-sample tables (files)
def _gen_multi(rng, tier, i):
    """1..5 .cnr files over the same bins; sometimes one file has mismatching bins or a duplicate sample ID"""
    if i >= (150 if tier == "quick" else 2000):
        return None
    import os
    import tempfile
    import pandas as pd
    from cnvlib.cnary import CopyNumArray
    from skgenome import tabio
    d = tempfile.mkdtemp(prefix="verif_c20_")
    n = rng.randint(1, 5)
    nb = rng.randint(1, 6)
    bins = []
    pos = 0
    for _ in range(nb):
        bins.append(("chr1", pos, pos + 100, rng.choice(["A", "B", "-"])))
        pos += 100 + rng.choice([0, 50])
    fault = rng.choice([None, None, "mismatch", "dup"]) if n > 1 else None
    ids = rng.sample(["tumor", "a_ctrl", "s10", "s2", "Zeta", "b", "s1"], n)     # given order is not alphabetical
    if fault == "dup":
        j = rng.randrange(1, n)
        ids[j] = ids[rng.randrange(0, j)]
    files, logs = [], []
    bad = rng.randrange(1, n) if fault == "mismatch" else None
    for k in range(n):
        b = list(bins)
        if k == bad:
            kind = rng.choice(["coord", "gene", "len", "chrom"])
            if kind == "coord":
                b[0] = (b[0][0], b[0][1], b[0][2] + 1, b[0][3])
            elif kind == "gene":
                b[-1] = b[-1][:3] + ("ZZZ",)
            elif kind == "chrom":
                b = [("chr2",) + x[1:] for x in b]
            else:
                b = b + [("chr1", pos + 1000, pos + 1100, "A")]
        lg = [round(rng.gauss(0, 1), 4) for _ in b]
        df = pd.DataFrame(dict(chromosome=[x[0] for x in b], start=[x[1] for x in b], end=[x[2] for x in b],
                               gene=[x[3] for x in b], log2=lg))
        sub = os.path.join(d, "d%d" % k)
        os.makedirs(sub)
        fn = os.path.join(sub, ids[k] + ".cnr")
        tabio.write(CopyNumArray(df, {"sample_id": ids[k]}), fn)
        files.append(fn)
        logs.append(lg)
    return dict(files=files, ids=ids, bins=bins, logs=logs, fault=fault, tmp=d)


def _call_multi(fn, a):
    import shutil
    from cnvlib import export
    try:
        try:
            table = export.merge_samples(a["files"])
        except ValueError as exc:
            return dict(error=str(exc))
        sids = list(a["ids"])
        hdr_c, rows_c = export.fmt_cdt(sids, table)
        hdr_j, rows_j = export.fmt_jtv(sids, table)
        return dict(table=table, cdt=(hdr_c, [tuple(r) for r in rows_c]), jtv=(hdr_j, [tuple(r) for r in rows_j]))
    finally:
        shutil.rmtree(a["tmp"], ignore_errors=True)


def _chk_multi(args, res, old):
    if old["fault"]:
        if "error" not in res:
            return "inputs with %s were not refused" % ("mismatching bins" if old["fault"] == "mismatch" else "a duplicate sample ID")
        return None
    if "error" in res:
        return "matching inputs refused: %s" % res["error"]
    labels = ["%s:%d-%d:%s" % b for b in old["bins"]]
    hdr, rows = res["jtv"]
    if hdr != ["CloneID", "Name"] + old["ids"]:
        return "jtv header %r" % (hdr,)
    if len(rows) != len(labels):
        return "jtv has %d rows for %d bins" % (len(rows), len(labels))
    for k, r in enumerate(rows):
        if r[1] != labels[k] or len(r) != 2 + len(old["ids"]) or \
                any(not abs(float(r[2 + s]) - old["logs"][s][k]) <= 1e-4 for s in range(len(old["ids"]))):
            return "jtv row %d = %r, expected label %s and values %r" % (k, r, labels[k], [l[k] for l in old["logs"]])
    hdr, rows = res["cdt"]
    if hdr != ["GID", "CLID", "NAME", "GWEIGHT"] + old["ids"]:
        return "cdt header %r" % (hdr,)
    body = rows[2:]
    if len(body) != len(labels):
        return "cdt has %d bin rows for %d bins" % (len(body), len(labels))
    for k, r in enumerate(body):
        if r[2] != labels[k] or len(r) != 4 + len(old["ids"]) or \
                any(not abs(float(r[4 + s]) - old["logs"][s][k]) <= 1e-4 for s in range(len(old["ids"]))):
            return "cdt row %d = %r, expected label %s and values %r" % (k, r, labels[k], [l[k] for l in old["logs"]])


contract("prop::C20.merge_samples_cdt_jtv", params=dict(files=ListT(Str)), bounded=True, gen=_gen_multi,
         call=_call_multi, props=("C20",), modifies=("tmp", "files"), checks=[("one_row_per_bin_one_column_per_sample", _chk_multi)])


def _gen_nexus(rng, tier, i):
    """bin tables"""
    if i >= (200 if tier == "quick" else 2000):
        return None
    return dict(cnarr=_segments(rng, tier, with_cn=False))


def _chk_nexus(args, res, old):
    c = old["cnarr"]
    if len(res) != len(c):
        return "%d rows for %d bins" % (len(res), len(c))
    for o, r in zip(res.itertuples(index=False), c.data.itertuples(index=False)):
        if (o.chromosome, o.start, o.end, o.gene, o.log2) != (r.chromosome, r.start, r.end, r.gene, r.log2) or \
                o.probe != "%s:%d-%d" % (r.chromosome, r.start + 1, r.end):
            return "nexus row %r for bin %r" % (tuple(o), tuple(r)[:5])


contract("cnvlib/export.py::export_nexus_basic#rt", params=dict(cnarr=ObjT("CopyNumArray")), bounded=True, gen=_gen_nexus,
         props=("C20",), checks=[("one_row_per_bin_with_label", _chk_nexus)])


# ----------------------------------------------------------------------------- deductive: export_bed
from .c_call import CNA_COLS, CHROM, GENE, BUILD, _RP_K, _X_K     # noqa: E402

_SEG = ObjT("CopyNumArray", data=TabT(opt=("cn",), index="range", chromosome=CHROM, start=Int, end=Int, gene=GENE, log2=Real,
                                      cn=Int), meta=DictT())
_XS_K = _X_K.replace("cnarr", "segments")
_NCOP = "ite('cn' in segments.data, segments.data.cn[k], rnd(%s * exp2(segments.data.log2[k])))" % _RP_K.replace("cnarr", "segments")
_SHOWN = "ite(show == 'all', True, ite(show == 'ploidy', (NC) != ploidy, (NC) != XS))".replace("NC", _NCOP).replace("XS", _XS_K)

contract(
    "cnvlib/export.py::export_bed",
    params=dict(segments=_SEG, ploidy=Int, is_haploid_x_reference=Bool, diploid_parx_genome=BUILD, is_sample_female=Bool,
                label=Lit(None), show=Lit("all", "ploidy", "variant")),
    returns=TabT(index="masked", chromosome=CHROM, start=Int, end=Int, label=GENE, ncopies=Int),
    requires=["ploidy >= 1"],
    ensures=[
        # result.index holds the positions of the selected segments (labels of the masked frame)
        ("rows_are_selected_segments", ("forall(0, len(result), lambda j: let(lambda k: "
         "0 <= k and k < len(segments.data) and (SHOWN) and "
         "result.chromosome[j] == segments.data.chromosome[k] and result.start[j] == segments.data.start[k] and "
         "result.end[j] == segments.data.end[k] and result.label[j] == segments.data.gene[k] and result.ncopies[j] == (NC), "
         "result.index[j]))").replace("SHOWN", _SHOWN).replace("NC", _NCOP)),
        ("in_order", "forall(0, len(result), lambda a: forall(0, len(result), lambda b: "
                     "implies(a < b, result.index[a] < result.index[b])))"),
        ("every_selected_segment_listed", ("forall(0, len(segments.data), lambda k: implies(SHOWN, "
         "exists(0, len(result), lambda j: result.index[j] == k)))").replace("SHOWN", _SHOWN)),
    ],
    ghost=dict(frame_exempt_keys=("chr_x", "chr_y")),
    props=("C20",),
    domain="skip",
    canaries=[("ploidy_ne_to_gt", 'out["ncopies"] != ploidy', 'out["ncopies"] > ploidy'),
              ("variant_uses_ploidy", 'out = out[out["ncopies"] != exp_copies]', 'out = out[out["ncopies"] != ploidy]'),
              ("round_to_trunc", ".round()", "")],
)


# ----------------------------------------------------------------------------- deductive: export vcf records
# The generator's output is described through the ghost sequence src_: src_[j][0] is the index of the for-loop
# iteration (= segment row) in which the j-th record was yielded.
_SEGV = ObjT("CopyNumArray", data=TabT(index="range", chromosome=CHROM, start=Int, end=Int, gene=GENE, log2=Real,
                                       probes=Int, cn=Int), meta=DictT())
_XV = _X_K.replace("cnarr", "segments")
_VAR = "(segments.data.cn[k] != XV and segments.data.probes[k] >= 0)".replace("XV", _XV)
_F_SITE = ("(out_[j][0] == segments.data.chromosome[k] and "
           "out_[j][1] == ite(segments.data.start[k] == 0, 1, segments.data.start[k]) and "
           "out_[j][4] == ite(segments.data.cn[k] < XV, '<DEL>', '<DUP>'))").replace("XV", _XV)
_F_INFO = ("(out_[j][7] == 'IMPRECISE;SVTYPE=' + ite(segments.data.cn[k] < XV, 'DEL', 'DUP') + ';END=' + str(segments.data.end[k]) + "
           "';SVLEN=' + str(ite(segments.data.cn[k] < XV, -(segments.data.end[k] - segments.data.start[k]), "
           "segments.data.end[k] - segments.data.start[k])) + ';FOLD_CHANGE=' + fstr(exp2(segments.data.log2[k])) + "
           "';FOLD_CHANGE_LOG=' + fstr(segments.data.log2[k]) + ';PROBES=' + str(segments.data.probes[k]))").replace("XV", _XV)
_F_GT = ("(out_[j][9] == ite(segments.data.cn[k] > XV, '0/1:0:' + str(segments.data.cn[k]) + ':' + str(segments.data.probes[k]), "
         "ite(segments.data.cn[k] == 0, '1/1', '0/1') + ':' + str(segments.data.probes[k])))").replace("XV", _XV)


def _per_record(body, seq="out_", hi="i_"):
    return ("forall(0, len(SEQ), lambda j: let(lambda k: BODY, src_[j][0]))"
            .replace("BODY", body).replace("out_", seq).replace("SEQ", seq))


contract(
    "cnvlib/export.py::segments2vcf",
    params=dict(segments=_SEGV, ploidy=Int, is_haploid_x_reference=Bool, diploid_parx_genome=BUILD, is_sample_female=Bool),
    yields=TupT(CHROM, Int, Str, Str, Str, Str, Str, Str, Str, Str),
    requires=["ploidy >= 1"],
    loops={0: dict(inv=[
        ("records_come_from_variants", _per_record("0 <= k and k < i_ and " + _VAR)),
        ("site_fields", _per_record(_F_SITE)),
        ("info_field", _per_record(_F_INFO)),
        ("sample_field", _per_record(_F_GT)),
        ("in_order", "forall(0, len(out_), lambda a: forall(0, len(out_), lambda b: implies(a < b, src_[a][0] < src_[b][0])))"),
        ("every_variant_listed", "forall(0, i_, lambda k: implies(VAR, exists(0, len(out_), lambda j: src_[j][0] == k)))"
                                 .replace("VAR", _VAR)),
    ])},
    ensures=[
        # one record per segment whose copy number differs from the expected one (and no others), in segment order
        ("records_come_from_variants", _per_record("0 <= k and k < len(segments.data) and " + _VAR, "result")),
        # CHROM, POS = start (1 where start is 0), ALT = <DEL> below / <DUP> above the expected copy number
        ("site_fields", _per_record(_F_SITE, "result")),
        # END = end, SVTYPE, SVLEN = +-(end - start) with the matching sign
        ("info_field", _per_record(_F_INFO, "result")),
        # the sample field carries the copy number for gains
        ("sample_field", _per_record(_F_GT, "result")),
        ("in_order", "forall(0, len(result), lambda a: forall(0, len(result), lambda b: implies(a < b, src_[a][0] < src_[b][0])))"),
        ("every_variant_listed", "forall(0, len(segments.data), lambda k: implies(VAR, exists(0, len(result), lambda j: src_[j][0] == k)))"
                                 .replace("VAR", _VAR)),
    ],
    ghost=dict(frame_exempt_keys=("chr_x", "chr_y"), abstract_strings=True),
    props=("C20",), domain="skip",
    canaries=[("pos_no_shift", "segments.start.replace(0, 1)", "segments.start"),
              ("loss_sign", "svlen[idx_losses] *= -1", "svlen[~idx_losses] *= -1"),
              ("del_dup_swapped", 'out_dframe.loc[idx_losses, "svtype"] = "DEL"', 'out_dframe.loc[~idx_losses, "svtype"] = "DEL"'),
              ("skip_gains", "out_row.ncopies == abs_exp", "out_row.ncopies >= abs_exp"),
              ("end_is_start", 'f"END={out_row.end}"', 'f"END={out_row.start}"'),
              ("cn_dropped_from_gain", 'f"0/1:0:{out_row.ncopies}:{out_row.probes}"', 'f"0/1:0:{out_row.probes}"')],
    notes="text is abstract here: concatenation and int/float-to-text are uninterpreted functions (equal parts in equal "
          "order give equal text), so the clauses compare the emitted fields with the spec's own concatenation of the same parts",
)


# ----------------------------------------------------------------------------- deductive: the Nexus basic table
contract(
    "cnvlib/export.py::export_nexus_basic",
    params=dict(cnarr=ObjT("CopyNumArray", data=TabT(index="any", chromosome=Str, start=Int, end=Int, gene=Str, log2=Real, weight=Real), meta=DictT())),
    returns=TabT(index="any", chromosome=Str, start=Int, end=Int, gene=Str, log2=Real, probe=Str),
    requires=[],
    ensures=[
        ("one_row_per_bin", "len(result) == len(cnarr.data)"),
        ("columns", "'weight' not in result and 'probe' in result"),
        ("rows_kept_with_one_based_labels", "forall(0, len(result), lambda k: result.chromosome[k] == cnarr.data.chromosome[k] and "
                                            "result.start[k] == cnarr.data.start[k] and result.end[k] == cnarr.data.end[k] and "
                                            "result.gene[k] == cnarr.data.gene[k] and result.log2[k] == cnarr.data.log2[k] and "
                                            "result.probe[k] == cnarr.data.chromosome[k] + ':' + str(cnarr.data.start[k] + 1) + '-' + str(cnarr.data.end[k]))"),
    ],
    props=("C20",), domain="skip",
    canaries=[("gene_as_probe", 'out_table["probe"] = cnarr.labels()', 'out_table["probe"] = cnarr.data["gene"]'),
              ("weight_kept", 'columns=["chromosome", "start", "end", "gene", "log2"]', 'columns=["chromosome", "start", "end", "gene", "log2", "weight"]')],
    notes="GenomicArray.labels (row-wise to_label) is executed in place against to_label's contract",
)

"""Contracts for cnvlib/fix.py  (C04)."""
import math

from .dsl import *     # noqa
from . import vocab    # noqa


def _fix_case(rng, tier, pooled=None):
    """references (pooled or flat, with/without gc and rmask columns, bad bins anywhere) and target/antitarget
    coverage tables over the same or a subset of bins, empty antitargets, every subset of {gc, edge, rmask}"""
    import numpy as np
    import pandas as pd
    from cnvlib.cnary import CopyNumArray
    # also tiny tables: one or two usable bins per class (a single bin cannot be smoothed; fix c5b4d41)
    n_t = rng.choice([2, 4, 30, 60, 150]) if tier == "quick" else rng.choice([2, 4, 30, 60, 150, 600])
    rows = []
    for c in ["chr1", "chr2", "chrX"][:rng.randint(1, 3)]:
        pos = 1000
        for k in range(n_t // 2):
            L = rng.choice([80, 120, 200, 333, 500, 500, 2])      # an occasional tiny bin: its size-based weight is ~0
            rows.append(dict(chromosome=c, start=pos, end=pos + L, gene="G%d" % (k // 4), kind="t"))
            if L >= 200 and rng.random() < 0.08:
                # a nested bin sharing its start with the previous one (genomic order then depends on the end)
                rows.insert(len(rows) - rng.choice([0, 1]),
                            dict(chromosome=c, start=pos, end=pos + L // 2, gene="G%d" % (k // 4), kind="t"))
            pos += L + rng.choice([0, 20, 100, 400, 5000])
            if rng.random() < 0.4:
                A = rng.choice([5000, 20000])
                rows.append(dict(chromosome=c, start=pos, end=pos + A, gene="Antitarget", kind="a"))
                pos += A + rng.choice([0, 500])
    ref = pd.DataFrame(rows)
    n = len(ref)
    if pooled is None:
        pooled = rng.random() < 0.6
    gcs = np.linspace(0.32, 0.68, n)
    rms = np.linspace(0.0, 0.6, n)
    perm = list(range(n))
    rng.shuffle(perm)
    ref["gc"] = gcs[perm]              # distinct covariate values: the bias ordering is unique
    rng.shuffle(perm)
    ref["rmask"] = rms[perm]
    if pooled:
        ref["log2"] = [rng.gauss(0, 0.4) + (2.0 if k == "a" else 0.0) * 0 for k in ref["kind"]]
        ref["spread"] = [abs(rng.gauss(0.15, 0.1)) + 0.011 for _ in range(n)]
        ref["depth"] = [rng.uniform(5, 300) for _ in range(n)]
    else:
        ref["log2"] = 0.0
        ref["spread"] = 0.0
        ref["depth"] = 1.0
    # bad reference bins anywhere
    for k in range(n):
        u = rng.random()
        if u < 0.03:
            ref.loc[k, "log2"] = rng.choice([-5.5, 5.5, -20.0])
        elif u < 0.06:
            ref.loc[k, "spread"] = rng.choice([1.01, 3.0])
        elif u < 0.08:
            ref.loc[k, "depth"] = 0.0
        elif u < 0.11:
            ref.loc[k, "gc"] = rng.choice([0.1, 0.29, 0.71, 0.9])
        elif u < 0.16 and pooled:
            ref.loc[k, "spread"] = 1.0          # exactly on the threshold: the bin is kept, its spread-based weight is 0
    has_gc = rng.random() < 0.85
    has_rm = rng.random() < 0.85
    cols = ["chromosome", "start", "end", "gene", "log2", "depth", "spread"] + (["gc"] if has_gc else []) + (["rmask"] if has_rm else [])
    reference = CopyNumArray(ref[cols].copy(), {"sample_id": "ref"})
    subset = rng.random() < 0.4
    keep = [rng.random() > 0.2 if subset else True for _ in range(n)]

    def sample(kind):
        sub = ref[(ref.kind == kind) & pd.Series(keep)]
        lg = [rng.gauss(0, 0.3) + (-0.9 if 0.3 < i / max(1, len(sub)) < 0.5 else 0.0) for i in range(len(sub))]
        df = pd.DataFrame(dict(chromosome=sub.chromosome.values, start=sub.start.values, end=sub.end.values, gene=sub.gene.values,
                               log2=lg, depth=[max(0.0, 50 * 2 ** x) for x in lg]))
        for k in range(len(df)):
            if rng.random() < 0.03:
                df.loc[k, "log2"], df.loc[k, "depth"] = -20.0, 0.0
        return CopyNumArray(df, {"sample_id": "smp"})
    tgt = sample("t")
    if not len(tgt):
        keep = [True] * n          # the statement quantifies over empty antitarget tables, not empty target tables
        tgt = sample("t")
    anti = sample("a") if rng.random() < 0.75 else sample("a")[:0]
    return dict(target=tgt, antitarget=anti, reference=reference,
                do_gc=rng.random() < 0.5, do_edge=rng.random() < 0.5, do_rmask=rng.random() < 0.5)


def _gen_fix(rng, tier, i):
    if i >= (60 if tier == "quick" else 1500):
        return None
    d = _fix_case(rng, tier)
    d["variant"] = rng.choice(["plain", "plain", "scaled", "permuted"])
    d["scale"] = rng.choice([0.25, 3.0, 10.0])
    d["perm_seed"] = rng.randrange(10 ** 6)
    return d


_gen_fix.__doc__ = _fix_case.__doc__ + ", arbitrary depth scale factors and row permutations"


def _run_fix(a, tgt=None, anti=None, ref=None):
    import warnings
    warnings.simplefilter("ignore")
    from cnvlib import fix
    return fix.do_fix(tgt if tgt is not None else a["target"], anti if anti is not None else a["antitarget"],
                      ref if ref is not None else a["reference"], None, a["do_gc"], a["do_edge"], a["do_rmask"])


def _permute(arr, seed):
    import numpy as np
    rs = np.random.RandomState(seed)
    order = rs.permutation(len(arr))
    return arr.as_dataframe(arr.data.iloc[order].reset_index(drop=True))


def _by_class(a):
    """do_fix recomposed from its per-class building blocks with the documented assignment of corrections"""
    import warnings
    warnings.simplefilter("ignore")
    from cnvlib import fix
    cn, refm = fix.load_adjust_coverages(a["target"], a["reference"], True, a["do_gc"], a["do_edge"], False, None)
    an, refa = fix.load_adjust_coverages(a["antitarget"], a["reference"], False, a["do_gc"], False, a["do_rmask"], None)
    if len(an):
        cn.add(an)
        refm.add(refa)
    cn.data["log2"] -= refm["log2"]
    cn = fix.apply_weights(cn, refm, "log2", "spread")
    cn.center_all(skip_low=True)
    return cn


def _call_fix(fn, a):
    base = _run_fix(a)
    other = None
    if a["variant"] == "scaled":
        t, an = a["target"].copy(), a["antitarget"].copy()
        sh = math.log2(a["scale"])
        # a sample sequenced `scale` times deeper: every covered bin's depth is multiplied and its log2 shifted; a bin no
        # read overlaps stays at depth 0 / log2 -20 (what `coverage` reports for it at any sequencing depth)
        t.data["log2"] = t.data["log2"] + sh * (t.data["depth"] > 0)
        t.data["depth"] = t.data["depth"] * a["scale"]
        if len(an):
            an.data["log2"] = an.data["log2"] + sh * (an.data["depth"] > 0)
            an.data["depth"] = an.data["depth"] * a["scale"]
        other = _run_fix(a, t, an)
    elif a["variant"] == "permuted":
        other = _run_fix(a, _permute(a["target"], a["perm_seed"]), _permute(a["antitarget"], a["perm_seed"] + 1),
                         _permute(a["reference"], a["perm_seed"] + 2))
    return {"base": base, "other": other, "__expected_by_class__": _by_class(a)}


def _class_without_usable_bin(old):
    """a sample table (targets or antitargets) that has bins but none with coverage (all log2 < -15 or depth 0)"""
    for nm in ("target", "antitarget"):
        d = old[nm].data
        if len(d) and ((d["log2"] < -15) | (d["depth"] == 0)).all():
            return nm
    return None


def _few_bins_per_chromosome(old):
    """a class whose chromosomes each hold at most two usable bins: the residuals from the chromosome medians are then
    exactly symmetric (+x, -x / 0), the case in which biweight_midvariance switches formula on rounding noise"""
    for nm in ("target", "antitarget"):
        d = old[nm].data
        d = d[~((d["log2"] < -15) | (d["depth"] == 0))]
        if len(d) >= 2 and d.groupby("chromosome").size().max() <= 2:
            return nm
    return None


def _chk_fix_weights_symmetric(args, res, old):
    import numpy as np
    if res["other"] is None or not _few_bins_per_chromosome(old):
        return None
    a, b = res["base"].data.reset_index(drop=True), res["other"].data.reset_index(drop=True)
    if len(a) == len(b) and len(a):
        dw = float(np.abs(a.weight.values - b.weight.values).max())
        if not dw <= 1e-9:
            return "%s inputs change the weights by up to %r when every chromosome holds at most two usable %s bins" % (
                old["variant"], dw, _few_bins_per_chromosome(old))


def _off_target_centre_set_by_empty_bins(old):
    """Off-target bins are centred over all of them, bins without coverage (placeholder log2 -20) included
    (center_all(skip_low=False)).  When such bins set that centre -- the median over chromosomes of the chromosome medians
    is a placeholder value -- the centre cannot move with the covered bins when the sample is sequenced deeper."""
    import numpy as np
    d = old["antitarget"].data
    if not len(d):
        return False
    null = ((d["log2"] < -15) | (d["depth"] == 0)).values
    if not null.any():
        return False

    def centre(vals):
        meds = [float(np.median(g)) for _c, g in vals.groupby(d["chromosome"].values, sort=False)]
        return float(np.median(meds))
    import pandas as pd
    base = pd.Series(d["log2"].values)
    moved = pd.Series(np.where(null, d["log2"].values, d["log2"].values + 1.0))
    # every candidate grouping of chromosomes (all / autosomes only) must move by exactly the shift of the covered bins
    auto = pd.Series(d["chromosome"].values).str.match(r"(chr)?\d+$").values
    for sel in (np.ones(len(d), dtype=bool), auto):
        if sel.any():
            cb = [float(np.median(g)) for _c, g in pd.Series(base.values[sel]).groupby(d["chromosome"].values[sel], sort=False)]
            cm = [float(np.median(g)) for _c, g in pd.Series(moved.values[sel]).groupby(d["chromosome"].values[sel], sort=False)]
            if not abs((float(np.median(cm)) - float(np.median(cb))) - 1.0) <= 1e-9:
                return True
    return False


def _chk_fix_empty_bins_anchor(args, res, old):
    import numpy as np
    if res["other"] is None or old["variant"] != "scaled" or not _off_target_centre_set_by_empty_bins(old):
        return None
    a, b = res["base"].data.reset_index(drop=True), res["other"].data.reset_index(drop=True)
    if len(a) == len(b) and len(a) and "depth" in a:
        cov = a.depth.values > 0
        d = float(np.abs(a.log2.values - b.log2.values)[cov].max()) if cov.any() else 0.0
        if not d <= 1e-9:
            return ("a sample sequenced %g times deeper changes the log2 of covered bins by up to %r when off-target bins without "
                    "coverage set the off-target centre" % (old.get("scale", float("nan")), d))


def _chk_fix_weights_dead_class(args, res, old):
    import numpy as np
    nm = _class_without_usable_bin(old)
    if nm is None:
        return None
    w = res["base"].data["weight"].values
    if len(w) and not ((w >= 1e-4 - 1e-15) & (w <= 1.0 + 1e-15)).all():
        return "no %s bin has coverage: weights outside [0.0001, 1] (min %r max %r, %d missing)" % (
            nm, np.nanmin(w) if np.isfinite(w).any() else float("nan"), np.nanmax(w) if np.isfinite(w).any() else float("nan"),
            int(np.isnan(w).sum()))


def _chk_fix(args, res, old):
    import numpy as np
    from contracts.c_tabio import natural_key
    out = res["base"]
    ref = old["reference"].data
    refkey = {(r.chromosome, r.start, r.end): r for r in ref.itertuples(index=False)}

    def ok_ref(r):
        good = (-5.0 <= r.log2 <= 5.0) and r.spread <= 1.0 and r.depth > 0
        if hasattr(r, "gc"):
            good = good and 0.3 <= r.gc <= 0.7
        return good
    exp = []
    src = {}
    for arr in (old["target"], old["antitarget"]):
        for r in arr.data.itertuples(index=False):
            k = (r.chromosome, r.start, r.end)
            if ok_ref(refkey[k]):
                exp.append(k)
                src[k] = r
    exp.sort(key=lambda k: (natural_key(k[0]), k[1], k[2]))
    got = [(r.chromosome, r.start, r.end) for r in out.data.itertuples(index=False)]
    if got != exp:
        return "fix emits %d bins, expected the %d sample bins whose reference bin passes the filters, in genomic order; first differences %r" % (
            len(got), len(exp), [(g, e) for g, e in zip(got, exp) if g != e][:3])
    if out.data["log2"].isnull().any():
        return "fix emits missing log2 values (%d of %d bins)" % (int(out.data["log2"].isnull().sum()), len(out))
    # weights (the case "a class has bins but none with coverage" is judged by its own clause below)
    w = out.data["weight"].values
    if not _class_without_usable_bin(old) and not ((w >= 1e-4 - 1e-15) & (w <= 1.0 + 1e-15)).all():
        return "weights outside [0.0001, 1]: min %r max %r" % (w.min(), w.max())
    # corrections off: sample - reference + one constant per class
    if not (old["do_gc"] or old["do_edge"] or old["do_rmask"]):
        for cls in (False, True):
            diffs = [o.log2 - (src[(o.chromosome, o.start, o.end)].log2 - refkey[(o.chromosome, o.start, o.end)].log2)
                     for o in out.data.itertuples(index=False) if (o.gene in ("Antitarget", "Background")) == cls]
            if diffs and max(diffs) - min(diffs) > 1e-9:
                return "corrections off: log2 is not sample - reference + a constant for %s bins (spread of the offset %r)" % (
                    "off-target" if cls else "on-target", max(diffs) - min(diffs))
    # centred: median of the autosomal chromosome medians (null-coverage bins ignored) is 0
    ok = out.data[(out.data.log2 >= -20.0 - (-5.0)) & (out.data.depth > 0)] if "depth" in out.data else out.data
    auto = ok[ok.chromosome.str.match(r"(chr)?\d+$")]
    if len(auto):
        med = float(np.median([float(np.median(g.log2.values)) for _c, g in auto.groupby("chromosome", sort=False)]))
        if not abs(med) <= 1e-9:
            return "output not centred: median of autosomal chromosome medians is %r" % med
    # weight monotonicity within a class: equal reference spread -> larger bin not lighter; equal size -> larger spread not heavier
    rows = [(o, refkey[(o.chromosome, o.start, o.end)]) for o in out.data.itertuples(index=False)]
    for cls in (False, True):
        sub = [(o, r) for o, r in rows if (o.gene in ("Antitarget", "Background")) == cls]
        for (o1, r1), (o2, r2) in zip(sub, sub[1:]):
            s1, s2 = o1.end - o1.start, o2.end - o2.start
            if abs(r1.spread - r2.spread) < 1e-15 and s1 < s2 and o1.weight > o2.weight + 1e-12:
                return "weight decreases with bin size: %r vs %r" % ((s1, o1.weight), (s2, o2.weight))
            if s1 == s2 and r1.spread < r2.spread and o1.weight + 1e-12 < o2.weight:
                return "weight increases with reference spread: %r vs %r" % ((r1.spread, o1.weight), (r2.spread, o2.weight))
    # which correction applies to which class: edge (and gc) on-target, rmask (and gc) off-target -- recomputed from the
    # per-class building block load_adjust_coverages (itself under the single-correction contract)
    if (old["do_gc"] or old["do_edge"] or old["do_rmask"]) and "__expected_by_class__" in res:
        exp_df = res["__expected_by_class__"].data.reset_index(drop=True)
        got_df = out.data.reset_index(drop=True)
        if len(exp_df) == len(got_df):
            dd = float(np.abs(exp_df.log2.values - got_df.log2.values).max()) if len(got_df) else 0.0
            if not dd <= 1e-9:
                return ("corrections gc=%s edge=%s rmask=%s: result differs (max %r) from edge on on-target bins only and "
                        "rmask on off-target bins only" % (old["do_gc"], old["do_edge"], old["do_rmask"], dd))
    # invariance under depth rescaling / row permutation
    if res["other"] is not None:
        a, b = out.data.reset_index(drop=True), res["other"].data.reset_index(drop=True)
        if len(a) != len(b) or list(a.chromosome) != list(b.chromosome) or list(a.start) != list(b.start):
            return "%s inputs change the emitted bins or their order" % old["variant"]
        # (a bin no read overlaps carries the placeholder log2 -20 at any sequencing depth; relative to the centre of the
        # covered bins it necessarily moves when they are rescaled, so only covered bins are compared under rescaling)
        cov = (a.depth.values > 0) if (old["variant"] == "scaled" and "depth" in a) else np.ones(len(a), dtype=bool)
        d = float(np.abs(a.log2.values - b.log2.values)[cov].max()) if cov.any() else 0.0
        dw = float(np.abs(a.weight.values - b.weight.values).max()) if len(a) else 0.0
        if _few_bins_per_chromosome(old):
            dw = 0.0       # judged by its own clause (weights_when_residuals_are_exactly_symmetric)
        if old["variant"] == "scaled" and _off_target_centre_set_by_empty_bins(old):
            d = 0.0        # judged by its own clause (depth_invariance_when_empty_bins_set_the_off_target_centre)
        if not (d <= 1e-9 and dw <= 1e-9):
            return "%s inputs change the result: max |dlog2| = %r, max |dweight| = %r (corrections gc=%s edge=%s rmask=%s, %d antitarget bins)" % (
                old["variant"], d, dw, old["do_gc"], old["do_edge"], old["do_rmask"], len(old["antitarget"]))


contract("cnvlib/fix.py::do_fix", params=dict(target=ObjT("CopyNumArray")), bounded=True, gen=_gen_fix, call=_call_fix,
         props=("C04",), checks=[("kept_bins_offsets_centring_weights_invariance", _chk_fix),
                                 ("weights_when_a_class_has_no_usable_bin", _chk_fix_weights_dead_class),
                                 ("weights_when_residuals_are_exactly_symmetric", _chk_fix_weights_symmetric),
                                 ("depth_invariance_when_empty_bins_set_the_off_target_centre", _chk_fix_empty_bins_anchor)])


# ----------------------------------------------------------------------------- errors
def _gen_fix_err(rng, tier, i):
    """a sample bin absent from the reference, or duplicated coordinates in either table"""
    if i >= (40 if tier == "quick" else 600):
        return None
    d = _fix_case(rng, tier)
    for _ in range(6):
        if len(d["target"]):
            break
        d = _fix_case(rng, tier)      # the faults below are about sample bins: there must be one
    if not len(d["target"]):
        return None
    import pandas as pd
    fault = rng.choice(["missing", "dup_sample", "dup_ref"])
    t = d["target"]
    if fault == "missing":
        df = t.data.copy()
        k = rng.randrange(len(df))
        df.loc[k, "end"] = int(df.loc[k, "end"]) + 1
        d["target"] = t.as_dataframe(df)
    elif fault == "dup_sample":
        d["target"] = t.as_dataframe(pd.concat([t.data, t.data.iloc[[rng.randrange(len(t))]]], ignore_index=True))
    else:
        # duplicate a reference row that a sample bin is matched to (a duplicate nobody refers to is not the statement's case)
        r = d["reference"]
        keys = set(zip(t.data.chromosome, t.data.start, t.data.end))
        cand = [k for k, row in enumerate(r.data.itertuples(index=False)) if (row.chromosome, row.start, row.end) in keys]
        d["reference"] = r.as_dataframe(pd.concat([r.data, r.data.iloc[[rng.choice(cand)]]], ignore_index=True))
    d["fault"] = fault
    return d


def _call_fix_err(fn, a):
    try:
        _run_fix(a)
        return "no error"
    except ValueError as exc:
        return "ValueError"


contract("prop::C04.fix_refuses_bad_bins", params=dict(target=ObjT("CopyNumArray")), bounded=True, gen=_gen_fix_err,
         call=_call_fix_err, props=("C04",),
         checks=[("error_raised", lambda args, res, old: None if res == "ValueError" else
                  "fix accepted a %s" % {"missing": "sample bin absent from the reference", "dup_sample": "duplicated sample coordinate",
                                         "dup_ref": "duplicated reference coordinate"}[old["fault"]])])


# ----------------------------------------------------------------------------- single corrections
def _gen_corr(rng, tier, i):
    """one correction at a time (gc, edge, rmask) on targets only, flat-free pooled reference, distinct covariates"""
    if i >= (45 if tier == "quick" else 900):
        return None
    d = _fix_case(rng, tier, pooled=True)
    which = ["gc", "edge", "rmask"][i % 3]
    d.update(do_gc=which == "gc", do_edge=which == "edge", do_rmask=which == "rmask", which=which)
    if which != "rmask":
        d["antitarget"] = d["antitarget"][:0]
    return d


def _call_corr(fn, a):
    import warnings
    warnings.simplefilter("ignore")
    from cnvlib import fix
    if a["which"] == "rmask":
        # the repeat-fraction correction belongs to the off-target bins
        cn, refm = fix.load_adjust_coverages(a["antitarget"], a["reference"], False, False, False, True, None)
        cn0, refm0 = fix.load_adjust_coverages(a["antitarget"], a["reference"], False, False, False, False, None)
    else:
        cn, refm = fix.load_adjust_coverages(a["target"], a["reference"], True, a["do_gc"], a["do_edge"], False, None)
        cn0, refm0 = fix.load_adjust_coverages(a["target"], a["reference"], True, False, False, False, None)
    return dict(corrected=cn, plain=cn0, ref=refm)


def _edge_bias(sub, margin=250):
    """the edge-density formula of the documentation: gains from neighbours closer than the insert size minus the
    loss at the bin's own edges"""
    out = []
    rows = list(sub)
    for k, (s, e) in enumerate(rows):
        t = e - s
        loss = margin / (2.0 * t)
        if t < margin:
            loss -= (margin - t) ** 2 / (2.0 * margin * t)
        gain = 0.0
        for nb in (k - 1, k + 1):
            if 0 <= nb < len(rows):
                g = (s - rows[nb][1]) if nb < k else (rows[nb][0] - e)
                if g < margin:
                    g = max(0, g)
                    x = (margin - g) ** 2 / (4.0 * margin * t)
                    if t + g < margin:
                        x -= (margin - t - g) ** 2 / (4.0 * margin * t)
                    gain += x
        out.append(gain - loss)
    return out


def _chk_corr(args, res, old):
    import numpy as np
    from cnvlib import smoothing
    which = old["which"]
    plain, corr, refm = res["plain"].data.reset_index(drop=True), res["corrected"].data.reset_index(drop=True), res["ref"].data.reset_index(drop=True)
    if len(plain) != len(corr) or len(plain) < 10:
        return None
    if (plain.log2 > -15).sum() <= len(plain) // 2:
        return None
    if which in ("gc", "rmask"):
        if which not in refm.columns:
            return None
        key = refm[which].values
    else:
        key = []
        for c in dict.fromkeys(plain.chromosome):
            sub = plain[plain.chromosome == c]
            key += _edge_bias(zip(sub.start.values, sub.end.values))
        key = np.array(key)
    if len(set(np.round(key, 12))) != len(key):
        return None     # ties in the covariate: the order is then fixed by a seeded shuffle, not by the statement
    order = np.argsort(key, kind="mergesort")
    frac = max(0.01, len(plain) ** -0.5)
    bias = smoothing.rolling_median(plain.log2.values[order], frac)
    want = plain.log2.values.copy()
    want[order] -= bias
    d = float(np.abs(want - corr.log2.values).max())
    if d > 1e-9:
        return "%s correction: result differs from log2 minus the rolling median over bins ordered by the covariate (max diff %r)" % (which, d)


contract("prop::C04.single_correction", params=dict(target=ObjT("CopyNumArray")), bounded=True, gen=_gen_corr, call=_call_corr,
         props=("C04",), checks=[("rolling_median_by_covariate", _chk_corr)])


# ----------------------------------------------------------------------------- deductive: reference filters and edge formulas
from .c_call import CHROM, GENE      # noqa: E402

_REF = ObjT("CopyNumArray", data=TabT(opt=("depth", "gc"), index="range", chromosome=CHROM, start=Int, end=Int, gene=GENE,
                                      log2=Real, spread=Real, depth=Real, gc=Real), meta=DictT())

contract(
    "cnvlib/fix.py::mask_bad_bins",
    params=dict(cnarr=_REF),
    returns=SeriesT(Bool, like="cnarr"),
    requires=[],
    ensures=[
        ("rowcount", "len(result) == len(cnarr.data)"),
        # the reference filters of the statement: log2 within +-5, spread <= 1, depth > 0 (here: not 0), GC within 0.3-0.7
        ("bad_iff_fails_a_filter", "forall(0, len(result), lambda k: result[k] == ("
         "cnarr.data.log2[k] < -5 or cnarr.data.log2[k] > 5 or cnarr.data.spread[k] > 1 or "
         "('depth' in cnarr.data and cnarr.data.depth[k] == 0) or "
         "('gc' in cnarr.data and (cnarr.data.gc[k] > 0.7 or cnarr.data.gc[k] < 0.3))))"),
    ],
    props=("C04",),
    domain="skip",
    canaries=[("lt_to_le", 'cnarr["log2"] < params.MIN_REF_COVERAGE', 'cnarr["log2"] <= params.MIN_REF_COVERAGE'),
              ("spread_ge", 'cnarr["spread"] > params.MAX_REF_SPREAD', 'cnarr["spread"] >= params.MAX_REF_SPREAD'),
              ("gc_upper_ge", 'cnarr["gc"] > upper_gc_bound', 'cnarr["gc"] >= upper_gc_bound'),
              ("depth_dropped", 'mask |= cnarr["depth"] == 0', "pass")],
)

contract(
    "cnvlib/fix.py::edge_losses",
    params=dict(target_sizes=VecT(Int), insert_size=Int),
    returns=VecT(Real),
    requires=["insert_size > 0", "forall(0, len(target_sizes), lambda k: target_sizes[k] > 0)"],
    ensures=[
        ("rowcount", "len(result) == len(target_sizes)"),
        # documented formula: i/2t, reduced by (i-t)^2 / 2it when the bin is narrower than the insert size
        ("formula", "forall(0, len(result), lambda k: result[k] == insert_size / (2 * target_sizes[k]) - "
                    "ite(target_sizes[k] < insert_size, (insert_size - target_sizes[k]) * (insert_size - target_sizes[k]) / "
                    "(2 * insert_size * target_sizes[k]), 0))"),
    ],
    props=("C04",), domain="skip", ghost=dict(nonlinear=True),
    canaries=[("mask_le", "target_sizes < insert_size", "target_sizes <= insert_size - 2"),
              ("no_shoulder", "losses[small_mask] -= ", "losses[small_mask] += ")],
)

contract(
    "cnvlib/fix.py::edge_gains",
    params=dict(target_sizes=VecT(Int), gap_sizes=VecT(Int), insert_size=Int),
    returns=VecT(Real),
    requires=["insert_size > 0", "len(target_sizes) == len(gap_sizes)",
              "forall(0, len(target_sizes), lambda k: target_sizes[k] > 0)",
              "forall(0, len(gap_sizes), lambda k: gap_sizes[k] <= insert_size)"],
    ensures=[
        ("rowcount", "len(result) == len(target_sizes)"),
        # documented formula with g = max(0, gap): (i-g)^2 / 4it, reduced by (i-t-g)^2 / 4it when t+g < i
        ("formula", "forall(0, len(result), lambda k: let(lambda g, t: result[k] == "
                    "(insert_size - g) * (insert_size - g) / (4 * insert_size * t) - "
                    "ite(t + g < insert_size, (insert_size - t - g) * (insert_size - t - g) / (4 * insert_size * t), 0), "
                    "ite(gap_sizes[k] > 0, gap_sizes[k], 0), target_sizes[k]))"),
    ],
    props=("C04",), domain="skip", ghost=dict(nonlinear_clauses=("formula",)), may_raise=("ValueError",),
    canaries=[("no_clamp", "gap_sizes = np.maximum(0, gap_sizes)", "gap_sizes = gap_sizes"),
              ("mask_le", "target_sizes + gap_sizes < insert_size", "target_sizes + gap_sizes <= insert_size - 2")],
)


# ----------------------------------------------------------------------------- deductive: matching reference bins to sample bins
from .c_call import CHROM, GENE       # noqa: E402

_SAMP = ObjT("CopyNumArray", data=TabT(index="any", chromosome=CHROM, start=Int, end=Int, gene=GENE, log2=Real, depth=Real),
             meta=DictT(sample_id=Str))
_REFT = ObjT("CopyNumArray", data=TabT(index="any", chromosome=CHROM, start=Int, end=Int, gene=GENE, log2=Real, depth=Real, spread=Real),
             meta=DictT())
_SAME = "(R.data.chromosome[j] == S.data.chromosome[k] and R.data.start[j] == S.data.start[k] and R.data.end[j] == S.data.end[k])"
_SAMEKJ = _SAME.replace("R", "ref_cnarr").replace("S", "samp_cnarr")
_DUP = "exists(0, len(T.data), lambda a: exists(0, len(T.data), lambda b: a < b and T.data.chromosome[a] == T.data.chromosome[b] and " \
       "T.data.start[a] == T.data.start[b] and T.data.end[a] == T.data.end[b]))"

contract(
    "cnvlib/fix.py::match_ref_to_sample",
    params=dict(ref_cnarr=_REFT, samp_cnarr=_SAMP),
    returns=ObjT("CopyNumArray", data=TabT(index="any", chromosome=CHROM, start=Int, end=Int, gene=GENE, log2=NReal, depth=NReal,
                                           spread=NReal), meta=DictT()),
    requires=[],
    # refused (ValueError) exactly when coordinates are duplicated in either table or a sample bin is absent from the reference
    raises=dict(exc="ValueError", when=("DUPS or DUPR or exists(0, len(samp_cnarr.data), lambda k: not exists(0, len(ref_cnarr.data), lambda j: SAME))"
                                        .replace("DUPS", _DUP.replace("T", "samp_cnarr")).replace("DUPR", _DUP.replace("T", "ref_cnarr"))
                                        .replace("SAME", _SAMEKJ))),
    ensures=[
        ("one_reference_bin_per_sample_bin", "len(result.data) == len(samp_cnarr.data)"),
        # matched by (chromosome, start, end), never by row position: row k carries the reference bin with sample bin k's coordinates
        ("matched_by_coordinates", "forall(0, len(result.data), lambda k: let(lambda j: 0 <= j and j < len(ref_cnarr.data) and SAME and "
                                   "result.data.chromosome[k] == ref_cnarr.data.chromosome[j] and "
                                   "not isnull(result.data.log2[k]) and val(result.data.log2[k]) == ref_cnarr.data.log2[j] and "
                                   "not isnull(result.data.spread[k]) and val(result.data.spread[k]) == ref_cnarr.data.spread[j] and "
                                   "val(result.data.depth[k]) == ref_cnarr.data.depth[j] and result.data.gene[k] == ref_cnarr.data.gene[j], "
                                   "match_pos(k)))".replace("SAME", _SAMEKJ)),
    ],
    props=("C04",), domain="skip",
    canaries=[("one_missing_bin_tolerated", "if num_missing > 0:", "if num_missing > 1:"),
              ("reference_duplicates_not_checked", '((samp_labeled, "sample"), (ref_labeled, "reference"))', '((samp_labeled, "sample"),)'),
              ("matched_by_position", "ref_matched = ref_labeled.reindex(index=samp_labeled.index)",
               "ref_matched = ref_labeled.reindex(index=ref_labeled.index)")],
    notes="pandas label lookup (set_index on the coordinate tuples, Index.duplicated, reindex(index=labels)) is modelled: a "
          "row of the result is the row whose label equals the requested one, all-missing where there is none",
)


# ----------------------------------------------------------------------------- deductive: apply_weights
contract("cnvlib/descriptives.py::biweight_midvariance", params=dict(a=VecT(Real), initial=Lit(None), c=Lit(9.0), epsilon=Lit(1e-3)),
         returns=NReal, trusted=True, requires=[],
         ensures=[("nan_or_non_negative", "isnull(result) or val(result) >= 0"),
                  ("a_number_for_data", "implies(len(a) >= 1, not isnull(result))")],
         props=(), domain="skip",
         notes="assumed at call sites: NaN only for an empty array (on_array), otherwise a non-negative number; its definition is "
               "the business of the bounded C19 contract biweight_midvariance#rt")

_AWB = ObjT("CopyNumArray", data=TabT(index="range", chromosome=CHROM, start=Int, end=Int, gene=GENE, log2=Real, depth=Real), meta=DictT())
_AWR = ObjT("CopyNumArray", data=TabT(index="range", chromosome=CHROM, start=Int, end=Int, gene=GENE, log2=Real, spread=Real), meta=DictT())
contract(
    "cnvlib/fix.py::apply_weights",
    params=dict(cnarr=_AWB, ref_matched=_AWR, log2_key=Lit("log2"), spread_key=Lit("spread")),
    returns=ObjT("CopyNumArray"),
    requires=["len(cnarr.data) >= 1", "len(cnarr.data) == len(ref_matched.data)",
              "forall(0, len(cnarr.data), lambda k: cnarr.data.start[k] < cnarr.data.end[k])"],
    ensures=[
        ("one_weight_per_bin", "len(result.data) == len(cnarr.data)"),
        ("weights_are_numbers_within_bounds", "forall(0, len(result.data), lambda k: not isnull(result.data.weight[k]) and "
                                              "0.0001 <= val(result.data.weight[k]) and val(result.data.weight[k]) <= 1)"),
        ("bins_unchanged", "forall(0, len(result.data), lambda k: result.data.chromosome[k] == cnarr.data.chromosome[k] and "
                           "result.data.start[k] == cnarr.data.start[k] and result.data.end[k] == cnarr.data.end[k] and "
                           "result.data.gene[k] == cnarr.data.gene[k] and result.data.log2[k] == cnarr.data.log2[k])"),
    ],
    props=("C04",), domain="skip",
    canaries=[("no_floor", "weights.clip(epsilon, 1.0)", "weights.clip(0, 1.0)"),
              ("missing_variance_used", "    if not np.isnan(tgt_var):", "    if True:"),
              ("no_usable_antitarget_not_skipped", "        if len(anti_ok):", "        if True:")],
    notes="every path through the body (154, flat or pooled reference, with or without off-target bins, classes without a "
          "usable bin): each bin gets a weight that is a number in [0.0001, 1] -- the missing-variance paths are the ones "
          "repaired by fix 455995f; biweight_midvariance and residuals are assumed (NaN only for no data; an opaque vector)",
)

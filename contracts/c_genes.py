"""Contracts for gene-level grouping: CopyNumArray.by_gene / squash_genes, cnvlib/reports.py  (C16)."""
from .dsl import *     # noqa
from . import vocab    # noqa

IGNORED = ("-", ".", "CGH", "Antitarget", "Background")


def _bins(rng, tier, filtered=None, weights=True):
    """bin tables of 1..5 chromosomes with 0..12 genes of 1..10 bins each, interleaved Antitarget/'-'/'.'/CGH bins
    anywhere incl. chromosome ends and single trailing bins, optionally a filtered array (non-default row index)"""
    import pandas as pd
    from cnvlib.cnary import CopyNumArray
    rows = []
    genes_left = ["G%d" % k for k in range(12)]
    rng.shuffle(genes_left)
    plan = []          # (chromosome, gene-or-ignored name) per bin, in order
    for c in sorted(rng.sample(["chr1", "chr2", "chr3", "chr4", "chrX"], rng.randint(1, 5))):
        def filler(maxn=3):
            for _ in range(rng.choice([0, 0, 1, 1, 2, maxn])):
                plan.append((c, rng.choice(["Antitarget", "Antitarget", "-", ".", "CGH"]), None))
        filler()
        for _ in range(rng.randint(0, 4)):
            if not genes_left:
                break
            g = genes_left.pop()
            n = rng.randint(1, 10 if tier != "quick" else 5)
            for k in range(n):
                plan.append((c, g, g))
                if k < n - 1 and rng.random() < 0.2:          # a gene interrupted by ignored bins only
                    plan.append((c, rng.choice(["Antitarget", "-", "CGH"]), g))
            filler()
        if not any(p[0] == c for p in plan):
            plan.append((c, "Antitarget", None))
    pos = {}
    for c, name, owner in plan:
        p = pos.get(c, rng.choice([0, 1000]))
        L = rng.choice([50, 100, 200, 5000])
        r = dict(chromosome=c, start=p, end=p + L, gene=name, log2=round(rng.gauss(0, 0.6), 3),
                 depth=round(rng.uniform(0, 300), 2))
        if weights:
            r["weight"] = rng.choice([0.0, 0.2, 0.5, 1.0, 1.0])
        rows.append(r)
        pos[c] = p + L + rng.choice([0, 0, 30000])
    arr = CopyNumArray(pd.DataFrame(rows), {"sample_id": "s"})
    owners = [p[2] for p in plan]
    if filtered is None:
        filtered = rng.random() < 0.4
    if filtered and len(arr) > 2:
        # filtered view with a non-default index: drop some ignored-name bins
        keep = [not (n in IGNORED and rng.random() < 0.4) for n in arr.data["gene"]]
        if any(keep):
            arr = arr[pd.Series(keep, index=arr.data.index)]
            owners = [o for o, k in zip(owners, keep) if k]
    return arr, owners


def _expected_blocks(arr):
    """partition of each chromosome's bins per the statement: each named gene from its first to its last bin,
    Antitarget for the stretches before, between and after"""
    rows = list(arr.data.itertuples(index=False))
    out = []
    k = 0
    n = len(rows)
    by_chrom = []
    for r in rows:
        if not by_chrom or by_chrom[-1][0] != r.chromosome:
            by_chrom.append((r.chromosome, []))
        by_chrom[-1][1].append(r)
    for c, rr in by_chrom:
        first, last, order = {}, {}, []
        for i, r in enumerate(rr):
            if r.gene not in IGNORED:
                if r.gene not in first:
                    first[r.gene] = i
                    order.append(r.gene)
                last[r.gene] = i
        prev = 0
        for g in order:
            if prev < first[g]:
                out.append(("Antitarget", rr[prev:first[g]]))
            out.append((g, rr[first[g]:last[g] + 1]))
            prev = last[g] + 1
        if prev < len(rr):
            out.append(("Antitarget", rr[prev:]))
    return out


def _gen_by_gene(rng, tier, i):
    if i >= (1500 if tier == "quick" else 30000):
        return None
    arr, owners = _bins(rng, tier)
    ignore = rng.choice([None, None, ("-", ".", "CGH"), ["-", ".", "CGH"]])
    return dict(arr=arr, ignore=ignore)


_gen_by_gene.__doc__ = _bins.__doc__


def _call_by_gene(fn, a):
    if a["ignore"] is None:
        return [(g, sub) for g, sub in a["arr"].by_gene()]
    return [(g, sub) for g, sub in a["arr"].by_gene(a["ignore"])]


def _chk_by_gene(args, res, old):
    exp = _expected_blocks(old["arr"])
    got = [(g, [tuple(r) for r in sub.data.itertuples(index=False)]) for g, sub in res]
    want = [(g, [tuple(r) for r in rr]) for g, rr in exp]
    if got != want:
        names = [(r.chromosome, r.gene) for r in old["arr"].data.itertuples(index=False)]
        return "by_gene blocks %r, expected %r  (bins %r, index %r)" % (
            [(g, len(b)) for g, b in got], [(g, len(b)) for g, b in want], names, list(old["arr"].data.index)[:30])


contract("cnvlib/cnary.py::CopyNumArray.by_gene#rt", params=dict(arr=ObjT("CopyNumArray")), bounded=True,
         gen=_gen_by_gene, call=_call_by_gene, props=("C16", "C10"),
         checks=[("each_bin_once_genes_and_gaps", _chk_by_gene)])


# ----------------------------------------------------------------------------- genemetrics
def _gene_row(rr, skip_low=False, xshift=0.0):
    """the statement's gene row; with skip_low the mean is over the bins that are not dead (log2 >= -15, depth != 0) while
    extent, bin count, weight and depth stay those of the whole gene; xshift is what the sex adjustment adds on chrX"""
    w = [r.weight for r in rr]
    sh = xshift if rr[0].chromosome in ("chrX", "X") else 0.0
    live = [(r.log2 + sh, r.weight) for r in rr if not (skip_low and (r.log2 + sh < -15 or r.depth == 0))]
    if not live:
        lg = float("nan")
    elif any(b for _a, b in live):
        lg = sum(a * b for a, b in live) / sum(b for _a, b in live)
    else:
        lg = sum(a for a, _b in live) / len(live)
    dep = None
    if sum(w) > 0:
        dep = sum(a * r.depth for a, r in zip(w, rr)) / sum(w)
    return dict(chromosome=rr[0].chromosome, start=rr[0].start, end=rr[-1].end, probes=len(rr), weight=sum(w), log2=lg, depth=dep)


def _gen_genemetrics(rng, tier, i):
    """bin tables as for by_gene x threshold x min_probes (no segments) x skip_low (with dead bins) x reference sex x
    stated sample sex"""
    if i >= (500 if tier == "quick" else 10000):
        return None
    arr, owners = _bins(rng, tier, filtered=False)
    # zero *total* weight inside a gene makes the weighted depth undefined (0/0): give such genes one positive weight,
    # but keep zero-weight bins next to positive ones (the weighted mean must then ignore them)
    import numpy as np
    w = arr.data["weight"].values.copy()
    for g, rr in _expected_blocks(arr):
        pass
    tot = {}
    for k, (c, gname) in enumerate(zip(arr.data["chromosome"], arr.data["gene"])):
        tot[(c, gname)] = tot.get((c, gname), 0.0) + w[k]
    for k, (c, gname) in enumerate(zip(arr.data["chromosome"], arr.data["gene"])):
        if tot[(c, gname)] == 0:
            w[k] = 0.3
    # blocks also contain interleaved ignored bins: make sure no block is weightless
    arr.data["weight"] = w
    for g, rr in _expected_blocks(arr):
        if sum(r.weight for r in rr) == 0:
            w[:] = np.where(w == 0, 0.3, w)
            break
    arr.data["weight"] = w
    skip_low = rng.random() < 0.4
    if skip_low:
        # dead bins (no coverage) anywhere, also first/last in a gene
        lg, dp = arr.data["log2"].values.copy(), arr.data["depth"].values.copy()
        for k in range(len(lg)):
            if rng.random() < 0.15:
                lg[k], dp[k] = -20.0, 0.0
        arr.data["log2"], arr.data["depth"] = lg, dp
    return dict(arr=arr, threshold=rng.choice([0.0, 0.1, 0.2, 0.5]), min_probes=rng.choice([0, 1, 2, 3, 5]),
                skip_low=skip_low, male_ref=rng.random() < 0.4, female=rng.random() < 0.5)


def _call_genemetrics(fn, a):
    from cnvlib import reports
    return reports.do_genemetrics(a["arr"], None, a["threshold"], a["min_probes"], a["skip_low"], a["male_ref"], a["female"])


def _close(a, b):
    return abs(a - b) <= 1e-9 * max(1.0, abs(a), abs(b))


def _chk_genemetrics(args, res, old):
    exp = []
    for g, rr in _expected_blocks(old["arr"]):
        if g == "Antitarget":
            continue
        # the sex adjustment (shift_xx, proved separately): chrX moves by -1 for a female sample against a male
        # reference and by +1 for a male sample against a female reference
        xs = -1.0 if (old["female"] and old["male_ref"]) else (1.0 if (not old["female"] and not old["male_ref"]) else 0.0)
        e = _gene_row(rr, old["skip_low"], xs)
        e["gene"] = g
        if abs(e["log2"]) >= old["threshold"] and (not old["min_probes"] or e["probes"] >= old["min_probes"]):
            exp.append(e)
    got = list(res.itertuples(index=False)) if len(res) else []
    if len(got) != len(exp):
        return "genemetrics(skip_low=%s, male_ref=%s, female=%s) reports %r, expected genes %r" % (
            old["skip_low"], old["male_ref"], old["female"], [getattr(r, "gene", None) for r in got], [e["gene"] for e in exp])
    for r, e in zip(got, exp):
        for f in ("gene", "chromosome", "start", "end", "probes"):
            if getattr(r, f) != e[f]:
                return "gene %s: %s=%r, expected %r" % (e["gene"], f, getattr(r, f), e[f])
        for f in ("log2", "weight", "depth"):
            if e[f] is not None and not _close(float(getattr(r, f)), e[f]):
                return "gene %s: %s=%r, expected %r" % (e["gene"], f, getattr(r, f), e[f])


contract("cnvlib/reports.py::do_genemetrics", params=dict(arr=ObjT("CopyNumArray")), bounded=True,
         gen=_gen_genemetrics, call=_call_genemetrics, props=("C16",),
         checks=[("genes_reaching_threshold_with_true_extent", _chk_genemetrics)])


def _gen_genemetrics_seg(rng, tier, i):
    """bin tables x a segmentation of them (breakpoints between bins) x threshold"""
    if i >= (300 if tier == "quick" else 5000):
        return None
    import pandas as pd
    from cnvlib.cnary import CopyNumArray
    arr, owners = _bins(rng, tier, filtered=False)
    w = arr.data["weight"].values.copy()
    w[w == 0] = 0.3
    arr.data["weight"] = w
    segs = []
    for c in dict.fromkeys(arr.chromosome):
        sub = arr.data[arr.data.chromosome == c]
        cuts = sorted(rng.sample(range(1, len(sub)), min(len(sub) - 1, rng.randint(0, 3)))) if len(sub) > 1 else []
        lo = 0
        for hi in cuts + [len(sub)]:
            part = sub.iloc[lo:hi]
            segs.append(dict(chromosome=c, start=int(part.start.iat[0]), end=int(part.end.iat[-1]), gene="-",
                             log2=rng.choice([-1.0, -0.3, 0.0, 0.15, 0.4, 1.2]), probes=len(part), weight=float(part.weight.sum())))
            lo = hi
    return dict(arr=arr, segments=CopyNumArray(pd.DataFrame(segs), {"sample_id": "s"}), threshold=rng.choice([0.1, 0.2, 0.5]))


def _call_genemetrics_seg(fn, a):
    from cnvlib import reports
    return reports.do_genemetrics(a["arr"], a["segments"], a["threshold"], 0, False, False, True)


def _chk_genemetrics_seg(args, res, old):
    from cnvlib.cnary import CopyNumArray
    exp = []
    for s in old["segments"].data.itertuples(index=False):
        if abs(s.log2) < old["threshold"]:
            continue
        inside = old["arr"].data[(old["arr"].data.chromosome == s.chromosome) & (old["arr"].data.end > s.start) &
                                 (old["arr"].data.start < s.end)]
        if not len(inside):
            continue
        sub = CopyNumArray(inside.reset_index(drop=True), {})
        for g, rr in _expected_blocks(sub):
            if g == "Antitarget":
                continue
            e = _gene_row(rr)
            e.update(gene=g, log2=s.log2, segment_probes=s.probes)
            exp.append(e)
    got = list(res.itertuples(index=False)) if len(res) else []
    if len(got) != len(exp):
        return "genemetrics -s reports %r, expected %r" % ([(r.gene, r.start, r.end) for r in got], [(e["gene"], e["start"], e["end"]) for e in exp])
    for r, e in zip(got, exp):
        for f in ("gene", "chromosome", "start", "end", "probes", "segment_probes"):
            if getattr(r, f) != e[f]:
                return "gene %s in segment: %s=%r, expected %r" % (e["gene"], f, getattr(r, f), e[f])
        if not _close(float(r.log2), e["log2"]):
            return "gene %s: log2 %r is not the segment's log2 %r" % (e["gene"], r.log2, e["log2"])


contract("prop::C16.genemetrics_by_segment", params=dict(arr=ObjT("CopyNumArray")), bounded=True,
         gen=_gen_genemetrics_seg, call=_call_genemetrics_seg, props=("C16",),
         checks=[("gene_parts_inside_reaching_segments", _chk_genemetrics_seg)])


# ----------------------------------------------------------------------------- squash_genes
def _gen_squash(rng, tier, i):
    if i >= (500 if tier == "quick" else 10000):
        return None
    arr, owners = _bins(rng, tier, filtered=False, weights=rng.random() < 0.5)
    return dict(arr=arr, squash_antitarget=rng.random() < 0.5)


_gen_squash.__doc__ = _bins.__doc__


def _chk_squash(args, res, old):
    import numpy as np
    exp = []
    for g, rr in _expected_blocks(old["arr"]):
        if g == "Antitarget" and not old["squash_antitarget"]:
            exp += [(r.chromosome, r.start, r.end, r.gene) for r in rr]
        elif len(rr) == 1:
            exp.append((rr[0].chromosome, rr[0].start, rr[0].end, rr[0].gene))
        else:
            exp.append((rr[0].chromosome, rr[0].start, rr[-1].end, g))
    got = [(r.chromosome, r.start, r.end, r.gene) for r in res.data.itertuples(index=False)]
    if got != exp:
        return "squash_genes rows %r, expected %r" % (got[:8], exp[:8])


contract("cnvlib/cnary.py::CopyNumArray.squash_genes", params=dict(arr=ObjT("CopyNumArray")), bounded=True,
         gen=_gen_squash, call=lambda fn, a: a["arr"].squash_genes(summary_func=__import__("numpy").median,
                                                                     squash_antitarget=a["squash_antitarget"]),
         props=("C16",), checks=[("one_row_per_gene_with_its_extent", _chk_squash)])


# ----------------------------------------------------------------------------- breaks
def _gen_breaks(rng, tier, i):
    """bin tables x segmentations whose boundaries fall between bins x min_probes"""
    if i >= (400 if tier == "quick" else 8000):
        return None
    d = _gen_genemetrics_seg(rng, tier, 0)
    return dict(arr=d["arr"], segments=d["segments"], min_probes=rng.choice([1, 1, 2, 3]))


def _call_breaks(fn, a):
    from cnvlib import reports
    return reports.do_breaks(a["arr"], a["segments"], a["min_probes"])


def _chk_breaks(args, res, old):
    arr, segs, mp = old["arr"], old["segments"], old["min_probes"]
    exp = set()
    srows = list(segs.data.itertuples(index=False))
    for a, b in zip(srows, srows[1:]):
        if a.chromosome != b.chromosome:
            continue
        bound = a.end
        genes = {}
        for r in arr.data.itertuples(index=False):
            if r.chromosome == a.chromosome and r.gene not in IGNORED:
                genes.setdefault(r.gene, []).append(r)
        for g, rr in genes.items():
            left = sum(1 for r in rr if r.start < bound)
            right = sum(1 for r in rr if r.start >= bound)
            if left >= mp and right >= mp and min(r.start for r in rr) < bound < max(r.end for r in rr):
                exp.add((g, a.chromosome, int(bound), left, right))
    got = set((r.gene, r.chromosome, int(r.location), int(r.probes_left), int(r.probes_right)) for r in res.itertuples(index=False))
    if got != exp:
        return "breaks lists %r, expected %r" % (sorted(got), sorted(exp))
    if len(res) != len(exp):
        return "breaks has duplicate rows"


contract("cnvlib/reports.py::do_breaks", params=dict(arr=ObjT("CopyNumArray")), bounded=True, gen=_gen_breaks,
         call=_call_breaks, props=("C16",), checks=[("genes_split_by_a_segment_boundary", _chk_breaks)])


# ---------------------------------------------------------------- deductive: the gene/segment mean itself
from .c_call import CHROM, GENE   # noqa

_WBINS = ObjT("CopyNumArray", data=TabT(opt=("weight",), index="masked", chromosome=CHROM, start=Int, end=Int, gene=GENE, log2=Real,
                                       weight=Real), meta=DictT())

contract(
    "cnvlib/segmetrics.py::segment_mean",
    params=dict(cnarr=_WBINS, skip_low=Lit(False)),
    returns=NReal,
    requires=["'weight' not in cnarr.data or forall(0, len(cnarr.data), lambda k: cnarr.data.weight[k] >= 0)"],
    ensures=[
        ("nan_when_empty", "isnull(result) == (len(cnarr.data) == 0)"),
        # weighted average of the bins' log2 when any bin has weight, else their plain mean
        ("weighted_mean", "implies(len(cnarr.data) > 0, val(result) == ite("
                          "'weight' in cnarr.data and exists(0, len(cnarr.data), lambda k: cnarr.data.weight[k] != 0), "
                          "sumof(Vec(len(cnarr.data), lambda k: cnarr.data.log2[k] * cnarr.data.weight[k])) / sumof(cnarr.data.weight), "
                          "sumof(cnarr.data.log2) / len(cnarr.data)))"),
    ],
    props=("C16",), domain="skip",
    canaries=[("any_to_all", 'cnarr["weight"].any()', 'cnarr["weight"].all()'),
              ("unweighted", 'np.average(cnarr["log2"], weights=cnarr["weight"])', 'np.average(cnarr["log2"])')],
)


# ----------------------------------------------------------------------------- deductive: by_gene
# The statement's first sentence, for all tables: under its premise (a named gene's bins are consecutive, interrupted only
# by ignored-name bins) the generator yields, per chromosome in order, slices that tile rows 0..n-1 without gap or overlap
# (so every bin is yielded exactly once); a gene's item runs from its first to its last bin and no bin of that gene lies
# outside it; Antitarget items hold only ignored-name bins.  Assumed: by_chromosome (ghost field `groups`: the
# per-chromosome tables) and _get_gene_map (ordered mapping name -> ascending rows; one name per bin).  Each invariant
# declares which other invariants its preservation needs (keeps the queries small and their verdicts stable).
_GBIN = ObjT("CopyNumArray", data=TabT(index="any", chromosome=CHROM, start=Int, end=Int, gene=GENE, log2=Real), meta=DictT())
_GARR = ObjT("CopyNumArray", data=TabT(index="any", chromosome=CHROM, start=Int, end=Int, gene=GENE, log2=Real), meta=DictT(),
             groups=SeqT(TupT(CHROM, _GBIN)))

_T = "self.groups[i][1].data"
# item j is rows [lo, lo+len) of chromosome i's table, with consecutive row labels starting at lo
_SLICE = ("(len(out_[j][1].data) >= 1 and 0 <= out_[j][1].data.index[0] and "
          "out_[j][1].data.index[0] + len(out_[j][1].data) <= len(T) and "
          "forall(0, len(out_[j][1].data), lambda m: out_[j][1].data.index[m] == out_[j][1].data.index[0] + m and "
          "out_[j][1].data.start[m] == T.start[out_[j][1].data.index[0] + m] and out_[j][1].data.end[m] == T.end[out_[j][1].data.index[0] + m] and "
          "out_[j][1].data.gene[m] == T.gene[out_[j][1].data.index[0] + m] and out_[j][1].data.chromosome[m] == T.chromosome[out_[j][1].data.index[0] + m]))"
          ).replace("T", _T)
_IGN = "('-', '.', 'CGH', 'Antitarget', 'Background')"
_LOJ = "out_[j][1].data.index[0]"
_LENJ = "len(out_[j][1].data)"
# the items of one chromosome follow each other without gap or overlap, the first starts at row 0, and an item followed by
# another chromosome's item ends at its table's end; chromosomes come in order
_TILING = ("forall(0, len(out_), lambda j: implies(j + 1 < len(out_), src_[j][0] <= src_[j + 1][0] and "
           "ite(src_[j][0] == src_[j + 1][0], out_[j + 1][1].data.index[0] == LOJ + LENJ, "
           "out_[j + 1][1].data.index[0] == 0 and LOJ + LENJ == len(self.groups[src_[j][0]][1].data))) and "
           "implies(j == 0, LOJ == 0))").replace("LOJ", _LOJ).replace("LENJ", _LENJ)
# a gene's item runs from that gene's first to its last bin and no bin of the gene lies outside it; an Antitarget item holds
# only bins with ignored names
_LABELS_A = ("forall(0, len(out_), lambda j: implies(out_[j][0] in IGN, out_[j][0] == 'Antitarget' and "
             "forall(0, len(out_[j][1].data), lambda m: out_[j][1].data.gene[m] in IGN)))").replace("IGN", _IGN)
_LABELS_G = ("forall(0, len(out_), lambda j: let(lambda i: implies(out_[j][0] not in IGN, "
             "out_[j][1].data.gene[0] == out_[j][0] and out_[j][1].data.gene[len(out_[j][1].data) - 1] == out_[j][0] and "
             "forall(0, len(T), lambda p: implies(T.gene[p] == out_[j][0], LOJ <= p and p < LOJ + LENJ))), src_[j][0]))"
             ).replace("IGN", _IGN).replace("T", _T).replace("LOJ", _LOJ).replace("LENJ", _LENJ)
# entries of the gene map of the current chromosome's table (what _get_gene_map returned)
_GM = "local_genemap"

contract(
    "skgenome/gary.py::GenomicArray._get_gene_map",
    params=dict(self=_GBIN),
    returns=SeqT(TupT(GENE, VecT(Int, kind="list"))),
    trusted=True, requires=[],
    ensures=[
        ("entries", "forall(0, len(result), lambda e: len(result[e][1]) >= 1 and forall(0, len(result[e][1]), lambda m: "
                    "0 <= result[e][1][m] and result[e][1][m] < len(self.data) and self.data.gene[result[e][1][m]] == result[e][0] and "
                    "forall(0, len(result[e][1]), lambda m2: implies(m < m2, result[e][1][m] < result[e][1][m2]))))"),
        ("every_row_listed", "forall(0, len(self.data), lambda p: let(lambda e, m: 0 <= e and e < len(result) and 0 <= m and m < len(result[e][1]) and "
                             "result[e][1][m] == p, uf_int('gm_entry', p), uf_int('gm_pos', p)))"),
        ("row_between_first_and_last_of_its_gene", "forall(0, len(self.data), lambda p: let(lambda e: result[e][0] == self.data.gene[p] and "
                                                   "result[e][1][0] <= p and p <= result[e][1][len(result[e][1]) - 1], uf_int('gm_entry', p)))"),
        ("names_distinct_in_order_of_first_row", "forall(0, len(result), lambda e: forall(0, len(result), lambda e2: implies(e < e2, "
                                                 "result[e][0] != result[e2][0] and result[e][1][0] < result[e2][1][0])))"),
    ],
    props=(), domain="skip",
    notes="assumed: ordered mapping gene -> ascending row positions of that gene, keys in order of first appearance (names "
          "without commas: one name per bin)",
)

# the statement's premise: a named gene's bins are consecutive, possibly interrupted only by ignored-name bins
_CONSEC = ("forall(0, len(self.groups), lambda i: len(T) >= 1 and forall(0, len(T), lambda p: forall(0, len(T), lambda q: forall(0, len(T), lambda s: "
           "implies(p < q and q < s and T.gene[p] == T.gene[s] and T.gene[p] not in IGN, T.gene[q] == T.gene[p] or T.gene[q] in IGN)))))"
           ).replace("T", _T).replace("IGN", _IGN)

contract(
    "cnvlib/cnary.py::CopyNumArray.by_gene",
    params=dict(self=_GARR, ignore=Lit(("-", ".", "CGH"))),
    yields=TupT(GENE, _GBIN),
    requires=[_CONSEC],
    loops={
        0: dict(inv=[("items_are_slices", "forall(0, len(out_), lambda j: let(lambda i: 0 <= i and i < i_ and SLICE, src_[j][0]))".replace("SLICE", _SLICE)),
                     ("tiling", _TILING),
                     ("antitarget_items_hold_ignored_names", _LABELS_A),
                     ("gene_items_span_first_to_last_bin", _LABELS_G),
                     # no chromosome is skipped: chromosome indices start at 0, step by at most one, and the last item belongs
                     # to the last chromosome done and reaches that table's end
                     ("chromosomes_done_are_complete", "ite(len(out_) > 0, let(lambda j: LOJ + LENJ == len(self.groups[src_[j][0]][1].data) and "
                                                       "src_[j][0] == i_ - 1, len(out_) - 1) and src_[0][0] == 0, i_ == 0) and "
                                                       "forall(0, len(out_), lambda j: implies(j + 1 < len(out_), src_[j + 1][0] <= src_[j][0] + 1))"
                                                       .replace("LOJ", _LOJ).replace("LENJ", _LENJ)),
                     ]),
        1: dict(inv=[("items_are_slices", "forall(0, len(out_), lambda j: let(lambda i: 0 <= i and i <= i0_ and SLICE, src_[j][0]))".replace("SLICE", _SLICE)),
                     ("cursor", "0 <= prev_idx and prev_idx <= len(subgary.data) and len(subgary.data) == len(self.groups[i0_][1].data) and "
                                "forall(0, len(subgary.data), lambda p: subgary.data.index[p] == p and subgary.data.start[p] == self.groups[i0_][1].data.start[p] and "
                                "subgary.data.end[p] == self.groups[i0_][1].data.end[p] and subgary.data.gene[p] == self.groups[i0_][1].data.gene[p] and "
                                "subgary.data.chromosome[p] == self.groups[i0_][1].data.chromosome[p])"),
                     ("tiling", _TILING),
                     ("antitarget_items_hold_ignored_names", _LABELS_A),
                     ("gene_items_span_first_to_last_bin", _LABELS_G),
                     # what was yielded for this chromosome so far covers exactly rows [0, prev_idx)
                     ("covered_up_to_cursor", "ite(len(out_) > 0 and src_[len(out_) - 1][0] == i0_, "
                                              "let(lambda j: LOJ + LENJ == prev_idx, len(out_) - 1), "
                                              "prev_idx == 0 and implies(len(out_) > 0, let(lambda j: src_[j][0] < i0_ and "
                                              "LOJ + LENJ == len(self.groups[src_[j][0]][1].data), len(out_) - 1)))"
                                              .replace("LOJ", _LOJ).replace("LENJ", _LENJ)),
                     ("no_chromosome_skipped", "forall(0, len(out_), lambda j: implies(j + 1 < len(out_), src_[j + 1][0] <= src_[j][0] + 1)) and "
                                               "ite(len(out_) > 0, src_[0][0] == 0 and src_[len(out_) - 1][0] >= i0_ - 1, i0_ == 0)"),
                     # rows below the cursor belong to genes already handled, or carry an ignored name
                     ("handled_below_cursor", "forall(0, len(subgary.data), lambda p: implies(p < prev_idx, uf_int('gm_entry', p) < i_ or "
                                              "subgary.data.gene[p] in IGN))".replace("IGN", _IGN)),
                     ("handled_genes_lie_below_cursor", "forall(0, i_, lambda e: implies(iter_[e][0] not in IGN, forall(0, len(iter_[e][1]), lambda m: "
                                                        "iter_[e][1][m] < prev_idx)))".replace("IGN", _IGN)),
                     ("iterating_the_gene_map", "forall(0, len(iter_), lambda e: len(iter_[e][1]) >= 1 and forall(0, len(iter_[e][1]), lambda m: "
                                                "0 <= iter_[e][1][m] and iter_[e][1][m] < len(subgary.data) and subgary.data.gene[iter_[e][1][m]] == iter_[e][0] and "
                                                "forall(0, len(iter_[e][1]), lambda m2: implies(m < m2, iter_[e][1][m] < iter_[e][1][m2])))) and "
                                                "forall(0, len(subgary.data), lambda p: let(lambda e, m: 0 <= e and e < len(iter_) and 0 <= m and m < len(iter_[e][1]) and "
                                                "iter_[e][1][m] == p, uf_int('gm_entry', p), uf_int('gm_pos', p))) and "
                                                "forall(0, len(iter_), lambda e: forall(0, len(iter_), lambda e2: implies(e < e2, "
                                                "iter_[e][0] != iter_[e2][0] and iter_[e][1][0] < iter_[e2][1][0]))) and "
                                                "forall(0, len(subgary.data), lambda p: let(lambda e: iter_[e][0] == subgary.data.gene[p] and "
                                                "iter_[e][1][0] <= p and p <= iter_[e][1][len(iter_[e][1]) - 1], uf_int('gm_entry', p)))"),
                     ]),
    },
    ensures=[("items_are_slices", "forall(0, len(result), lambda j: let(lambda i: 0 <= i and i < len(self.groups) and SLICE, src_[j][0]))"
                                  .replace("SLICE", _SLICE.replace("out_", "result"))),
             # every bin is yielded exactly once: per chromosome the items tile rows 0..len-1 in order
             ("tiling", _TILING.replace("out_", "result")),
             # each gene's item is exactly its first-to-last bins; Antitarget items are the stretches of other bins
             ("antitarget_items_hold_ignored_names", _LABELS_A.replace("out_", "result")),
             ("gene_items_span_first_to_last_bin", _LABELS_G.replace("out_", "result")),
             ("all_chromosomes_complete", ("ite(len(result) > 0, let(lambda j: LOJ + LENJ == len(self.groups[src_[j][0]][1].data) and "
                                           "src_[j][0] == len(self.groups) - 1, len(result) - 1) and src_[0][0] == 0, len(self.groups) == 0) and "
                                           "forall(0, len(result), lambda j: implies(j + 1 < len(result), src_[j + 1][0] <= src_[j][0] + 1))")
                                          .replace("LOJ", _LOJ).replace("LENJ", _LENJ).replace("out_", "result")),
             ],
    props=("C16",), domain="skip", ghost=dict(eager_triggers=True, result_is_field=("self", "gene_items")),
    canaries=[("last_bin_left_out", "end_idx = gene_idx[-1] + 1", "end_idx = gene_idx[-1]"),
              ("cursor_not_advanced", "prev_idx = end_idx", "prev_idx = start_idx"),
              ("telomere_dropped", "if prev_idx < len(subgary):", "if prev_idx < len(subgary) - 1:"),
              ("intergenic_overlaps_gene", "subgary.data.iloc[prev_idx:start_idx]", "subgary.data.iloc[prev_idx:start_idx + 1]"),
              ("ignored_names_become_genes", "if gene not in ignore:", "if True:")],
)


def _with_needs(c, loop, needs):
    out = []
    for ent in c.loops[loop]["inv"]:
        out.append((ent[0], ent[1], needs.get(ent[0])))
    c.loops[loop]["inv"] = out


_BYG = CONTRACTS["cnvlib/cnary.py::CopyNumArray.by_gene"]
_with_needs(_BYG, 1, {'items_are_slices': ['cursor', 'iterating_the_gene_map'], 'cursor': [], 'tiling': ['cursor', 'iterating_the_gene_map', 'covered_up_to_cursor', 'handled_below_cursor'], 'antitarget_items_hold_ignored_names': ['cursor', 'iterating_the_gene_map', 'handled_genes_lie_below_cursor', 'handled_below_cursor'], 'gene_items_span_first_to_last_bin': ['cursor', 'iterating_the_gene_map', 'items_are_slices'], 'covered_up_to_cursor': ['cursor', 'iterating_the_gene_map', 'handled_below_cursor'], 'no_chromosome_skipped': [], 'handled_below_cursor': ['cursor', 'iterating_the_gene_map'], 'handled_genes_lie_below_cursor': ['cursor', 'iterating_the_gene_map', 'handled_below_cursor'], 'iterating_the_gene_map': []})
_with_needs(_BYG, 0, {'items_are_slices': ['cursor'], 'tiling': ['covered_up_to_cursor', 'cursor'], 'antitarget_items_hold_ignored_names': ['cursor', 'iterating_the_gene_map', 'handled_genes_lie_below_cursor', 'handled_below_cursor'], 'gene_items_span_first_to_last_bin': ['cursor', 'items_are_slices'], 'chromosomes_done_are_complete': ['covered_up_to_cursor', 'no_chromosome_skipped', 'cursor', 'tiling']})


# ----------------------------------------------------------------------------- deductive: genemetrics without segments
# group_by_genes turns each named item of the gene-wise iteration into one summary row; gene_metrics_by_gene keeps the
# rows whose weighted mean reaches the threshold.  Each is proved against the (proved) contract of the generator it
# consumes, whose output is modelled as a ghost field of the array (gene_items, gene_rows).
_WB = ObjT("CopyNumArray", data=TabT(index="any", chromosome=CHROM, start=Int, end=Int, gene=GENE, log2=Real, depth=Real, weight=Real),
           meta=DictT())
_WARR = ObjT("CopyNumArray", data=TabT(index="any", chromosome=CHROM, start=Int, end=Int, gene=GENE, log2=Real, depth=Real, weight=Real),
             meta=DictT(), gene_items=SeqT(TupT(GENE, _WB)), groups=SeqT(TupT(CHROM, _WB)))
_GROW = RecT("Series", chromosome=CHROM, start=Int, end=Int, gene=GENE, log2=NReal, depth=Real, weight=Real, probes=Int)
_IT = "cnarr.gene_items[i]"

_RW = "cnarr.gene_items[i][1].data"
_SKIP = "('', 'Antitarget', 'Background')"
# the row reported for item i of the gene-wise iteration
_GROWSPEC = ("(out_[j].gene == cnarr.gene_items[i][0] and out_[j].chromosome == RW.chromosome[0] and out_[j].start == RW.start[0] and "
             "out_[j].end == RW.end[len(RW) - 1] and out_[j].probes == len(RW) and out_[j].weight == sumof(RW.weight) and "
             "out_[j].depth == sumof(Vec(len(RW), lambda k: RW.depth[k] * RW.weight[k])) / sumof(RW.weight) and "
             "not isnull(out_[j].log2) and val(out_[j].log2) == sumof(Vec(len(RW), lambda k: RW.log2[k] * RW.weight[k])) / sumof(RW.weight))"
             ).replace("RW", _RW)
_REPORTED = "(cnarr.gene_items[i][0] not in SKIP and len(RW) >= 1)".replace("SKIP", _SKIP).replace("RW", _RW)

contract(
    "cnvlib/reports.py::group_by_genes",
    params=dict(cnarr=_WARR, skip_low=Lit(False)),
    yields=_GROW,
    requires=[_CONSEC.replace("self.", "cnarr."),
              "forall(0, len(cnarr.gene_items), lambda i: forall(0, len(IT[1].data), lambda k: IT[1].data.weight[k] > 0))".replace("IT", _IT)],
    loops={0: dict(inv=[
        ("rows_summarise_their_gene", "forall(0, len(out_), lambda j: let(lambda i: 0 <= i and i < i_ and REPORTED and GROWSPEC, src_[j][0]))"
                                      .replace("REPORTED", _REPORTED).replace("GROWSPEC", _GROWSPEC)),
        ("in_order", "forall(0, len(out_), lambda a: forall(0, len(out_), lambda b: implies(a < b, src_[a][0] < src_[b][0])))"),
        ("every_named_gene_reported", "forall(0, i_, lambda i: implies(REPORTED, exists(0, len(out_), lambda j: src_[j][0] == i)))"
                                      .replace("REPORTED", _REPORTED)),
    ])},
    ensures=[
        # one row per named gene of the gene-wise iteration, in order: the gene's first start, last end, bin count, summed
        # weight, weight-averaged depth and weighted mean log2
        ("rows_summarise_their_gene", "forall(0, len(result), lambda j: let(lambda i: 0 <= i and i < len(cnarr.gene_items) and REPORTED and GROWSPEC, src_[j][0]))"
                                      .replace("REPORTED", _REPORTED).replace("GROWSPEC", _GROWSPEC.replace("out_", "result"))),
        ("in_order", "forall(0, len(result), lambda a: forall(0, len(result), lambda b: implies(a < b, src_[a][0] < src_[b][0])))"),
        ("every_named_gene_reported", "forall(0, len(cnarr.gene_items), lambda i: implies(REPORTED, exists(0, len(result), lambda j: src_[j][0] == i)))"
                                      .replace("REPORTED", _REPORTED)),
    ],
    props=("C16",), domain="skip",
    ghost=dict(eager_triggers=True, callee_clauses={"cnvlib/cnary.py::CopyNumArray.by_gene": []},
               result_is_field=("cnarr", "gene_rows")),
    canaries=[("end_of_first_bin", 'outrow["end"] = rows.end.iat[-1]', 'outrow["end"] = rows.end.iat[0]'),
              ("weight_of_first_bin", 'outrow["weight"] = rows["weight"].sum()', 'outrow["weight"] = rows["weight"].iat[0]'),
              ("unweighted_depth", 'np.average(rows["depth"], weights=rows["weight"])', 'rows["depth"].mean()'),
              ("antitarget_reported", "if not rows or gene in ignore:", "if not rows:")],
    notes="verified for skip_low=False and positive bin weights; the gene-wise iteration is the ghost field cnarr.gene_items "
          "(= what by_gene yields, itself proved)",
)


_RARR = ObjT("CopyNumArray", data=TabT(index="any", chromosome=CHROM, start=Int, end=Int, gene=GENE, log2=Real, depth=Real, weight=Real),
             meta=DictT(), gene_items=SeqT(TupT(GENE, _WB)), groups=SeqT(TupT(CHROM, _WB)), gene_rows=SeqT(_GROW))
_KEPT = "(abs(val(cnarr.gene_rows[i].log2)) >= threshold and cnarr.gene_rows[i].gene != '')"

contract(
    "cnvlib/reports.py::gene_metrics_by_gene",
    params=dict(cnarr=_RARR, threshold=Real, skip_low=Lit(False)),
    yields=_GROW,
    requires=CONTRACTS["cnvlib/reports.py::group_by_genes"].requires +
             ["forall(0, len(cnarr.gene_rows), lambda i: not isnull(cnarr.gene_rows[i].log2))"],
    loops={0: dict(inv=[
        ("rows_reach_the_threshold", "forall(0, len(out_), lambda j: let(lambda i: 0 <= i and i < i_ and KEPT and out_[j] == cnarr.gene_rows[i], src_[j][0]))".replace("KEPT", _KEPT)),
        ("in_order", "forall(0, len(out_), lambda a: forall(0, len(out_), lambda b: implies(a < b, src_[a][0] < src_[b][0])))"),
        ("every_such_gene_reported", "forall(0, i_, lambda i: implies(KEPT, exists(0, len(out_), lambda j: src_[j][0] == i)))".replace("KEPT", _KEPT)),
    ])},
    ensures=[
        # exactly the gene rows whose weighted mean log2 reaches the threshold, unchanged and in order
        ("rows_reach_the_threshold", "forall(0, len(result), lambda j: let(lambda i: 0 <= i and i < len(cnarr.gene_rows) and KEPT and result[j] == cnarr.gene_rows[i], src_[j][0]))".replace("KEPT", _KEPT)),
        ("in_order", "forall(0, len(result), lambda a: forall(0, len(result), lambda b: implies(a < b, src_[a][0] < src_[b][0])))"),
        ("every_such_gene_reported", "forall(0, len(cnarr.gene_rows), lambda i: implies(KEPT, exists(0, len(result), lambda j: src_[j][0] == i)))".replace("KEPT", _KEPT)),
    ],
    props=("C16",), domain="skip",
    ghost=dict(eager_triggers=True, callee_clauses={"cnvlib/reports.py::group_by_genes": []}),
    canaries=[("strictly_above", "abs(row.log2) >= threshold", "abs(row.log2) > threshold"),
              ("gains_only", "abs(row.log2) >= threshold", "row.log2 >= threshold")],
    notes="the gene rows are the ghost field cnarr.gene_rows (= what group_by_genes yields, itself proved)",
)

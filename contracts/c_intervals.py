"""Contracts for the interval library: skgenome/{merge,subtract,intersect,subdivide,combiners}.py and the
GenomicArray wrappers in skgenome/gary.py  (C06, C07; reused by C12, C13, C03, C17, C18).

Semantics are by base pairs: cov(T) = {(chromosome, x) | some row has start <= x < end}.
The oracles below are written from the property statements (set algebra on bases), not from the code.
"""
import itertools

from .dsl import *     # noqa
from . import vocab    # noqa


# ----------------------------------------------------------------------------- run-time helpers (lazy imports)
def GA(rows, cols=("chromosome", "start", "end"), sort=True):
    import pandas as pd
    from skgenome import GenomicArray
    df = pd.DataFrame.from_records(list(rows), columns=list(cols))
    if not len(df):
        df = pd.DataFrame({c: pd.Series([], dtype=(object if c in ("chromosome", "gene") else "int64")) for c in cols})
    else:
        df["start"] = df["start"].astype("int64")
        df["end"] = df["end"].astype("int64")
    g = GenomicArray(df)
    if sort and len(df):
        g.sort()
    return g


def cov(table):
    """set of (chromosome, base) covered by a DataFrame / GenomicArray (small coordinates only)"""
    df = table.data if hasattr(table, "data") else table
    out = set()
    for c, s, e in zip(df["chromosome"], df["start"], df["end"]):
        out.update((c, x) for x in range(int(s), int(e)))
    return out


def spans(table):
    df = table.data if hasattr(table, "data") else table
    return [(c, int(s), int(e)) for c, s, e in zip(df["chromosome"], df["start"], df["end"])]


def is_sorted(table):
    from skgenome.chromsort import sorter_chrom
    k = [(sorter_chrom(c), s, e) for c, s, e in spans(table)]
    return all(a <= b for a, b in zip(k, k[1:]))


_IV4 = [(s, e) for s in range(0, 5) for e in range(s + 1, 5)]
_IV6 = [(s, e) for s in range(0, 7) for e in range(s + 1, 7)]


def _multisets(ivs, kmax):
    out = [()]
    for k in range(1, kmax + 1):
        out += list(itertools.combinations_with_replacement(ivs, k))
    return out


_MS = {}


def _scope(tier):
    """quick: multisets of <= 2 intervals over 0..4 for both tables; thorough: <= 2 x <= 3 over 0..6"""
    if tier not in _MS:
        if tier == "quick":
            a = _multisets(_IV4, 2)
            _MS[tier] = (a, a)
        else:
            _MS[tier] = (_multisets(_IV6, 2), _multisets(_IV6, 3))
    return _MS[tier]


def _pair_from_index(i, tier, rng):
    """exhaustive pair enumeration first; returns None when past the end"""
    A, B = _scope(tier)
    if i >= len(A) * len(B):
        return None
    ia, ib = divmod(i, len(B))
    return A[ia], B[ib]


def _decorate(a_iv, b_iv, rng, with_gene=True):
    """put the enumerated intervals on chr1, sometimes add rows on a second chromosome to either table, and a gene column"""
    mode = rng.choice(["one", "one", "second_in_a", "second_in_b", "second_in_both", "other_only_differs"])
    ra = [("chr1", s, e) for s, e in a_iv]
    rb = [("chr1", s, e) for s, e in b_iv]
    if mode in ("second_in_a", "second_in_both"):
        ra.append(("chr2", rng.randint(0, 2), rng.randint(3, 5)))
    if mode in ("second_in_b", "second_in_both"):
        rb.append(("chr2", rng.randint(0, 3), rng.randint(4, 6)))
    if mode == "other_only_differs":
        rb = [("chr3", s, e) for _c, s, e in rb]
    cols = ("chromosome", "start", "end")
    if with_gene and rng.random() < 0.6:
        names = ["g%d" % k for k in range(len(ra))]
        ra = [r + (names[k],) for k, r in enumerate(ra)]
        cols_a = cols + ("gene",)
    else:
        cols_a = cols
    return GA(ra, cols_a), GA(rb, cols)


def _random_table(rng, nmax=40, chroms=("chr1", "chr2", "chrX"), big=True, gene=False):
    """random sorted table biased toward duplicates, abutting, overlapping and nested rows"""
    rows = []
    n = rng.randint(0, nmax)
    for c in chroms:
        if rng.random() < 0.3:
            continue
        pos = rng.choice([0, 0, 10, 1000])
        for _ in range(rng.randint(0, max(1, n // len(chroms)))):
            kind = rng.random()
            L = rng.choice([1, 2, 5, 50, 100, 1000]) if big else rng.randint(1, 6)
            if kind < 0.2 and rows and rows[-1][0] == c:       # duplicate
                rows.append(rows[-1])
                continue
            if kind < 0.4 and rows and rows[-1][0] == c:       # nested in the previous row
                ps, pe = rows[-1][1], rows[-1][2]
                if pe - ps >= 2:
                    s = rng.randint(ps, pe - 1)
                    e = rng.randint(s + 1, pe)
                    rows.append((c, s, e) + rows[-1][3:])
                    continue
            gap = rng.choice([0, 0, 1, 3, 500]) if kind < 0.8 else -rng.randint(1, max(1, L))
            s = max(0, pos + gap)
            e = s + L
            rows.append((c, s, e) + (("g%d" % rng.randint(0, 5),) if gene else ()))
            pos = max(pos, e)
    cols = ("chromosome", "start", "end") + (("gene",) if gene else ())
    rows = [r if len(r) == len(cols) else r[:3] + (("g0",) if gene else ()) for r in rows]
    return GA(rows, cols)


def _gen_pair(rng, tier, i):
    """exhaustive: every pair of multisets of <= 2 intervals over coordinates 0..4 (quick; thorough: <= 2 x <= 3 over
    0..6), decorated with rows on a second chromosome and a gene column; then random tables of up to 40 rows with
    coordinates to 10^6 biased toward duplicates, abutting, overlapping and nested rows"""
    # the random and structured cases come first, so that a time budget that runs out truncates the exhaustive
    # enumeration rather than them (seed C06_1 was missed on a loaded machine that way)
    n_rand = 400 if tier == "quick" else 4000
    if i >= n_rand:
        p = _pair_from_index(i - n_rand, tier, rng)
        if p is None:
            return None
        a, b = _decorate(p[0], p[1], rng)
        return dict(a=a, b=b)
    if rng.random() < 0.35:
        # one keeper row with 3..6 disjoint exclusions that may or may not reach either edge
        L = rng.choice([12, 40, 1000])
        k = rng.randint(3, 6)
        cuts = sorted(rng.sample(range(0, L + 1), 2 * k))
        ex = [("chr1", cuts[2 * j], cuts[2 * j + 1]) for j in range(k) if cuts[2 * j + 1] > cuts[2 * j]]
        if rng.random() < 0.5 and ex:
            ex[0] = ("chr1", 0, ex[0][2])            # covers the left edge
        if rng.random() < 0.5 and ex:
            ex[-1] = ("chr1", ex[-1][1], L + rng.choice([0, 3]))      # reaches / passes the right edge
        a = GA([("chr1", 0, L, "g0")] + ([("chr2", 0, 5, "g1")] if rng.random() < 0.3 else []), ("chromosome", "start", "end", "gene"))
        return dict(a=a, b=GA(ex))
    small = rng.random() < 0.5
    return dict(a=_random_table(rng, big=not small, gene=rng.random() < 0.5), b=_random_table(rng, big=not small))


def _n_exh(tier):
    A, B = _scope(tier)
    return len(A) * len(B)


def _covx(table):
    """coverage as a sorted list of disjoint maximal (chrom, start, end) runs -- usable for large coordinates"""
    by = {}
    for c, s, e in spans(table):
        by.setdefault(c, []).append((s, e))
    out = {}
    for c, iv in by.items():
        iv.sort()
        m = []
        for s, e in iv:
            if e <= s:
                continue
            if m and s <= m[-1][1]:
                m[-1][1] = max(m[-1][1], e)
            else:
                m.append([s, e])
        out[c] = [tuple(x) for x in m]
    return out


def _runs_minus(A, B):
    out = {}
    for c, runs in A.items():
        res = []
        bl = B.get(c, [])
        for s, e in runs:
            cur = s
            for bs, be in bl:
                if be <= cur or bs >= e:
                    continue
                if bs > cur:
                    res.append((cur, bs))
                cur = max(cur, be)
                if cur >= e:
                    break
            if cur < e:
                res.append((cur, e))
        if res:
            out[c] = res
    return out


def _runs_and(A, B):
    out = {}
    for c, runs in A.items():
        res = []
        for s, e in runs:
            for bs, be in B.get(c, []):
                lo, hi = max(s, bs), min(e, be)
                if lo < hi:
                    res.append((lo, hi))
        if res:
            out[c] = sorted(res)
    return out


def _nonempty(d):
    return {c: r for c, r in d.items() if r}


# ----------------------------------------------------------------------------- C06: merge
def _chk_merge(args, res, old):
    a = old["a"]
    if isinstance(res, tuple):
        # (merge(), merge(bp)) for a required overlap bp > 0: whatever is joined, the covered bases stay the union
        res, res_bp, bp = res
        if _nonempty(_covx(res_bp)) != _nonempty(_covx(a)):
            return "merge(bp=%d) changes the covered bases: %r -> %r" % (bp, spans(a), spans(res_bp))
        if not is_sorted(res_bp):
            return "merge(bp=%d) output not sorted: %r" % (bp, spans(res_bp))
    if _nonempty(_covx(res)) != _nonempty(_covx(a)):
        return "merge changes the covered bases: %r -> %r" % (spans(a), spans(res))
    sp = spans(res)
    if not is_sorted(res):
        return "merge output not sorted: %r" % (sp,)
    for (c1, s1, e1), (c2, s2, e2) in zip(sp, sp[1:]):
        if c1 == c2 and s2 <= e1:
            return "merge output rows overlap or abut: %r" % (sp,)
    if any(e <= s for _c, s, e in sp):
        return "merge output has an empty row: %r" % (sp,)


contract("skgenome/gary.py::GenomicArray.merge", params=dict(a=ObjT("GenomicArray")), bounded=True, gen=_gen_pair,
         call=lambda fn, a: (a["a"].merge(), a["a"].merge(bp=1 + (len(a["b"]) % 3)), 1 + (len(a["b"]) % 3)),
         props=("C06", "C12"), checks=[("union_minimal_sorted", _chk_merge)],
         notes="merge() and merge(bp) with bp in 1..3 (taken from the size of the second table of the pair)")


# ----------------------------------------------------------------------------- C06: flatten
def _chk_flatten(args, res, old):
    a = old["a"]
    if _nonempty(_covx(res)) != _nonempty(_covx(a)):
        return "flatten changes the covered bases: %r -> %r" % (spans(a), spans(res))
    sp = spans(res)
    by = {}
    for c, s, e in sp:
        if e <= s:
            return "flatten output has an empty row: %r" % (sp,)
        by.setdefault(c, []).append((s, e))
    for c, iv in by.items():
        for (s1, e1), (s2, e2) in zip(iv, iv[1:]):
            if s2 < e1:
                return "flatten pieces overlap or are unsorted on %s: %r" % (c, iv)
    # cut at every input boundary: no input start/end lies strictly inside an output piece
    cuts = {}
    for c, s, e in spans(a):
        cuts.setdefault(c, set()).update((s, e))
    for c, s, e in sp:
        for x in cuts.get(c, ()):
            if s < x < e:
                return "piece %r is not cut at input boundary %d (input %r)" % ((c, s, e), x, spans(a))


contract("skgenome/gary.py::GenomicArray.flatten", params=dict(a=ObjT("GenomicArray")), bounded=True, gen=_gen_pair,
         call=lambda fn, a: a["a"].flatten(), props=("C06",), checks=[("disjoint_pieces_cut_at_boundaries", _chk_flatten)])


# ----------------------------------------------------------------------------- C06: subtract
def _chk_subtract(args, res, old):
    a, b = old["a"], old["b"]
    want = _nonempty(_runs_minus(_covx(a), _covx(b)))
    got = _nonempty(_covx(res))
    if want != got:
        return "a.subtract(b) covers %r, expected a minus b = %r  (a=%r, b=%r)" % (got, want, spans(a), spans(b))
    # each piece lies inside a row of `a` whose other fields it carries
    extra = [c for c in a.data.columns if c not in ("chromosome", "start", "end")]
    arows = list(a.data.itertuples(index=False))
    for row in res.data.itertuples(index=False):
        if row.end <= row.start:
            return "empty piece %r" % (row,)
        ok = False
        for r in arows:
            if r.chromosome == row.chromosome and r.start <= row.start and row.end <= r.end and \
                    all(getattr(r, c) == getattr(row, c) for c in extra):
                ok = True
                break
        if not ok:
            return "piece %r is not inside a row of a with the same other fields (a=%r)" % (tuple(row), [tuple(r) for r in arows])
    if list(res.data.columns) != list(a.data.columns):
        return "columns changed: %r" % (list(res.data.columns),)


contract("skgenome/gary.py::GenomicArray.subtract#rt", params=dict(a=ObjT("GenomicArray"), b=ObjT("GenomicArray")),
         bounded=True, gen=_gen_pair, call=lambda fn, a: a["a"].subtract(a["b"]), props=("C06", "C12", "C13"),
         checks=[("difference_of_base_sets", _chk_subtract)])


# ----------------------------------------------------------------------------- C06: intersection(trim)
def _chk_trim(args, res, old):
    a, b = old["a"], old["b"]
    want = _nonempty(_runs_and(_covx(a), _covx(b)))
    got = _nonempty(_covx(res))
    if want != got:
        return "intersection(trim) covers %r, expected a AND b = %r (a=%r, b=%r)" % (got, want, spans(a), spans(b))


contract("skgenome/gary.py::GenomicArray.intersection", params=dict(a=ObjT("GenomicArray"), b=ObjT("GenomicArray")),
         bounded=True, gen=_gen_pair,
         call=lambda fn, a: (a["a"].intersection(a["b"], mode="trim") if len(a["a"]) and len(a["b"]) and
                             (set(a["a"].chromosome) & set(a["b"].chromosome)) and
                             _runs_and(_covx(a["a"]), _covx(a["b"])) else a["a"][:0]),
         props=("C06", "C07"), checks=[("and_of_base_sets", _chk_trim)],
         notes="called only when the two tables share at least one base (pd.concat of no chunks raises otherwise; "
               "the statement speaks of the covered set, which is then empty)")


# ----------------------------------------------------------------------------- C06: subdivide
def _gen_subdivide(rng, tier, i):
    """region tables (overlapping, nested, abutting) x avg_size 1..2000 x min_size 0..avg"""
    small = rng.random() < 0.5
    a = _random_table(rng, nmax=12, big=not small, gene=rng.random() < 0.5)
    avg = rng.choice([1, 2, 3, 5, 7, 10, 100, 333, 2000]) if not small else rng.randint(1, 6)
    mn = rng.choice([0, 0, 1, avg // 2, avg, rng.randint(0, avg)])
    return dict(a=a, avg=avg, mn=mn)


def _chk_subdivide(args, res, old):
    a, avg, mn = old["a"], old["avg"], old["mn"]
    merged = _covx(a)
    got = {}
    for c, s, e in spans(res):
        got.setdefault(c, []).append((s, e))
    for c, runs in merged.items():
        mine = sorted(got.get(c, []))
        for s, e in runs:
            span = e - s
            pieces = [p for p in mine if s <= p[0] and p[1] <= e]
            if span < mn:
                if pieces:
                    return "region %r below the minimum size %d is not dropped: %r" % ((c, s, e), mn, pieces)
                continue
            n = max(1, int(round(span / avg)))
            if len(pieces) != n:
                return "region %r (span %d, avg %d) cut into %d bins, expected %d" % ((c, s, e), span, avg, len(pieces), n)
            if pieces[0][0] != s or pieces[-1][1] != e or any(p[1] != q[0] for p, q in zip(pieces, pieces[1:])):
                return "bins of %r are not consecutive/covering: %r" % ((c, s, e), pieces)
            sizes = [q - p for p, q in pieces]
            if max(sizes) - min(sizes) > 1 or min(sizes) < span // n or max(sizes) > -(-span // n):
                return "bins of %r are not equal (+-1): sizes %r" % ((c, s, e), sizes)
    want = sum(max(1, int(round((e - s) / avg))) for c, runs in merged.items() for s, e in runs if e - s >= mn)
    if len(res) != want:
        return "%d bins, expected %d" % (len(res), want)


contract("skgenome/gary.py::GenomicArray.subdivide#rt", params=dict(a=ObjT("GenomicArray"), avg=Int, mn=Int), bounded=True,
         gen=_gen_subdivide, call=lambda fn, a: a["a"].subdivide(a["avg"], a["mn"]), props=("C06", "C12"),
         checks=[("equal_split_of_merged_regions", _chk_subdivide)])


# ----------------------------------------------------------------------------- C06: resize_ranges
def _gen_resize(rng, tier, i):
    """tables (also filtered views with a non-default row index) x bp in -600..600 x chromosome sizes (or none)"""
    a = _random_table(rng, nmax=15, big=rng.random() < 0.6, gene=rng.random() < 0.3)
    if len(a) > 2 and rng.random() < 0.4:
        a = a[a.data.index % 2 == rng.randint(0, 1)]      # filtered receiver: row labels are not positions
    bp = rng.choice([-600, -50, -3, -2, -1, 0, 1, 2, 10, 500]) if rng.random() < 0.8 else rng.randint(-600, 600)
    sizes = None
    if rng.random() < 0.5 and len(a):
        sizes = {c: int(a.data[a.data.chromosome == c].end.max()) + rng.choice([0, 1, 5, 1000]) for c in set(a.chromosome)}
    return dict(a=a, bp=bp, sizes=sizes)


def _chk_resize(args, res, old):
    a, bp, sizes = old["a"], old["bp"], old["sizes"]
    want = []
    for row in a.data.itertuples(index=False):
        s = max(0, row.start - bp)
        e = max(0, row.end + bp)
        if sizes:
            s = min(s, sizes[row.chromosome])
            e = min(e, sizes[row.chromosome])
        if bp < 0 and e - s <= 0:
            continue
        want.append(tuple(row._replace(start=s, end=e)))
    got = [tuple(r) for r in res.data.itertuples(index=False)]
    if got != want:
        return "resize_ranges(%d, %r): got %r, expected %r" % (bp, sizes, got[:6], want[:6])


contract("skgenome/gary.py::GenomicArray.resize_ranges#rt", params=dict(a=ObjT("GenomicArray"), bp=Int), bounded=True,
         gen=_gen_resize, call=lambda fn, a: a["a"].resize_ranges(a["bp"], a["sizes"]), props=("C06", "C12"),
         checks=[("moved_clipped_dropped", _chk_resize)])


# ----------------------------------------------------------------------------- C07: range queries
def hit(mode, s, e, qs, qe):
    """from the statement: outer = overlaps by at least one base; inner = wholly contained"""
    return (e > qs and s < qe) if mode != "inner" else (s >= qs and e <= qe)


def _gen_query(rng, tier, i):
    """exhaustive: <= 2 rows x <= 2 queries over coordinates 0..4 (quick; <= 2 x <= 3 over 0..6 thorough) on 1-2
    chromosomes, all three modes, keep_empty on/off; then random nested/duplicated/abutting tables"""
    mode = ("outer", "inner", "trim")[i % 3]
    keep = bool((i // 3) % 2)
    # random tables (with filtered receivers) first: a time budget that runs out must cut the enumeration, not them
    n_rand = 600 if tier == "quick" else 6000
    if i >= n_rand:
        j = i - n_rand
        p = _pair_from_index(j // 6, tier, rng) if j < 6 * _n_exh(tier) else None
        if p is None:
            return None
        a, b = _decorate(p[0], p[1], rng)
        return dict(a=a, b=b, mode=mode, keep_empty=keep)
    small = rng.random() < 0.6
    single = rng.random() < 0.3
    ch = ("chr1",) if single else ("chr1", "chr2", "chrX")
    a = _random_table(rng, big=not small, gene=True, chroms=ch)
    if len(a) > 2 and rng.random() < 0.4:
        a = a[a.data.index % 2 == rng.randint(0, 1)]      # filtered receiver: index labels are not positions
    return dict(a=a, b=_random_table(rng, nmax=12, big=not small, chroms=ch), mode=mode, keep_empty=keep)


def _expected_groups(a, b, mode, keep_empty):
    """(query row, [expected row tuples]) per query range of b, in b's order (chromosomes grouped in order of appearance)"""
    arows = [tuple(r) for r in a.data.itertuples(index=False)]
    cols = list(a.data.columns)
    ci, si, ei = cols.index("chromosome"), cols.index("start"), cols.index("end")
    out = []
    for q in b.data.itertuples(index=False):
        sel = []
        for r in arows:
            if r[ci] == q.chromosome and hit(mode, r[si], r[ei], q.start, q.end):
                r = list(r)
                if mode == "trim":
                    r[si] = max(r[si], q.start)
                    r[ei] = min(r[ei], q.end)
                sel.append(tuple(r))
        out.append((tuple(q), sel))
    return out


def _chk_by_ranges(args, res, old):
    a, b, mode, keep = old["a"], old["b"], old["mode"], old["keep_empty"]
    if not len(a) or not len(b):
        return None
    exp = _expected_groups(a, b, mode, keep)
    if not keep:
        exp = [g for g in exp if g[1]]
    got = [(tuple(q), [tuple(r) for r in (sub.data.itertuples(index=False) if hasattr(sub, "data") else [])]) for q, sub in res]
    # by_ranges walks b chromosome by chromosome in order of first appearance; b is sorted, so that is b's order
    if got != exp:
        return "by_ranges(mode=%s, keep_empty=%s): got %r, expected %r (a=%r, b=%r)" % (
            mode, keep, got[:4], exp[:4], spans(a), spans(b))


contract("skgenome/gary.py::GenomicArray.by_ranges",
         params=dict(a=ObjT("GenomicArray"), b=ObjT("GenomicArray"), mode=Lit("outer", "inner", "trim"), keep_empty=Bool),
         bounded=True, gen=_gen_query,
         call=lambda fn, a: list(a["a"].by_ranges(a["b"], mode=a["mode"], keep_empty=a["keep_empty"]))
         if len(a["a"]) and len(a["b"]) else [],
         props=("C07",), checks=[("exact_rows_per_query", _chk_by_ranges)])


def _chk_intersection(args, res, old):
    a, b, mode = old["a"], old["b"], old["mode"]
    if mode == "trim" or not len(a) or not len(b):
        return None
    exp = [r for _q, sel in _expected_groups(a, b, mode, False) for r in sel]
    got = [tuple(r) for r in res.data.itertuples(index=False)]
    if got != exp:
        return "intersection(mode=%s): got %r, expected %r (a=%r, b=%r)" % (mode, got[:6], exp[:6], spans(a), spans(b))


contract("prop::C07.intersection_outer_inner",
         params=dict(a=ObjT("GenomicArray"), b=ObjT("GenomicArray"), mode=Lit("outer", "inner")),
         bounded=True, gen=_gen_query,
         call=lambda fn, a: a["a"].intersection(a["b"], mode=a["mode"]) if a["mode"] != "trim" and len(a["a"]) and len(a["b"])
         else a["a"],
         props=("C07",), checks=[("exact_rows_concatenated", _chk_intersection)],
         notes="GenomicArray.intersection with mode outer/inner (index-label path); also exercised on a filtered "
               "(non-default index) receiver by the gen of in_range below")


def _gen_in_range(rng, tier, i):
    """tables (also filtered views with a non-default index) x chromosome x start/end (None or value) x mode"""
    if i >= (1500 if tier == "quick" else 20000):
        return None
    small = rng.random() < 0.7
    a = _random_table(rng, big=not small, gene=True, chroms=("chr1",) if rng.random() < 0.4 else ("chr1", "chr2"))
    if len(a) > 2 and rng.random() < 0.4:
        a = a[a.data.index % 2 == rng.randint(0, 1)]      # filtered view: index labels are not positions
    chroms = sorted(set(a.chromosome)) or ["chr1"]
    chrom = rng.choice(chroms)
    hi = (int(a.end.max()) + 2) if len(a) else 5
    start = rng.choice([None, 0, rng.randint(0, hi)])
    end = rng.choice([None, rng.randint(0, hi), hi])
    if start is not None and end is not None and end < start:
        start, end = end, start
    return dict(a=a, chrom=chrom, start=start, end=end, mode=rng.choice(["outer", "inner", "trim"]))


def _chk_in_range(args, res, old):
    a, chrom, start, end, mode = old["a"], old["chrom"], old["start"], old["end"], old["mode"]
    qs = 0 if start is None else start
    qe = float("inf") if end is None else end
    cols = list(a.data.columns)
    exp = []
    for r in a.data.itertuples(index=False):
        if r.chromosome == chrom and hit(mode, r.start, r.end, qs, qe):
            if mode == "trim":
                r = r._replace(start=max(r.start, qs), end=int(min(r.end, qe)))
            exp.append(tuple(r))
    got = [tuple(r) for r in res.data.itertuples(index=False)]
    if got != exp:
        return "in_range(%r, %r, %r, %s): got %r, expected %r (table %r)" % (chrom, start, end, mode, got[:6], exp[:6], spans(a))


contract("skgenome/gary.py::GenomicArray.in_range", params=dict(a=ObjT("GenomicArray")), bounded=True, gen=_gen_in_range,
         call=lambda fn, a: a["a"].in_range(a["chrom"], a["start"], a["end"], a["mode"]) if len(a["a"]) else a["a"],
         props=("C07",), checks=[("exact_rows", _chk_in_range)])


def _gen_into(rng, tier, i):
    """source tables with a string / float / int column x destination ranges x default x summary function"""
    if i >= (1500 if tier == "quick" else 20000):
        return None
    import numpy as np
    small = rng.random() < 0.7
    src = _random_table(rng, big=not small, gene=True)
    kind = rng.choice(["gene", "val", "cnt"])
    df = src.data
    if kind == "val":
        df["val"] = [rng.choice([0.5, 1.25, -2.0, float("nan"), rng.random()]) for _ in range(len(df))]
    elif kind == "cnt":
        df["cnt"] = np.array([rng.randint(0, 9) for _ in range(len(df))], dtype="int64")
    dest = _random_table(rng, nmax=10, big=not small)
    default = {"gene": "-", "val": float("nan"), "cnt": 0}[kind]
    # the statement defines the default summary for strings and floats only; other columns get an explicit function
    func = rng.choice([None, None, "first"]) if kind != "cnt" else "sum"
    return dict(src=src, dest=dest, col=kind, default=default, func=func)


def _call_into(fn, a):
    f = {None: None, "first": (lambda s: s.iat[0]), "sum": (lambda s: s.sum())}[a["func"]]
    return a["src"].into_ranges(a["dest"], a["col"], a["default"], f)


def _chk_into(args, res, old):
    import math
    import numpy as np
    src, dest, col, default, func = old["src"], old["dest"], old["col"], old["default"], old["func"]
    if not len(src) or not len(dest):
        return None
    res = list(res)
    if len(res) != len(dest):
        return "%d values for %d query ranges" % (len(res), len(dest))
    for k, q in enumerate(dest.data.itertuples(index=False)):
        vals = [getattr(r, col) for r in src.data.itertuples(index=False)
                if r.chromosome == q.chromosome and hit("outer", r.start, r.end, q.start, q.end)]
        if not vals:
            want = default
        elif len(vals) == 1:
            want = vals[0]
        elif func == "first":
            want = vals[0]
        elif func == "sum":
            want = sum(vals)
        elif col == "gene":
            seen = []
            for v in vals:
                if v not in seen:
                    seen.append(v)
            want = ",".join(seen)
        elif col == "val":
            vv = [v for v in vals if not math.isnan(v)]
            want = float(np.median(vv)) if vv else float("nan")
        else:
            want = vals[0]
        got = res[k]
        same = (got == want) or (isinstance(want, float) and isinstance(got, float) and
                                 ((math.isnan(want) and math.isnan(got)) or abs(want - got) < 1e-12))
        if not same:
            return "into_ranges value %d for %r: got %r, expected %r (hits %r)" % (k, tuple(q), got, want, vals)


contract("skgenome/gary.py::GenomicArray.into_ranges", params=dict(src=ObjT("GenomicArray"), dest=ObjT("GenomicArray")),
         bounded=True, gen=_gen_into, call=_call_into, props=("C07", "C18"), checks=[("one_value_per_query", _chk_into)])


def _chk_iter_ranges_of(args, res, old):
    a, b, mode, keep = old["a"], old["b"], old["mode"], old["keep_empty"]
    if mode == "trim" or not len(a) or not len(b) or "gene" not in a.data.columns:
        return None
    exp = [[r[list(a.data.columns).index("gene")] for r in sel] for _q, sel in _expected_groups(a, b, mode, keep)]
    if not keep:
        exp = [g for g in exp if g]
    got = [list(s) for s in res]
    if got != exp:
        return "iter_ranges_of(gene, %s, %s): got %r, expected %r (a=%r b=%r)" % (mode, keep, got[:5], exp[:5], spans(a), spans(b))


contract("skgenome/gary.py::GenomicArray.iter_ranges_of#rt",
         params=dict(a=ObjT("GenomicArray"), b=ObjT("GenomicArray")), bounded=True, gen=_gen_query,
         call=lambda fn, a: list(a["a"].iter_ranges_of(a["b"], "gene", a["mode"], a["keep_empty"]))
         if a["mode"] != "trim" and len(a["a"]) and len(a["b"]) and "gene" in a["a"].data.columns else [],
         props=("C07", "C03", "C17"), checks=[("column_values_per_query", _chk_iter_ranges_of)])


# ----------------------------------------------------------------------------- deductive: resize_ranges
CHROM = Atom("Chrom")
GENE = Atom("Gene")
_GA = ObjT("GenomicArray", data=TabT(index="range", chromosome=CHROM, start=Int, end=Int, gene=GENE), meta=DictT())
_NS = "clip3(self.data.start[k] - bp, 0, UP)"
_NE = "clip3(self.data.end[k] + bp, 0, UP)"


@spec
def clip3(x, lo, hi):
    """x clipped to [lo, hi]; hi None = unbounded above"""
    return (lo if x < lo else x) if hi is None else (lo if x < lo else (hi if x > hi else x))


def _resize_contract(with_sizes):
    up = "(None if chrom_sizes is None else chrom_sizes(self.data.chromosome[k]))" if with_sizes else "None"
    ns, ne = _NS.replace("UP", up), _NE.replace("UP", up)
    return [
        ("rows_are_resized_inputs", ("forall(0, len(result.data), lambda j: let(lambda k: 0 <= k and k < len(self.data) and "
                                     "result.data.chromosome[j] == self.data.chromosome[k] and result.data.gene[j] == self.data.gene[k] and "
                                     "result.data.start[j] == NS and result.data.end[j] == NE and implies(bp < 0, NE - NS > 0), "
                                     "result.data.index[j]))").replace("NS", ns).replace("NE", ne)),
        ("in_order", "forall(0, len(result.data), lambda a: forall(0, len(result.data), lambda b: "
                     "implies(a < b, result.data.index[a] < result.data.index[b])))"),
        ("every_surviving_interval_kept", ("forall(0, len(self.data), lambda k: implies(bp >= 0 or NE - NS > 0, "
                                           "exists(0, len(result.data), lambda j: result.data.index[j] == k)))").replace("NS", ns).replace("NE", ne)),
    ]


contract(
    "skgenome/gary.py::GenomicArray.resize_ranges",
    params=dict(self=_GA, bp=Int, chrom_sizes=Opt(FuncT("chrom_size_of", args=(CHROM,), ret=Int))),
    returns=ObjT("GenomicArray", data=TabT(index="masked", chromosome=CHROM, start=Int, end=Int, gene=GENE), meta=DictT()),
    requires=["chrom_sizes is None or forall(0, len(self.data), lambda k: chrom_sizes(self.data.chromosome[k]) >= 0)"],
    ensures=_resize_contract(True),
    notes="chrom_sizes (a dict in the real call) is modelled as a total function from chromosome names to sizes: a name "
          "missing from the dict is outside the model",
    props=("C06", "C12"), domain="skip",
    canaries=[("no_upper_clip", 'limits["upper"] = self.chromosome.map(chrom_sizes)', 'pass'),
              ("no_lower_clip", 'limits = {"lower": 0}', 'limits = {"lower": -1000000000}'),
              ("end_not_moved", '(table["end"] + bp)', '(table["end"])'),
              ("keep_empty", '> 0', '>= 0'),
              ("shrink_wrong_sign", '(table["start"] - bp)', '(table["start"] + bp)')],
)


# ----------------------------------------------------------------------------- deductive: row selection kernels (C07)
@spec
def hitq(mode, s, e, qs, qe):
    """the statement's selection rule with open sides: outer = overlap by at least one base, inner = containment"""
    return ((qs is None or (some(qs) == 0) or (e > some(qs) if mode == "outer" else s >= some(qs))) and
            (qe is None or (s < some(qe) if mode == "outer" else e <= some(qe))))


_TAB = TabT(index="range", chromosome=CHROM, start=Int, end=Int)
_SEL_ENS = ("forall(0, len(SEQ), lambda q: forall(0, len(table), lambda k: "
            "SEQ[q][0][k] == hitq(mode, table.start[k], table.end[k], starts[q], ends[q])))")

contract(
    "skgenome/intersect.py::_irange_nested",
    params=dict(table=_TAB, starts=VecT(Opt(Int), kind="list"), ends=VecT(Opt(Int), kind="list"), mode=Lit("inner", "outer")),
    yields=TupT(VecT(Bool), Opt(Int), Opt(Int)),
    requires=["len(starts) == len(ends)", "len(starts) > 0", "nondecreasing(table.start)",
              "forall(0, len(table), lambda k: 0 <= table.start[k] and table.start[k] < table.end[k])",
              "forall(0, len(starts), lambda q: starts[q] is None or some(starts[q]) >= 0)"],
    ensures=[
        ("one_mask_per_query", "len(result) == len(starts)"),
        ("mask_length", "forall(0, len(result), lambda q: len(result[q][0]) == len(table))"),
        ("selected_iff_hit", _SEL_ENS.replace("SEQ", "result")),
    ],
    loops={0: dict(inv=[("count", "len(out_) == i_"),
                        ("mask_length", "forall(0, i_, lambda q: len(out_[q][0]) == len(table))"),
                        ("selected_iff_hit", _SEL_ENS.replace("len(SEQ)", "i_").replace("SEQ", "out_"))])},
    props=("C07",), domain="skip",
    canaries=[("inner_end_lt", "table.end.values <= end_val", "table.end.values < end_val"),
              ("outer_start_ge", "table.end.values > start_val", "table.end.values >= start_val"),
              ("outer_end_left_of", "region_mask[int(end_idx) :] = 0", "region_mask[int(end_idx) + 1 :] = 0")],
)

_SIMPLE_ENS = ("forall(0, len(SEQ), lambda q: forall(0, len(table), lambda k: "
               "(SEQ[q][0].start <= k and k < SEQ[q][0].stop) == "
               "hitq(mode, table.start[k], table.end[k], ite(starts is None, 0, starts[q]), ite(ends is None, None, ends[q]))))")

contract(
    "skgenome/intersect.py::_irange_simple",
    params=dict(table=_TAB, starts=Opt(VecT(Int, kind="series")), ends=Opt(VecT(Int, kind="series")), mode=Lit("inner", "outer")),
    yields=TupT(SliceT(), Int, Opt(Int)),
    # the condition under which idx_ranges dispatches here: ends (and starts) of the table rows are sorted
    requires=["nondecreasing(table.start)", "nondecreasing(table.end)",
              "forall(0, len(table), lambda k: 0 <= table.start[k] and table.start[k] < table.end[k])",
              "starts is None or ends is None or len(starts) == len(ends)",
              "starts is None or len(starts) > 0", "ends is None or len(ends) > 0",
              "starts is None or forall(0, len(starts), lambda q: starts[q] >= 0)"],
    ensures=[
        ("one_slice_per_query", "len(result) == ite(starts is None, ite(ends is None, 1, len(ends)), len(starts))"),
        ("selected_iff_hit", _SIMPLE_ENS.replace("SEQ", "result")),
    ],
    loops={0: dict(inv=[("count", "len(out_) == i_"),
                        ("selected_iff_hit", _SIMPLE_ENS.replace("len(SEQ)", "i_").replace("SEQ", "out_"))])},
    props=("C07",), domain="skip",
    canaries=[("outer_right_to_left", 'table.end.searchsorted(starts, "right")', 'table.end.searchsorted(starts, "left")'),
              ("inner_end_left", 'end_idxs = table.end.searchsorted(ends, "right")', 'end_idxs = table.end.searchsorted(ends, "left")'),
              ("outer_end_right", "end_idxs = table.start.searchsorted(ends)", 'end_idxs = table.start.searchsorted(ends, "right")')],
)


# ----------------------------------------------------------------------------- deductive: subtraction
# _subtraction is proved against assumed contracts of by_ranges (which rows of the subtrahend overlap each row) and
# merge (sorted, strictly separated cover of exactly the union); subtract() is then proved against _subtraction's
# contract.  Set-of-bases clauses are written pointwise over a base x, guarded by an uninterpreted marker base(x)
# (see uf_bool) so that the solver has a term to instantiate them on.
from .c_call import CHROM, GENE       # noqa: E402

_ROW = RecT("Pandas", chromosome=CHROM, start=Int, end=Int, gene=GENE)
_KEEP = TabT(index="any", chromosome=CHROM, start=Int, end=Int, gene=GENE)
_EXCL = TabT(index="range", chromosome=CHROM, start=Int, end=Int)

# what by_ranges(other, table, "outer", True) hands to _subtraction: one (row, overlapping rows of `other`) pair per row
# of `table` (rows grouped by chromosome: position i of the sequence is row perm(i) of the table)
_PERM = "uf_int('perm', i)"
contract(
    "skgenome/intersect.py::by_ranges",
    params=dict(table=_EXCL, other=_KEEP, mode=Lit("outer"), keep_empty=Lit(True)),
    yields=TupT(_ROW, TabT(index="any", chromosome=CHROM, start=Int, end=Int)),
    trusted=True, requires=[],
    ensures=[
        ("one_pair_per_row", "len(result) == len(other)"),
        ("rows_permuted", "forall(0, len(other), lambda i: 0 <= uf_int('perm', i) and uf_int('perm', i) < len(other) and "
                          "0 <= uf_int('perm_inv', i) and uf_int('perm_inv', i) < len(other) and "
                          "uf_int('perm', uf_int('perm_inv', i)) == i)"),
        ("row_is_table_row", "forall(0, len(result), lambda i: let(lambda q: result[i][0].chromosome == other.chromosome[q] and "
                             "result[i][0].start == other.start[q] and result[i][0].end == other.end[q] and "
                             "result[i][0].gene == other.gene[q], uf_int('perm', i)))"),
        # the overlapping rows of `table` form the block [lo, hi) of its rows (it is sorted and disjoint), in order
        ("block", "forall(0, len(result), lambda i: let(lambda lo, hi: 0 <= lo and lo <= hi and hi <= len(table) and "
                  "len(result[i][1]) == hi - lo and forall(0, hi - lo, lambda m: "
                  "result[i][1].chromosome[m] == table.chromosome[lo + m] and result[i][1].start[m] == table.start[lo + m] and "
                  "result[i][1].end[m] == table.end[lo + m]) and "
                  "forall(0, len(table), lambda r: (lo <= r and r < hi) == (table.chromosome[r] == result[i][0].chromosome and "
                  "table.end[r] > result[i][0].start and table.start[r] < result[i][0].end)), "
                  "uf_int('blk_lo', i), uf_int('blk_hi', i)))"),
    ],
    props=(), domain="skip",
    notes="assumed here (pandas groupby + searchsorted underneath); the same statement is what the bounded C07 contracts "
          "check on generated tables (GenomicArray.by_ranges, outer mode, keep_empty)",
)

_SORTED = ("forall(0, len(T), lambda r: T.start[r] < T.end[r] and forall(0, len(T), lambda r2: "
           "implies(r < r2 and T.chromosome[r] == T.chromosome[r2], T.end[r] < T.start[r2])))")
CONTRACTS["skgenome/intersect.py::by_ranges"].requires = [_SORTED.replace("T", "table").replace("< table.start[r2]", "<= table.start[r2]")]

_Q = "uf_int('perm', i)"
# piece j, yielded while keeper number i was being processed, is a sound piece of table row q = perm(i)
_SOUND = ("(0 <= q and q < len(table) and out_[j].chromosome == table.chromosome[q] and out_[j].gene == table.gene[q] and table.start[q] <= out_[j].start and "
          "out_[j].start < out_[j].end and out_[j].end <= table.end[q] and forall(0, len(other), lambda r: "
          "implies(other.chromosome[r] == table.chromosome[q], other.end[r] <= out_[j].start or out_[j].end <= other.start[r])))")
# base x of table row q is in no row of other
_FREE = ("(uf_bool('base', x) and table.start[q] <= x and x < table.end[q] and forall(0, len(other), lambda r: "
         "not (other.chromosome[r] == table.chromosome[q] and other.start[r] <= x and x < other.end[r])))")
_COVERED = "exists(0, len(out_), lambda j: src_[j][0] == i and out_[j].start <= x and x < out_[j].end)"

contract(
    "skgenome/subtract.py::_subtraction",
    params=dict(table=_KEEP, other=_EXCL),
    yields=_ROW,
    ghost=dict(eager_triggers=True),
    requires=[_SORTED.replace("T", "other"),
              "forall(0, len(table), lambda q: table.start[q] < table.end[q])"],
    loops={
        0: dict(inv=[
            ("pieces_sound", "forall(0, len(out_), lambda j: let(lambda i: 0 <= i and i < i_ and let(lambda q: SOUND, PERM), src_[j][0]))"
                             .replace("SOUND", _SOUND).replace("PERM", _Q)),
            ("rows_done_covered", "forall(0, i_, lambda i: forall(lambda x: let(lambda q: implies(FREE, COVERED), PERM)))"
                                  .replace("FREE", _FREE).replace("COVERED", _COVERED).replace("PERM", _Q)),
        ]),
        1: dict(inv=[
            ("pieces_sound", "forall(0, len(out_), lambda j: let(lambda i: 0 <= i and i <= i0_ and let(lambda q: SOUND, PERM), src_[j][0]))"
                             .replace("SOUND", _SOUND).replace("PERM", _Q)),
            ("rows_done_covered", "forall(0, i0_, lambda i: forall(lambda x: let(lambda q: implies(FREE, COVERED), PERM)))"
                                  .replace("FREE", _FREE).replace("COVERED", _COVERED).replace("PERM", _Q)),
            ("covered_up_to_frontier", "let(lambda i: forall(lambda x: let(lambda q: implies(FREE and x < ite(i_ < len(starts), starts[i_], keeper.end), "
                                       "COVERED), PERM)), i0_)"
                                       .replace("FREE", _FREE).replace("COVERED", _COVERED).replace("PERM", _Q)),
        ]),
    },
    ensures=[
        ("pieces_sound", "forall(0, len(result), lambda j: let(lambda i: 0 <= i and i < len(table) and let(lambda q: SOUND, PERM), src_[j][0]))"
                         .replace("SOUND", _SOUND.replace("out_", "result")).replace("PERM", _Q)),
        ("every_free_base_covered", "forall(0, len(table), lambda i: forall(lambda x: let(lambda q: implies(FREE, COVERED), PERM)))"
                                    .replace("FREE", _FREE).replace("COVERED", _COVERED.replace("out_", "result")).replace("PERM", _Q)),
        # every row of the table is some keeper: perm is onto
        ("every_row_is_a_keeper", "forall(0, len(table), lambda q: 0 <= uf_int('perm_inv', q) and uf_int('perm_inv', q) < len(table) and "
                                  "uf_int('perm', uf_int('perm_inv', q)) == q)"),
    ],
    props=("C06",), domain="skip",
    canaries=[("seed_C06_1", "starts = np.r_[keeper.start, rows_to_exclude.end.values[:-1]]", "starts = np.r_[keeper.start, rows_to_exclude.end.values[:1]]"),
              ("keep_left_flipped", "keep_left = keeper.start < rows_to_exclude.start.iat[0]", "keep_left = keeper.start > rows_to_exclude.start.iat[0]"),
              ("end_not_clipped", "yield keeper._replace(start=start, end=end)", "yield keeper._replace(start=start)"),
              ("slice_dropped", "ends = np.r_[rows_to_exclude.start.values[1:], keeper.end]", "ends = np.r_[rows_to_exclude.start.values, keeper.end]"),
              ("covered_region_kept", "continue", "yield keeper; continue")],
    notes="equivalent mutants (not canaries): `end >= start` and keep_right taken from the first excluded row -- the "
          "strictly separated exclusions make the extra pieces empty, and empty pieces are discarded",
)

# merge: assumed (checked at run time by the bounded C06 contracts): sorted, strictly separated rows covering exactly
# the bases of the input, chromosome by chromosome
_IV3 = TabT(index="any", chromosome=CHROM, start=Int, end=Int)
contract(
    "skgenome/merge.py::merge",
    params=dict(table=_IV3, bp=Lit(0), stranded=Lit(False), combine=Lit(None)),
    returns=_EXCL, trusted=True, requires=[],
    ensures=[
        ("sorted_separated", _SORTED.replace("T", "result")),
        ("covers_input", "forall(0, len(table), lambda r: forall(lambda x: implies(uf_bool('base', x) and table.start[r] <= x and x < table.end[r], "
                         "exists(0, len(result), lambda m: result.chromosome[m] == table.chromosome[r] and result.start[m] <= x and x < result.end[m]))))"),
        ("covers_only_input", "forall(0, len(result), lambda m: forall(lambda x: implies(uf_bool('base', x) and result.start[m] <= x and x < result.end[m], "
                              "exists(0, len(table), lambda r: table.chromosome[r] == result.chromosome[m] and table.start[r] <= x and x < table.end[r]))))"),
    ],
    props=(), domain="skip",
    notes="assumed; the bounded contract of GenomicArray.merge checks the same statement (minimal sorted disjoint "
          "non-abutting cover of exactly the union) on generated tables",
)

_IN_OTHER = "exists(0, len(other), lambda r: other.chromosome[r] == CH and other.start[r] <= x and x < other.end[r])"
contract(
    "skgenome/subtract.py::subtract",
    params=dict(table=_KEEP, other=_IV3),
    returns=TabT(index="range", chromosome=CHROM, start=Int, end=Int, gene=GENE),
    requires=["forall(0, len(table), lambda q: table.start[q] < table.end[q])"],
    ensures=[
        # every base of every output piece lies in a row of `table` with the piece's other fields, and in no row of `other`
        ("only_bases_of_a_not_in_b", "forall(0, len(result), lambda j: forall(lambda x: implies(uf_bool('base', x) and result.start[j] <= x and x < result.end[j], "
                                     "exists(0, len(table), lambda q: table.chromosome[q] == result.chromosome[j] and table.gene[q] == result.gene[j] and "
                                     "table.start[q] <= x and x < table.end[q]) and not IN_OTHER)))".replace("IN_OTHER", _IN_OTHER.replace("CH", "result.chromosome[j]"))),
        # every base of a row of `table` that no row of `other` covers lies in an output piece carrying that row's fields
        ("all_bases_of_a_not_in_b", "forall(0, len(table), lambda q: forall(lambda x: implies(uf_bool('base', x) and table.start[q] <= x and x < table.end[q] "
                                    "and not IN_OTHER, exists(0, len(result), lambda j: result.chromosome[j] == table.chromosome[q] and "
                                    "result.gene[j] == table.gene[q] and result.start[j] <= x and x < result.end[j]))))"
                                    .replace("IN_OTHER", _IN_OTHER.replace("CH", "table.chromosome[q]"))),
        ("pieces_nonempty", "forall(0, len(result), lambda j: result.start[j] < result.end[j])"),
    ],
    props=("C06", "C12", "C13"), domain="skip",
    canaries=[("subtrahend_not_merged", 'other = merge(other.loc[:, ["chromosome", "start", "end"]])', 'other = other.loc[:, ["chromosome", "start", "end"]]'),
              ("arguments_swapped", "_subtraction(table, other)", "_subtraction(other, table)"),
              ],
)


# the method users call: a.subtract(b)
_SUBC = CONTRACTS["skgenome/subtract.py::subtract"]


def _lift(text):
    import re
    return re.sub(r"\bresult\b", "result.data", re.sub(r"\bother\b", "other.data", re.sub(r"\btable\b", "self.data", text)))


contract(
    "skgenome/gary.py::GenomicArray.subtract",
    params=dict(self=ObjT("GenomicArray", data=_KEEP, meta=DictT()), other=ObjT("GenomicArray", data=_IV3, meta=DictT())),
    returns=ObjT("GenomicArray", data=TabT(index="any", chromosome=CHROM, start=Int, end=Int, gene=GENE), meta=DictT()),
    requires=[_lift(r) for r in _SUBC.requires],
    ensures=[(lab, _lift(t)) for lab, t in _SUBC.ensures],
    props=("C06", "C12", "C13"), domain="skip",
    canaries=[("receiver_and_argument_swapped", "subtract(self.data, other.data)", "subtract(other.data, self.data)")],
)


# ----------------------------------------------------------------------------- deductive: the equal split of merged regions
# _split_targets: every merged region of at least the minimum size is cut into max(1, round(length / avg)) bins by the
# formula start + int(d * length / nbins); consequences proved in real arithmetic: bins non-empty, inside their region,
# abutting, of equal size up to one base.

# merged region q (what merge() hands to the loop), its span, the number of bins it is cut into and the (real) bin size
_MS, _ME = "iter0_[q].start", "iter0_[q].end"
_SPAN = "(ME - MS)".replace("ME", _ME).replace("MS", _MS)
_RND = "round(SPAN / avg_size)".replace("SPAN", _SPAN)
_NB = "ite(RND == 0, 1, RND)".replace("RND", _RND)
_BSZ = "(SPAN / NB)".replace("SPAN", _SPAN).replace("NB", _NB)


def _sp(text):
    return (text.replace("BSZ", _BSZ).replace("NB", _NB).replace("SPAN", _SPAN).replace("ME", _ME).replace("MS", _MS))


# entry j of the output was yielded for merged region q = src_[j][0]; d = src_[j][1] is the index of the inner loop, or -1
# for the last (or only) bin of the region.  QI/DI: how far the loops have come.
_BIN_FORMULA = _sp(
    "forall(0, len(out_), lambda j: let(lambda q, d: 0 <= q and (q < QI or (q == QI and 0 <= d and d < DI)) and SPAN >= min_size and "
    "out_[j].chromosome == iter0_[q].chromosome and "
    "ite(d < 0, out_[j].start == MS + ite(NB == 1, 0, int((NB - 1) * BSZ)) and out_[j].end == ME, "
    "d < NB - 1 and out_[j].start == MS + int(d * BSZ) and out_[j].end == MS + int((d + 1) * BSZ)), src_[j][0], src_[j][1]))")
_ALL_EMITTED = _sp(
    "forall(0, QI, lambda q: implies(SPAN >= min_size, exists(0, len(out_), lambda j: src_[j][0] == q and src_[j][1] < 0) and "
    "forall(0, NB - 1, lambda d: implies(uf_bool('bin', d), exists(0, len(out_), lambda j: src_[j][0] == q and src_[j][1] == d)))))")
_CUR_EMITTED = "forall(0, DI, lambda d: implies(uf_bool('bin', d), exists(0, len(out_), lambda j: src_[j][0] == QI and src_[j][1] == d)))"
# consecutive entries: regions in order; inside a region the bins abut, in order of the inner index, the last one (d = -1) last
_ABUT = ("forall(0, len(out_), lambda j: implies(j + 1 < len(out_), src_[j][0] <= src_[j + 1][0] and "
         "implies(src_[j][0] == src_[j + 1][0], out_[j].end == out_[j + 1].start and src_[j][1] >= 0 and "
         "(src_[j + 1][1] < 0 or src_[j + 1][1] == src_[j][1] + 1)) and "
         "implies(src_[j][0] < src_[j + 1][0], src_[j][1] < 0 and src_[j + 1][1] <= 0)))")

contract(
    "skgenome/subdivide.py::_split_targets",
    params=dict(regions=_IV3, avg_size=Int, min_size=Int, verbose=Lit(False)),
    yields=RecT("Pandas", chromosome=CHROM, start=Int, end=Int),
    requires=["avg_size >= 1"],
    loops={
        0: dict(inv=[("bins_by_formula", _BIN_FORMULA.replace("QI", "i_").replace("DI", "0")),
                     ("all_emitted", _ALL_EMITTED.replace("QI", "i_"), ["current_emitted"]),
                     ("abutting", _ABUT),
                     ("previous_region_closed", "implies(len(out_) > 0, src_[len(out_) - 1][0] < i_ and src_[len(out_) - 1][1] < 0)")]),
        1: dict(inv=[("bins_by_formula", _BIN_FORMULA.replace("QI", "i0_").replace("DI", "i_")),
                     ("all_emitted", _ALL_EMITTED.replace("QI", "i0_"), []),
                     ("current_emitted", _CUR_EMITTED.replace("QI", "i0_").replace("DI", "i_"), []),
                     ("abutting", _ABUT),
                     ("next_start", "bin_start == row.start + int(i_ * bin_size)"),
                     ("last_is_previous_bin", "implies(i_ > 0, len(out_) > 0 and src_[len(out_) - 1][0] == i0_ and src_[len(out_) - 1][1] == i_ - 1 and "
                                              "out_[len(out_) - 1].end == bin_start)"),
                     ("previous_region_closed", "implies(len(out_) > 0 and src_[len(out_) - 1][0] < i0_, src_[len(out_) - 1][1] < 0)"),
                     ("none_yet", "implies(i_ == 0, forall(0, len(out_), lambda j: src_[j][0] < i0_))")]),
    },
    ensures=[
        ("bins_by_formula", _BIN_FORMULA.replace("out_", "result").replace("QI", "len(iter0_)").replace("DI", "0")),
        ("all_emitted", _ALL_EMITTED.replace("out_", "result").replace("QI", "len(iter0_)")),
        ("abutting", _ABUT.replace("out_", "result")),
        # consequences of the formula (real arithmetic): every bin is non-empty, inside its merged region, and of the
        # region's length / number of bins up to one base
        ("at_most_one_bin_per_base", _sp("forall(0, len(iter0_), lambda q: 1 <= NB and NB <= SPAN)"), ["sorted_separated", "-path"]),
        ("bin_size_at_least_one", _sp("forall(0, len(iter0_), lambda q: BSZ >= 1 and NB * BSZ == SPAN)"), ["at_most_one_bin_per_base", "-path"]),
        ("bins_nonempty_inside_their_region", _sp("forall(0, len(result), lambda j: let(lambda q: MS <= result[j].start and "
                                                  "result[j].start < result[j].end and result[j].end <= ME, src_[j][0]))"),
         ["bins_by_formula", "bin_size_at_least_one", "at_most_one_bin_per_base", "-path"]),
        ("bin_sizes_equal_up_to_one_base", _sp("forall(0, len(result), lambda j: let(lambda q: BSZ - 1 < result[j].end - result[j].start and "
                                               "result[j].end - result[j].start < BSZ + 1, src_[j][0]))"),
         ["bins_by_formula", "sorted_separated", "-path"]),
    ],
    ghost=dict(chain_ensures=True, nonlinear_clauses=("at_most_one_bin_per_base", "bin_size_at_least_one", "bins_nonempty_inside_their_region", "bin_sizes_equal_up_to_one_base")),
    props=("C12", "C06"), domain="skip",
    canaries=[("end_off_by_one", "bin_end = row.start + int(i * bin_size)", "bin_end = row.start + int(i * bin_size) + 1"),
              ("floor_instead_of_round", "nbins = int(round(span / avg_size)) or 1", "nbins = int(span / avg_size) or 1"),
              ("strict_minimum", "if span >= min_size:", "if span > min_size:"),
              ("last_bin_whole_region", "yield row._replace(start=bin_start)", "yield row"),
              ("one_bin_too_many", "for i in range(1, nbins):", "for i in range(1, nbins + 1):"),
              ("regions_not_merged", "for row in merge(regions).itertuples(index=False):", "for row in regions.itertuples(index=False):")],
    notes="the arithmetic core of GenomicArray.subdivide / `target --split`: real arithmetic for span / nbins and int(i * bin_size); "
          "the table built from these records (pd.DataFrame.from_records) and the cover statement that do_target uses stay "
          "with the assumed contract of GenomicArray.subdivide and its bounded twin",
)


# ----------------------------------------------------------------------------- deductive: idx_ranges, the dispatch between the kernels
# Two contracts on the one function, told apart by the precondition the dispatch itself tests (key suffixes #simple /
# #nested): whichever kernel is chosen, query q selects exactly the rows the statement's rule selects.

_IDX_REQ = ["len(table) > 0", "nondecreasing(table.start)",
            "forall(0, len(table), lambda k: 0 <= table.start[k] and table.start[k] < table.end[k])",
            "len(starts) == len(ends)", "len(starts) > 0", "forall(0, len(starts), lambda q: starts[q] >= 0)"]
contract(
    "skgenome/intersect.py::idx_ranges#simple",
    params=dict(table=_TAB, starts=VecT(Int, kind="series"), ends=VecT(Int, kind="series"), mode=Lit("inner", "outer")),
    yields=TupT(SliceT(), Int, Opt(Int)),
    # the ends of the rows are sorted too (stated pairwise for the callee and neighbour-wise, as the dispatch tests it;
    # the two are equivalent, lemma adjacent_monotone)
    requires=_IDX_REQ + ["nondecreasing(table.end)",
                         "table.end.is_monotonic_increasing"],
    loops={0: dict(inv=[("passed_on", "len(out_) == i_ and forall(0, i_, lambda q: out_[q][0].start == iter_[q][0].start and out_[q][0].stop == iter_[q][0].stop)")])},
    ensures=[
        ("one_selector_per_query", "len(result) == len(starts)"),
        ("selected_iff_hit", "forall(0, len(result), lambda q: forall(0, len(table), lambda k: "
                             "(result[q][0].start <= k and k < result[q][0].stop) == hitq(mode, table.start[k], table.end[k], starts[q], ends[q])))"),
    ],
    props=("C07",), domain="skip",
    canaries=[("dispatch_on_starts", "if not table.end.is_monotonic_increasing:", "if not table.start.is_monotonic_increasing:"),
              ("mode_not_passed_on", "in irange_func(table, starts, ends, mode):", 'in irange_func(table, starts, ends, "outer"):'),
              ("nested_kernel_always", "            irange_func = _irange_simple", "            irange_func = _irange_nested")],
    notes="the dispatch of idx_ranges when the rows' ends are sorted (key suffix #simple: one of two contracts on the same function, split by the precondition the dispatch tests); queries given as two Series",
)

contract(
    "skgenome/intersect.py::idx_ranges#nested",
    params=dict(table=_TAB, starts=VecT(Int, kind="series"), ends=VecT(Int, kind="series"), mode=Lit("inner", "outer")),
    yields=TupT(VecT(Bool), Opt(Int), Opt(Int)),
    # some row is nested in an earlier one: the ends are not sorted
    requires=_IDX_REQ + ["not table.end.is_monotonic_increasing"],
    loops={0: dict(inv=[("passed_on", "len(out_) == i_ and forall(0, i_, lambda q: len(out_[q][0]) == len(iter_[q][0]) and "
                                      "forall(0, len(table), lambda k: out_[q][0][k] == iter_[q][0][k]))")])},
    ensures=[
        ("one_selector_per_query", "len(result) == len(starts)"),
        ("selected_iff_hit", "forall(0, len(result), lambda q: len(result[q][0]) == len(table) and forall(0, len(table), lambda k: "
                             "result[q][0][k] == hitq(mode, table.start[k], table.end[k], starts[q], ends[q])))"),
    ],
    props=("C07",), domain="skip",
    canaries=[("dispatch_on_starts", "if not table.end.is_monotonic_increasing:", "if not table.start.is_monotonic_increasing:"),
              ("mode_not_passed_on", "in irange_func(table, starts, ends, mode):", 'in irange_func(table, starts, ends, "outer"):'),
              ("simple_kernel_always", "            irange_func = _irange_nested", "            irange_func = _irange_simple")],
    notes="the dispatch of idx_ranges when some row is nested in another (ends not sorted): the mask kernel must be chosen",
)

"""Contracts for cnvlib/segmetrics.py and cnvlib/bintest.py  (C17)."""
import math

from .dsl import *     # noqa
from . import vocab    # noqa
from .c_segment import _bin_table


def _case(rng, tier, nmax=None):
    """bin tables and segmentations of them: 1..300 bins per segment (quick: ..60), segments with 0 or 1 bin, ties,
    weights in (0,1]"""
    import pandas as pd
    from cnvlib.cnary import CopyNumArray
    nmax = nmax or (60 if tier == "quick" else 300)
    rows, segs = [], []
    for c in ["chr1", "chr2", "chrX"][:rng.randint(1, 3)]:
        pos = 0
        for _ in range(rng.randint(1, 4)):
            n = rng.choice([0, 1, 1, 2, 3, 8, nmax]) if rng.random() < 0.7 else rng.randint(0, nmax)
            level = rng.choice([-1.0, -0.2, 0.0, 0.3, 0.8])
            s0 = pos
            for _ in range(n):
                L = rng.choice([100, 200])
                lg = level + (rng.choice([0.0, 0.1, -0.1]) if rng.random() < 0.3 else rng.gauss(0, 0.2))
                rows.append(dict(chromosome=c, start=pos, end=pos + L, gene=rng.choice(["A", "B", "Antitarget"]), log2=round(lg, 4),
                                 depth=10.0, weight=rng.choice([1.0, 0.5, 0.9, round(rng.uniform(0.05, 0.99), 3)])))
                pos += L + rng.choice([0, 0, 50])
            if n == 0:
                pos += 500
            segs.append(dict(chromosome=c, start=s0, end=max(pos, s0 + 1), gene="-", log2=level + rng.choice([0, 0.01, -0.05]),
                             probes=n, weight=1.0))
            pos += rng.choice([0, 100])
    if not rows:
        rows.append(dict(chromosome="chr1", start=0, end=100, gene="A", log2=0.1, depth=10.0, weight=0.8))
        segs = [dict(chromosome="chr1", start=0, end=100, gene="-", log2=0.0, probes=1, weight=1.0)]
    return CopyNumArray(pd.DataFrame(rows), {"sample_id": "s"}), CopyNumArray(pd.DataFrame(segs), {"sample_id": "s"})


_LOC = ["mean", "median", "p_ttest"]
_SPREAD = ["stdev", "mad", "mse", "iqr", "bivar", "sem"]


def _gen_metrics(rng, tier, i):
    if i >= (250 if tier == "quick" else 6000):
        return None
    cn, segs = _case(rng, tier)
    return dict(cnarr=cn, segarr=segs, loc=[s for s in _LOC if rng.random() < 0.7] or ["mean"],
                spread=[s for s in _SPREAD if rng.random() < 0.7], interval=[s for s in ("ci", "pi") if rng.random() < 0.8],
                alpha=rng.choice([0.05, 0.1, 0.32, 0.5]), bootstraps=rng.choice([20, 100]), smoothed=rng.random() < 0.4,
                rng_states=(rng.randrange(10 ** 6), rng.randrange(10 ** 6)))


_gen_metrics.__doc__ = _case.__doc__ + "; every subset of statistics, alpha in (0,1), bootstraps"


def _call_metrics(fn, a):
    import warnings
    warnings.simplefilter("ignore")
    from cnvlib import segmetrics
    import numpy as np
    np.random.seed(a["rng_states"][0])
    r1 = segmetrics.do_segmetrics(a["cnarr"], a["segarr"], a["loc"], a["spread"], a["interval"], a["alpha"], a["bootstraps"],
                                  a["smoothed"])
    np.random.seed(a["rng_states"][1])
    np.random.random(7)
    r2 = segmetrics.do_segmetrics(a["cnarr"], a["segarr"], a["loc"], a["spread"], a["interval"], a["alpha"], a["bootstraps"],
                                  a["smoothed"])
    return r1, r2


def _eq(a, b, tol=1e-9):
    if a != a and b != b:
        return True
    if a != a or b != b:
        return False
    return abs(a - b) <= tol * max(1.0, abs(a), abs(b))


def _chk_metrics(args, res, old):
    import warnings
    import numpy as np
    from scipy import stats
    warnings.simplefilter("ignore")
    r1, r2 = res
    cn, segs = old["cnarr"], old["segarr"]
    for c in segs.data.columns:
        if not r1.data[c].equals(segs.data[c]):
            return "input segment column %s changed in the output" % c
    if not r1.data.equals(r2.data):
        return "segmetrics is not reproducible run to run"
    for k, s in enumerate(segs.data.itertuples(index=False)):
        b = cn.data[(cn.data.chromosome == s.chromosome) & (cn.data.end > s.start) & (cn.data.start < s.end)]
        x = b.log2.values.astype(float)
        d = x - s.log2
        row = r1.data.iloc[k]

        def mad(v):
            return float(np.median(np.abs(v - np.median(v))) * 1.4826) if len(v) > 1 else (0.0 if len(v) else float("nan"))
        exp = {}
        if len(x):
            exp.update(mean=float(np.mean(x)), median=float(np.median(x)),
                       stdev=float(np.sqrt(np.mean((d - d.mean()) ** 2))),
                       mse=float(np.mean(d ** 2)) if len(d) > 1 else 0.0,
                       mad=mad(d),
                       iqr=(float(np.percentile(d, 75) - np.percentile(d, 25)) if len(d) > 1 else 0.0),
                       sem=(float(np.std(d, ddof=1) / math.sqrt(len(d))) if len(d) > 1 else float("nan")),
                       p_ttest=(float(stats.ttest_1samp(x, 0.0)[1]) if len(x) > 1 else float("nan")))
        for name in old["loc"] + old["spread"]:
            if name in exp and name != "bivar":
                got = float(row[name])
                if not _eq(got, exp[name], 1e-7):
                    return "segment %r (%d bins): %s=%r, expected %r (bins %r, segment log2 %r)" % (
                        tuple(s)[:3], len(x), name, got, exp[name], x[:6].tolist(), s.log2)
        if "bivar" in old["spread"] and len(x):
            from cnvlib import descriptives as D
            if not _eq(float(row["bivar"]), float(D.biweight_midvariance(d)), 1e-9):
                return "bivar is not the biweight midvariance of the deviations from the segment log2"
        if "pi" in old["interval"] and len(x):
            lo, hi = float(row["pi_lo"]), float(row["pi_hi"])
            elo, ehi = np.percentile(x, [100 * old["alpha"] / 2, 100 * (1 - old["alpha"] / 2)])
            if not (_eq(lo, float(elo)) and _eq(hi, float(ehi))):
                return "prediction interval (%r, %r), expected percentiles (%r, %r)" % (lo, hi, elo, ehi)
            if not (lo <= float(np.median(x)) + 1e-12 and float(np.median(x)) <= hi + 1e-12):
                return "pi_lo <= median <= pi_hi violated: %r %r %r" % (lo, float(np.median(x)), hi)
        if "ci" in old["interval"] and len(x):
            lo, hi = float(row["ci_lo"]), float(row["ci_hi"])
            if not (lo <= hi and (old["smoothed"] or (x.min() - 1e-12 <= lo and hi <= x.max() + 1e-12))):
                return "bootstrap CI (%r, %r) not ordered inside the bins' range [%r, %r]" % (lo, hi, x.min(), x.max())


contract("cnvlib/segmetrics.py::do_segmetrics#rt", params=dict(cnarr=ObjT("CopyNumArray"), segarr=ObjT("CopyNumArray")),
         bounded=True, gen=_gen_metrics, call=_call_metrics, props=("C17",),
         checks=[("statistics_on_the_right_bins", _chk_metrics)])


# ----------------------------------------------------------------------------- Benjamini-Hochberg
def _gen_p(rng, tier, i):
    """all p-value vectors of length 1..200 incl. ties, 0 and 1"""
    import numpy as np
    if i >= (3000 if tier == "quick" else 50000):
        return None
    n = rng.choice([1, 2, 3, 5, 10, 50, 200]) if rng.random() < 0.7 else rng.randint(1, 200)
    pool = [0.0, 1.0, 0.5, 0.05, 0.01, 1e-8]
    p = [rng.choice(pool) if rng.random() < 0.3 else rng.random() ** rng.choice([1, 3]) for _ in range(n)]
    return dict(p=np.array(p, dtype=float))


def _chk_bh(args, q, old):
    import numpy as np
    p = old["p"]
    n = len(p)
    order = np.argsort(p, kind="mergesort")
    ranks = np.empty(n, dtype=float)
    ranks[order] = np.arange(1, n + 1)
    # step-up: q_i = min(1, min over j with p_j >= p_i of n * p_j / rank_j); ties share the largest rank
    exp = np.empty(n)
    for i in range(n):
        best = 1.0
        for j in range(n):
            if p[j] >= p[i]:
                rj = np.sum(p <= p[j])
                best = min(best, n * p[j] / rj)
        exp[i] = best
    q = np.asarray(q, dtype=float)
    if len(q) != n or not np.abs(q - exp).max() <= 1e-12:
        return "BH-adjusted %r, expected %r for p=%r" % (q[:8].tolist(), exp[:8].tolist(), p[:8].tolist())


contract("cnvlib/bintest.py::p_adjust_bh#rt", params=dict(p=VecT(Real)), bounded=True, gen=_gen_p,
         call=lambda fn, a: fn(a["p"].copy()), props=("C17",), checks=[("step_up_definition", _chk_bh)],
         ghost=dict(nmax=60), notes="the O(n^2) oracle limits thorough vectors to what the time budget allows")


def _gen_bintest(rng, tier, i):
    if i >= (200 if tier == "quick" else 4000):
        return None
    cn, segs = _case(rng, tier, nmax=40)
    # every bin inside exactly one segment (residuals() uses inner mode)
    return dict(cnarr=cn, segments=segs if rng.random() < 0.8 else None, alpha=rng.choice([0.005, 0.05, 0.5, 0.99]),
                target_only=rng.random() < 0.5)


_gen_bintest.__doc__ = _case.__doc__ + "; alpha; on-target only on/off; with and without segments"


def _call_bintest(fn, a):
    from cnvlib import bintest
    return bintest.do_bintest(a["cnarr"], a["segments"], a["alpha"], a["target_only"])


def _chk_bintest(args, res, old):
    import numpy as np
    from scipy.stats import norm
    cn, segs = old["cnarr"], old["segments"]
    rows = list(cn.data.itertuples(index=False))
    resid = []
    if segs is None:
        for c in dict.fromkeys(cn.chromosome):
            sub = [r for r in rows if r.chromosome == c]
            med = float(np.median([r.log2 for r in sub]))
            resid += [(r, r.log2 - med) for r in sub]
    else:
        for s in segs.data.itertuples(index=False):
            for r in rows:
                if r.chromosome == s.chromosome and r.start >= s.start and r.end <= s.end:
                    resid.append((r, r.log2 - s.log2))
    if old["target_only"]:
        resid = [(r, d) for r, d in resid if r.gene not in ("Antitarget", "Background")]
    if not resid:
        return None
    p = np.array([2.0 * norm.cdf(-abs(d / math.sqrt(1 - r.weight))) if r.weight < 1 else (0.0 if d != 0 else float("nan"))
                  for r, d in resid])
    if np.isnan(p).any():
        return None
    n = len(p)
    q = np.array([min(1.0, min(n * p[j] / np.sum(p <= p[j]) for j in range(n) if p[j] >= p[i])) for i in range(n)])
    want = [(r.chromosome, r.start, r.end) for (r, d), qi in zip(resid, q) if qi < old["alpha"]]
    got = [(r.chromosome, r.start, r.end) for r in res.data.itertuples(index=False)]
    if got != want:
        return "bintest(alpha=%r, target_only=%s) returns %d bins %r, expected %d %r" % (
            old["alpha"], old["target_only"], len(got), got[:5], len(want), want[:5])
    qd = {k: v for k, v in zip([(r.chromosome, r.start, r.end) for r, d in resid], q)}
    for r in res.data.itertuples(index=False):
        if not abs(r.p_bintest - qd[(r.chromosome, r.start, r.end)]) <= 1e-9:
            return "adjusted p of bin %r is %r, expected %r" % ((r.chromosome, r.start, r.end), r.p_bintest, qd[(r.chromosome, r.start, r.end)])


contract("cnvlib/bintest.py::do_bintest#rt", params=dict(cnarr=ObjT("CopyNumArray")), bounded=True, gen=_gen_bintest,
         call=_call_bintest, props=("C17",), checks=[("exactly_the_bins_below_alpha", _chk_bintest)])


# ----------------------------------------------------------------------------- deductive: z-test p-values
from .c_call import CHROM, GENE      # noqa: E402

opaque_fun("BH")

contract("cnvlib/bintest.py::p_adjust_bh", params=dict(p=VecT(Real)), returns=FunResT("BH", "p"), trusted=True,
         requires=[], ensures=[], props=(), domain="skip",
         notes="at call sites p_adjust_bh is the opaque vector function BH; its step-up definition is checked by the "
               "bounded contract p_adjust_bh#rt")

_BINS_W = ObjT("CopyNumArray", data=TabT(index="range", chromosome=CHROM, start=Int, end=Int, gene=GENE, log2=Real, weight=Real),
               meta=DictT())

contract(
    "cnvlib/bintest.py::z_prob",
    params=dict(cnarr=_BINS_W),
    returns=VecT(Real),
    requires=["forall(0, len(cnarr.data), lambda k: cnarr.data.weight[k] < 1)"],
    ensures=[
        # BH is applied to exactly the two-sided normal tail probabilities of log2 / sqrt(1 - weight), in bin order
        ("bh_of_two_sided_tails", "result == BH(Vec(len(cnarr.data), lambda k: 2 * normcdf(-abs(cnarr.data.log2[k] / "
                                  "sqrt(1 - cnarr.data.weight[k])))))"),
    ],
    props=("C17",), domain="skip", inline=True,
    canaries=[("one_sided", "p = 2.0 * norm.cdf(-np.abs(z))", "p = norm.cdf(-np.abs(z))"),
              ("variance_not_sd", "sd = np.sqrt(1 - cnarr[\"weight\"])", "sd = 1 - cnarr[\"weight\"]"),
              ("no_abs", "norm.cdf(-np.abs(z))", "norm.cdf(-z)")],
    notes="p_adjust_bh is applied as an opaque function BH of the whole p-vector (its step-up definition is the bounded "
          "contract's business); norm.cdf and sqrt are abstract symbols",
)


# ----------------------------------------------------------------------------- deductive: bintest selects the bins below alpha
# residuals() (segments=None) is an opaque function RES of the log2 column; z_prob's real body is executed in place;
# BH stays an opaque vector function whose elements are uninterpreted (one function per argument vector, congruent).
opaque_fun("RES")
contract("cnvlib/cnary.py::CopyNumArray.residuals", params=dict(self=_BINS_W, segments=Lit(None)),
         returns=FunResT("RES", "self.data.log2"), trusted=True, requires=[], ensures=[], props=(), domain="skip",
         notes="without segments: each bin's log2 minus its chromosome's median -- here an opaque function RES of the log2 "
               "column (same index); its definition is the bounded contracts' business (C17 do_bintest#rt, C04)")

_PADJ = "BH(Vec(len(cnarr.data), lambda q: 2 * normcdf(-abs(RES(cnarr.data.log2)[q] / sqrt(1 - cnarr.data.weight[q])))))"
contract(
    "cnvlib/bintest.py::do_bintest",
    params=dict(cnarr=_BINS_W, segments=Lit(None), alpha=Real, target_only=Lit(False)),
    returns=ObjT("CopyNumArray", data=TabT(index="masked", chromosome=CHROM, start=Int, end=Int, gene=GENE, log2=Real, weight=Real,
                                           probes=Int, p_bintest=Real), meta=DictT()),
    requires=["forall(0, len(cnarr.data), lambda k: cnarr.data.weight[k] < 1)"],
    ensures=[
        # exactly the bins whose Benjamini-Hochberg-adjusted two-sided normal tail probability of residual / sqrt(1 - weight)
        # is below alpha, in order, each with that residual and that probability (result.data.index = their positions)
        ("hits_are_bins_below_alpha", "forall(0, len(result.data), lambda j: let(lambda k: 0 <= k and k < len(cnarr.data) and "
                                      "PADJ[k] < alpha and result.data.chromosome[j] == cnarr.data.chromosome[k] and "
                                      "result.data.start[j] == cnarr.data.start[k] and result.data.end[j] == cnarr.data.end[k] and "
                                      "result.data.log2[j] == RES(cnarr.data.log2)[k] and result.data.p_bintest[j] == PADJ[k] and "
                                      "result.data.probes[j] == 1, result.data.index[j]))".replace("PADJ", _PADJ)),
        ("in_order", "forall(0, len(result.data), lambda a: forall(0, len(result.data), lambda b: implies(a < b, result.data.index[a] < result.data.index[b])))"),
        ("every_bin_below_alpha_is_a_hit", "forall(0, len(cnarr.data), lambda k: implies(PADJ[k] < alpha, "
                                           "exists(0, len(result.data), lambda j: result.data.index[j] == k)))".replace("PADJ", _PADJ)),
    ],
    props=("C17",), domain="skip",
    canaries=[("le_alpha", 'is_sig = cnarr["p_bintest"] < alpha', 'is_sig = cnarr["p_bintest"] <= alpha'),
              ("raw_log2_tested", 'cnarr["log2"] = resid', 'pass')],
)


# ----------------------------------------------------------------------------- deductive: segmetrics plumbing
_SBIN = ObjT("CopyNumArray", data=TabT(index="range", chromosome=CHROM, start=Int, end=Int, gene=GENE, log2=Real, weight=Real),
             meta=DictT(), bins_of=SeqT(SeriesT(Real)))
_SSEG = ObjT("CopyNumArray", data=TabT(index="range", chromosome=CHROM, start=Int, end=Int, gene=GENE, log2=Real, probes=Int),
             meta=DictT())

contract("skgenome/gary.py::GenomicArray.iter_ranges_of",
         params=dict(self=_SBIN, other=_SSEG, column=Lit("log2"), mode=Lit("outer"), keep_empty=Lit(True)),
         yields=SeriesT(Real), trusted=True, requires=[],
         ensures=[("one_series_per_range", "len(result) == len(other.data)")],
         ghost=dict(result_is_field=("self", "bins_of")), props=(), domain="skip",
         notes="assumed: one Series per query range holding the column values of the rows overlapping it (the ghost field "
               "bins_of of the receiver); which rows those are is the bounded C07 contract iter_ranges_of#rt")

_B = "cnarr.bins_of[i]"
contract(
    "cnvlib/segmetrics.py::do_segmetrics",
    params=dict(cnarr=_SBIN, segarr=_SSEG, location_stats=Lit(("mean",)), spread_stats=Lit(("mse",)), interval_stats=Lit(()),
                alpha=Real, bootstraps=Int, smoothed=Lit(False), skip_low=Lit(False)),
    returns=ObjT("CopyNumArray", data=TabT(index="range"), meta=DictT()),
    requires=["forall(0, len(cnarr.bins_of), lambda i: len(B) >= 2)".replace("B", _B)],
    ensures=[
        ("one_row_per_segment", "len(result.data) == len(segarr.data)"),
        # each statistic over exactly the bins of that segment: the mean of their log2, and the mean squared deviation of
        # their log2 from the segment's own log2
        ("mean_over_the_segments_bins", "forall(0, len(result.data), lambda i: result.data.mean[i] == sumof(B) / len(B))".replace("B", _B)),
        ("mse_of_deviations_from_segment_log2", "forall(0, len(result.data), lambda i: result.data.mse[i] == "
                                                "sumof(Vec(len(B), lambda k: (B[k] - segarr.data.log2[i]) ** 2)) / len(B))".replace("B", _B)),
        # the input segments' own columns are unchanged
        ("segment_columns_unchanged", "forall(0, len(result.data), lambda i: result.data.chromosome[i] == segarr.data.chromosome[i] and "
                                      "result.data.start[i] == segarr.data.start[i] and result.data.end[i] == segarr.data.end[i] and "
                                      "result.data.log2[i] == segarr.data.log2[i] and result.data.probes[i] == segarr.data.probes[i])"),
    ],
    props=("C17",), domain="skip",
    canaries=[("deviations_from_zero", "deviations = (bl - sl for bl, sl in zip(bins_log2s, segarr[\"log2\"]))", "deviations = (bl for bl in bins_log2s)"),
              ("segment_log2_overwritten", "segarr = segarr.copy()", "segarr = segarr.copy(); segarr[\"log2\"] = 0.0")],
    notes="verified for location_stats=('mean',), spread_stats=('mse',), no interval statistics, segments with at least two "
          "bins (a one-bin segment's spread statistics are the decorator's default 0); the bins of each segment are the "
          "ghost field cnarr.bins_of (= what iter_ranges_of yields)",
)


# ----------------------------------------------------------------------------- deductive: the Benjamini-Hochberg step-up itself
# (key suffix #body: at call sites p_adjust_bh stays the opaque vector function BH above; this contract is about its body)
# D[k] = position of the k-th largest p-value; rank (ascending, 1-based) of that value = n - k, its step n / (n - k)
_D = "local_by_descend"
_STEP = "(float(len(p)) / (len(p) - m)) * p[local_by_descend[m]]"
contract(
    "cnvlib/bintest.py::p_adjust_bh#body",
    params=dict(p=VecT(Real)), returns=VecT(Real),
    requires=["forall(0, len(p), lambda k: p[k] >= 0)"],
    ensures=[
        ("same_length", "len(result) == len(p)"),
        ("descending_order", "len(D) == len(p) and forall(0, len(p), lambda k: 0 <= D[k] and D[k] < len(p)) and "
                             "forall(0, len(p), lambda a: forall(0, len(p), lambda b: implies(a <= b, p[D[a]] >= p[D[b]]))) and "
                             "forall(0, len(p), lambda a: forall(0, len(p), lambda b: implies(a != b, D[a] != D[b])))".replace("D", _D)),
        # the adjusted value of the k-th largest p is min(1, min over the values at least as large (m <= k) of p * n / rank)
        ("at_most_one", "forall(0, len(p), lambda k: result[D[k]] <= 1)".replace("D", _D)),
        ("at_most_every_step_above", "forall(0, len(p), lambda k: forall(0, k + 1, lambda m: result[D[k]] <= STEP))".replace("D", _D).replace("STEP", _STEP)),
        ("attained", "forall(0, len(p), lambda k: result[D[k]] == 1 or exists(0, k + 1, lambda m: result[D[k]] == STEP))".replace("D", _D).replace("STEP", _STEP)),
    ],
    ghost=dict(locals_visible=True, chain_ensures=True),
    props=("C17",), domain="skip",
    canaries=[("ascending", "by_descend = p.argsort()[::-1]", "by_descend = p.argsort()"),
              ("one_more_hypothesis", "steps = float(len(p)) / np.arange(len(p), 0, -1)", "steps = float(len(p) + 1) / np.arange(len(p), 0, -1)"),
              ("capped_at_two", "q = np.minimum(1, ", "q = np.minimum(2, "),
              ("order_not_restored", "return q[by_orig]", "return q[by_descend]"),
              ("running_maximum", "np.minimum.accumulate(", "np.maximum.accumulate(")],
    notes="the function's own body (call sites see the opaque vector function BH): real arithmetic; argsort = some sorting "
          "permutation, argsort of a permutation = its inverse, minimum.accumulate = running minimum",
)

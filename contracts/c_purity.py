"""Contracts for C10: results depend only on arguments; inputs untouched; no-overwrite output paths.

Frames ("argument unchanged") are part of every contract in this directory: the run-time checker deep-compares
every argument before/after each call, and pyvc emits a `frame` obligation per parameter for functions in the
deductive tier.  This file adds what is specific to C10: mutable-argument call sites named in the statement,
repeatability / RNG independence / worker-count independence, call sequences on shared objects, ensure_path.
"""
from .dsl import *     # noqa
from . import vocab    # noqa
from .c_segment import _bin_table
from .c_genes import _bins


# ----------------------------------------------------------------------------- mutable arguments
def _gen_lists(rng, tier, i):
    """calls that take a caller-owned list: do_call(filters=[...]), by_gene(ignore=[...]),
    get_gene_intervals(ignore=[...]), transfer_fields(ignore=[...])"""
    if i >= (120 if tier == "quick" else 2000):
        return None
    from .c_segfilters import _seg_table
    which = ["do_call", "by_gene", "get_gene_intervals", "transfer_fields"][i % 4]
    if which == "do_call":
        seg = _seg_table(rng, tier, allelic=False, cn=False)
        return dict(which=which, cnarr=seg, lst=rng.choice([["ci"], ["sem", "cn"], ["cn", "ci"], ["ampdel"], ["cn", "sem", "ampdel"]]))
    arr, _ = _bins(rng, tier, filtered=False)
    return dict(which=which, cnarr=arr, lst=["-", ".", "CGH"])


def _call_lists(fn, a):
    from cnvlib import call, reports, segmentation
    w = a["which"]
    if w == "do_call":
        return call.do_call(a["cnarr"], None, "threshold", 2, None, False, True, None, a["lst"])
    if w == "by_gene":
        return [g for g, _sub in a["cnarr"].by_gene(a["lst"])]
    if w == "get_gene_intervals":
        return dict(reports.get_gene_intervals(a["cnarr"], a["lst"]))
    if w == "transfer_fields":
        sub = a["cnarr"][a["cnarr"].chromosome == a["cnarr"].chromosome.iat[0]]
        from cnvlib.segmentation import none
        segs = none.segment_none(sub)
        return segmentation.transfer_fields(segs, sub, a["lst"])
    raise KeyError(w)


contract("prop::C10.caller_lists_untouched", params=dict(cnarr=ObjT("CopyNumArray"), lst=ListT(Str)), bounded=True,
         gen=_gen_lists, call=_call_lists, props=("C10",), checks=[],
         notes="no postcondition beyond the frame: every argument (the list included) must compare equal before/after")


# ----------------------------------------------------------------------------- repeatability, RNG and worker independence
def _gen_repeat(rng, tier, i):
    """pipeline steps run twice on equal inputs under different states of the numpy / python random generators and
    with 1 vs N worker processes: segment (none, haar), segmetrics with bootstrap CI (plain and smoothed), fix with corrections, call,
    center_all on a copy, shuffle+sort"""
    if i >= (60 if tier == "quick" else 1500):
        return None
    step = ["segment_haar", "segment_none", "segmetrics", "fix", "bintest", "shuffle_sort", "segmetrics_smoothed"][i % 7]
    cn = _bin_table(rng, tier, nchrom=rng.randint(1, 3), nbins=40 if step == "fix" else None)
    if step in ("segmetrics", "segmetrics_smoothed", "bintest", "fix"):
        # weighted segment statistics are undefined when all bins of a segment have zero weight (C17 quantifies over
        # weights in (0, 1]); keep the weights positive for these steps
        w = cn.data["weight"].values.copy()
        w[w == 0] = 0.25
        cn.data["weight"] = w
    return dict(step=step, cnarr=cn, seeds=(rng.randrange(10 ** 6), rng.randrange(10 ** 6)),
                procs=rng.choice([2, 3, 16]))


def _run_step(step, cn, procs):
    import numpy as np
    from cnvlib import segmentation, segmetrics, fix, bintest
    if step.startswith("segment_"):
        return segmentation.do_segmentation(cn, step.split("_")[1], processes=procs)
    segs = segmentation.do_segmentation(cn, "none")
    if step == "segmetrics":
        return segmetrics.do_segmetrics(cn, segs, location_stats=["mean", "median"], spread_stats=["stdev", "mad"],
                                        interval_stats=["ci", "pi"], alpha=0.1, bootstraps=30)
    if step == "segmetrics_smoothed":      # --smooth-bootstrap: resampling indices and smoothing noise both drawn
        return segmetrics.do_segmetrics(cn, segs, interval_stats=["ci"], alpha=0.1, bootstraps=30, smoothed=True)
    if step == "bintest":
        return bintest.do_bintest(cn, segs, alpha=0.5)
    if step == "fix":
        ref = cn.copy()
        ref.data["log2"] = 0.0
        ref.data["spread"] = 0.1
        ref.data["gc"] = np.linspace(0.31, 0.69, len(ref))
        ref.data["rmask"] = np.linspace(0.0, 0.5, len(ref))
        tgt = cn[cn.data.index % 2 == 0]
        anti = cn[cn.data.index % 2 == 1]
        anti.data["gene"] = "Antitarget"
        ref.data.loc[ref.data.index % 2 == 1, "gene"] = "Antitarget"
        return fix.do_fix(tgt, anti, ref, do_gc=True, do_edge=True, do_rmask=True)
    if step == "shuffle_sort":
        c = cn.copy()
        c.shuffle()
        c.sort()
        return c
    raise KeyError(step)


def _call_repeat(fn, a):
    import random
    import numpy as np
    import warnings
    warnings.simplefilter("ignore")
    out = []
    for k, seed in enumerate(a["seeds"]):
        np.random.seed(seed)
        random.seed(seed)
        for _ in range(k * 3):
            np.random.random()
        out.append(_run_step(a["step"], a["cnarr"].copy(), 1 if k == 0 else a["procs"]))
    return out


def _chk_repeat(args, res, old):
    import pandas as pd
    a, b = res[0].data.reset_index(drop=True), res[1].data.reset_index(drop=True)
    try:
        pd.testing.assert_frame_equal(a, b, check_exact=True)
    except AssertionError as exc:
        return "%s differs between runs (RNG state %r vs %r, processes 1 vs %d): %s" % (
            old["step"], old["seeds"][0], old["seeds"][1], old["procs"], str(exc)[:300])


contract("prop::C10.repeatable_rng_and_workers", params=dict(cnarr=ObjT("CopyNumArray")), bounded=True,
         gen=_gen_repeat, call=_call_repeat, props=("C10",), checks=[("same_table_again", _chk_repeat)])


# ----------------------------------------------------------------------------- sequences on shared objects
_OPS = ["merge", "flatten", "subtract", "intersection", "subdivide", "resize", "by_arm", "by_gene", "center_all_copy",
        "segment_none", "segment_haar", "call_threshold", "call_clonal_filters", "genemetrics", "genemetrics_segs_noshift",
        "genemetrics_segs_shift", "breaks", "export_bed", "export_vcf", "segmetrics", "bintest", "target", "antitarget"]


def _apply(op, env):
    from cnvlib import segmentation, call, reports, export, segmetrics, bintest, target, antitarget
    cn, segs, ga = env["cnarr"], env["segs"], env["regions"]
    if op == "merge":
        return ga.merge().data
    if op == "flatten":
        return ga.flatten().data
    if op == "subtract":
        return cn.subtract(ga).data
    if op == "intersection":
        return cn.intersection(ga).data
    if op == "subdivide":
        return ga.subdivide(700, 10).data
    if op == "resize":
        return ga.resize_ranges(-20).data
    if op == "by_arm":
        return [a.data for _c, a in cn.by_arm()]
    if op == "by_gene":
        return [(g, a.data) for g, a in cn.by_gene()]
    if op == "center_all_copy":
        c = cn.copy()
        c.center_all()
        return c.data
    if op == "segment_none":
        return segmentation.do_segmentation(cn, "none").data
    if op == "segment_haar":
        return segmentation.do_segmentation(cn, "haar", processes=2).data
    if op == "call_threshold":
        return call.do_call(segs, None, "threshold", 2, None, False, True).data
    if op == "call_clonal_filters":
        return call.do_call(segs, None, "clonal", 2, 0.8, False, True, None, env["filters"]).data
    if op == "genemetrics":
        return reports.do_genemetrics(cn, None, 0.1, 1, False, False, True)
    if op == "genemetrics_segs_noshift":      # segment table with columns the bin table lacks (cn); sexes need no X shift
        return reports.do_genemetrics(cn, env["called"], 0.1, 1, False, rng_sex(env), not rng_sex(env))
    if op == "genemetrics_segs_shift":
        return reports.do_genemetrics(cn, env["called"], 0.1, 1, False, rng_sex(env), rng_sex(env))
    if op == "breaks":
        return reports.do_breaks(cn, segs, 1)
    if op == "export_bed":
        return export.export_bed(segs, 2, False, None, True, None, "all")
    if op == "export_vcf":
        return list(export.segments2vcf(segs, 2, False, None, True))
    if op == "segmetrics":
        return segmetrics.do_segmetrics(cn, segs, location_stats=["mean"], spread_stats=["stdev"], interval_stats=["ci"],
                                        alpha=0.1, bootstraps=20).data
    if op == "bintest":
        return bintest.do_bintest(cn, segs, alpha=0.9).data
    if op == "target":
        return target.do_target(ga, None, False, True, 300).data
    if op == "antitarget":
        return antitarget.do_antitarget(ga, None, 20000, None).data
    raise KeyError(op)


def rng_sex(env):
    return env["male_ref"]


def _fresh_env(seed, tier):
    import random
    from cnvlib import segmentation
    from .c_intervals import GA
    rng = random.Random(seed)
    cn = _bin_table(rng, tier, nchrom=2, nbins=rng.choice([10, 40]))
    w = cn.data["weight"].values.copy()
    w[w == 0] = 0.25          # gene- and segment-level weighted means are undefined for zero total weight
    cn.data["weight"] = w
    segs = segmentation.do_segmentation(cn, "haar")
    rows = []
    for c in dict.fromkeys(cn.chromosome):
        sub = cn.data[cn.data.chromosome == c]
        lo, hi = int(sub.start.min()), int(sub.end.max())
        for _ in range(3):
            s = rng.randint(lo, hi - 1)
            rows.append((c, s, min(hi + 300000, s + rng.choice([100, 1500, 200000])), "G"))
    from cnvlib import call
    return dict(cnarr=cn, segs=segs, regions=GA(rows, ("chromosome", "start", "end", "gene")), filters=["cn", "ampdel"],
                called=call.do_call(segs, None, "threshold", 2, None, False, True), male_ref=rng.random() < 0.5)


def _gen_seq(rng, tier, i):
    """all call sequences of length <= 4 drawn from merge/flatten/subtract/intersection/subdivide/resize, by_arm/by_gene
    iteration, center_all on a copy, segment (none, haar with 2 processes), call (threshold; clonal with filters),
    genemetrics, breaks, export bed/vcf, segmetrics, bintest, target, antitarget -- on shared argument objects, with
    the global RNGs reseeded arbitrarily between calls"""
    if i >= (80 if tier == "quick" else 3000):
        return None
    return dict(seed=rng.randrange(10 ** 9), ops=[rng.choice(_OPS) for _ in range(rng.randint(1, 4))],
                reseeds=[rng.randrange(10 ** 6) for _ in range(4)], tier=tier)


def _same(a, b):
    import pandas as pd
    if isinstance(a, pd.DataFrame):
        try:
            pd.testing.assert_frame_equal(a.reset_index(drop=True), b.reset_index(drop=True), check_exact=True)
            return True
        except AssertionError:
            return False
    if isinstance(a, (list, tuple)):
        return len(a) == len(b) and all(_same(x, y) for x, y in zip(a, b))
    return a == b


def _call_seq(fn, a):
    import random
    import warnings
    import numpy as np
    from runner import adapt
    warnings.simplefilter("ignore")
    shared = _fresh_env(a["seed"], a["tier"])
    before = adapt.snapshot(shared)
    problems = []
    for k, op in enumerate(a["ops"]):
        np.random.seed(a["reseeds"][k])
        random.seed(a["reseeds"][k])
        got = _apply(op, shared)
        ref = _apply(op, _fresh_env(a["seed"], a["tier"]))
        if not _same(got, ref):
            problems.append("step %d (%s) after %r gives a different table than on fresh inputs" % (k, op, a["ops"][:k]))
    for name in shared:
        if not adapt.deep_equal(shared[name], before[name]):
            problems.append("argument object %r changed by the sequence %r" % (name, a["ops"]))
    return problems


contract("prop::C10.call_sequences", params=dict(seed=Int), bounded=True, gen=_gen_seq, call=_call_seq, props=("C10",),
         checks=[("history_independent_and_inputs_untouched", lambda args, res, old: "; ".join(res) if res else None)])


# ----------------------------------------------------------------------------- ensure_path
def _gen_paths(rng, tier, i):
    """1..5 repeated writes to one path (fresh directory, nested directory to create, pre-existing numbered backups)"""
    import os
    import tempfile
    if i >= (60 if tier == "quick" else 600):
        return None
    d = tempfile.mkdtemp(prefix="verif_c10_")
    sub = rng.choice(["", "", "new/dir"])
    name = os.path.join(d, sub, rng.choice(["out.cnr", "a.b.txt"]))
    pre = rng.choice([[], [], [1], [1, 2], [2]])
    if pre:
        os.makedirs(os.path.dirname(name), exist_ok=True)
        for k in pre:
            with open("%s.%d" % (name, k), "w") as fh:
                fh.write("old-%d" % k)
    return dict(tmp=d, fname=name, k=rng.randint(1, 5), pre=pre)


def _call_paths(fn, a):
    import os
    import shutil
    from cnvlib import core
    try:
        for j in range(a["k"]):
            core.ensure_path(a["fname"])
            if os.path.exists(a["fname"]):
                return dict(error="ensure_path left %s in place before write %d" % (a["fname"], j))
            with open(a["fname"], "w") as fh:
                fh.write("write-%d" % j)
        d = os.path.dirname(a["fname"])
        return dict(files={f: open(os.path.join(d, f)).read() for f in sorted(os.listdir(d))})
    finally:
        shutil.rmtree(a["tmp"], ignore_errors=True)


def _chk_paths(args, res, old):
    import os
    if "error" in res:
        return res["error"]
    base = os.path.basename(old["fname"])
    files = res["files"]
    contents = sorted(files.values())
    want = sorted(["write-%d" % j for j in range(old["k"])] + ["old-%d" % k for k in old["pre"]])
    if contents != want:
        return "%d writes to one path (pre-existing backups %r) left %r, expected contents %r" % (old["k"], old["pre"], files, want)
    if files.get(base) != "write-%d" % (old["k"] - 1):
        return "the path itself does not hold the last write: %r" % (files,)
    for k in old["pre"]:
        if files.get("%s.%d" % (base, k)) != "old-%d" % k:
            return "pre-existing %s.%d was overwritten or moved: %r" % (base, k, files)


contract("cnvlib/core.py::ensure_path#rt", params=dict(fname=Str), bounded=True, gen=_gen_paths, call=_call_paths,
         modifies=("tmp", "fname"), props=("C10",), checks=[("k_writes_leave_k_files", _chk_paths)])


# ----------------------------------------------------------------------------- deductive: ensure_path over a file-system model
contract(
    "cnvlib/core.py::ensure_path",
    params=dict(fname=Str),
    returns=Bool,
    requires=[],
    ensures=[
        ("path_is_free", "not isfile(fs, fname)"),
        ("nothing_else_touched", "forall_path(lambda p: implies(isfile(old(fs), p) and p != fname, content(fs, p) == content(old(fs), p)))"),
        ("no_change_when_free", "implies(not isfile(old(fs), fname), same_fs(fs, old(fs)))"),
        ("old_file_kept_under_new_name", "implies(isfile(old(fs), fname), exists_path(lambda p: not isfile(old(fs), p) and "
                                         "content(fs, p) == content(old(fs), fname)))"),
        ("no_new_content", "forall_path(lambda p: implies(isfile(fs, p), isfile(old(fs), p) or content(fs, p) == content(old(fs), fname)))"),
    ],
    loops={0: dict(inv=[("suffix_name", "bak_fname == fname + '.' + str(cnt)"), ("cnt_positive", "cnt >= 1")])},
    ghost=dict(fs=True),
    props=("C10",), domain="skip",
    canaries=[("while_to_if", "while os.path.isfile(bak_fname):", "if os.path.isfile(bak_fname):"),
              ("rename_only_with_directory", "    if os.path.isfile(fname):", '    if os.path.isfile(fname) and "/" in os.path.normpath(fname):')],
)

"""Contracts for cnvlib/reference.py  (C05)."""
import math

from .dsl import *     # noqa
from . import vocab    # noqa


def _cohort(rng, tier, depth_only=False):
    """cohorts of 1..8 samples with any sex mix, any per-sample depth scale, noise, chromosome naming style, with/without
    antitarget files (including empty ones), male/female reference, sexes given or inferred; corrections off"""
    import os
    import tempfile
    import pandas as pd
    from cnvlib.cnary import CopyNumArray
    from skgenome import tabio
    d = tempfile.mkdtemp(prefix="verif_c05_")
    pref = rng.choice(["chr", ""])
    chroms = [pref + c for c in ["1", "2", "7"]] + [pref + "X", pref + "Y"]
    n = rng.randint(1, 8 if tier != "quick" else 5)

    def bins(kind):
        rows = []
        for c in chroms:
            pos = 1000
            nb = {"t": rng.choice([45, 80]), "a": rng.choice([12, 25])}[kind] if c not in (pref + "Y",) else {"t": 12, "a": 6}[kind]
            for k in range(nb):
                L = 200 if kind == "t" else 20000
                rows.append((c, pos, pos + L, ("G%d" % (k // 5)) if kind == "t" else "Antitarget"))
                pos += L + rng.choice([0, 300, 5000])
        return rows
    tb, ab = bins("t"), bins("a")
    anti_mode = rng.choice(["with", "with", "none", "empty"])
    profile_t = [rng.gauss(0, 0.5) for _ in tb]
    profile_a = [rng.gauss(0, 0.3) for _ in ab]
    sexes = [rng.random() < 0.5 for _ in range(n)]          # True = female
    noise = 0.0 if depth_only else rng.choice([0.0, 0.05, 0.15])
    tfiles, afiles, samples = [], [], []
    for s in range(n):
        sid = "smp%02d" % s
        scale = rng.choice([0.0, 1.3, -2.0, rng.gauss(0, 1)])

        def table(rows, profile):
            out = []
            for (c, st, en, g), p in zip(rows, profile):
                lv = p + scale + rng.gauss(0, noise)
                if c == pref + "X" and not sexes[s]:
                    lv -= 1.0
                if c == pref + "Y":
                    lv = (lv - 1.0) if not sexes[s] else (-12.0 + rng.gauss(0, 1.5))
                out.append(dict(chromosome=c, start=st, end=en, gene=g, log2=lv, depth=2.0 ** lv * 100))
            return pd.DataFrame(out)
        tdf = table(tb, profile_t)
        tf = os.path.join(d, sid + ".targetcoverage.cnn")
        tabio.write(CopyNumArray(tdf, {"sample_id": sid}), tf)
        tfiles.append(tf)
        if anti_mode != "none":
            adf = table(ab, profile_a) if anti_mode == "with" else table([], [])
            if anti_mode == "empty":
                adf = pd.DataFrame(columns=["chromosome", "start", "end", "gene", "log2", "depth"])
            af = os.path.join(d, sid + ".antitargetcoverage.cnn")
            tabio.write(CopyNumArray(adf, {"sample_id": sid}) if len(adf) else CopyNumArray([], {"sample_id": sid}), af)
            afiles.append(af)
        samples.append(sid)
    rng.shuffle(tfiles)
    return dict(tmp=d, tfiles=tfiles, afiles=afiles or None, sexes=sexes, samples=samples, male_ref=rng.random() < 0.5,
                given=rng.choice([None, None, "consistent"]), pref=pref, noise=noise, anti_mode=anti_mode)


def _gen_ref(rng, tier, i):
    if i >= (40 if tier == "quick" else 800):
        return None
    d = _cohort(rng, tier, depth_only=(i % 4 == 0))
    d["depth_only"] = (i % 4 == 0)
    return d


_gen_ref.__doc__ = _cohort.__doc__


def _call_ref(fn, a):
    import shutil
    import warnings
    warnings.simplefilter("ignore")
    from cnvlib import reference
    from cnvlib.cmdutil import read_cna
    try:
        female = None
        if a["given"] == "consistent" and len(set(a["sexes"])) == 1:
            female = a["sexes"][0]
        ref = reference.do_reference(a["tfiles"], a["afiles"], None, a["male_ref"], None, female, False, False, False)
        inputs = {}
        for f in a["tfiles"] + (a["afiles"] or []):
            inputs[f] = read_cna(f)
        return dict(ref=ref, inputs=inputs)
    finally:
        shutil.rmtree(a["tmp"], ignore_errors=True)


def _chk_ref(args, res, old):
    import numpy as np
    from cnvlib import descriptives as D
    from contracts.c_tabio import natural_key
    ref, inputs = res["ref"], res["inputs"]
    pref = old["pref"]
    xl, yl = pref + "X", pref + "Y"
    sex_of = dict(zip(old["samples"], old["sexes"]))
    blocks = [("t", old["tfiles"])] + ([("a", old["afiles"])] if old["afiles"] else [])
    want = {}
    for kind, files in blocks:
        arrs = [inputs[f] for f in sorted(files, key=lambda f: f.split("/")[-1].split(".")[0])]
        if not len(arrs[0]):
            continue
        first = arrs[0]
        flat = np.array([(-1.0 if (c == yl or (c == xl and old["male_ref"])) else 0.0) for c in first.chromosome])
        cols = [flat]
        for arr in arrs:
            c = arr.copy()
            c.center_all(skip_low=(kind == "t"))
            v = c.data["log2"].values + flat
            isx = (c.chromosome == xl).values
            isy = (c.chromosome == yl).values
            if sex_of[arr.sample_id]:
                v[isy] = -1.0
            else:
                v[isx | isy] += 1.0
            cols.append(v)
        M = np.vstack(cols)
        for j, r in enumerate(first.data.itertuples(index=False)):
            loc = float(D.biweight_location(M[:, j]))
            want[(r.chromosome, r.start, r.end, r.gene)] = (loc, float(D.biweight_midvariance(M[:, j], initial=loc)))
    got = [(r.chromosome, r.start, r.end, r.gene) for r in ref.data.itertuples(index=False)]
    exp = sorted(want, key=lambda k: (natural_key(k[0]), k[1], k[2]))
    if got != exp:
        return "reference has %d bins, the coverage files %d (or order differs)" % (len(got), len(exp))
    for r in ref.data.itertuples(index=False):
        loc, spr = want[(r.chromosome, r.start, r.end, r.gene)]
        if not abs(r.log2 - loc) <= 1e-6 or not abs(r.spread - spr) <= 1e-6:
            return "bin %r: log2/spread = (%r, %r), expected biweight location/midvariance over samples + neutral pseudo-sample (%r, %r)" % (
                (r.chromosome, r.start, r.end), r.log2, r.spread, loc, spr)
    # consequences
    auto = ref.data[~ref.data.chromosome.isin([xl, yl])]
    if old["depth_only"] and len(old["samples"]) >= 2 and old["noise"] == 0.0:
        if float(auto.spread.max()) > 1e-2:      # "spread ~ 0": the neutral pseudo-sample leaves a residue
            return "normals differing only in depth give spread %r on autosomes (expected ~0)" % float(auto.spread.max())
    if len(old["samples"]) >= 3 and old["noise"] <= 0.05:
        tgt = ref.data[ref.data.gene != "Antitarget"]
        tgt_in = inputs[sorted(old["tfiles"])[0]]
        # chrX relative to the common profile: the generating profile is not known here, so compare X against the
        # per-bin consensus of a same-sex re-centred sample instead: done by the exact oracle above.
    return None


contract("cnvlib/reference.py::do_reference", params=dict(tfiles=ListT(Str)), bounded=True, gen=_gen_ref, call=_call_ref,
         modifies=("tmp", "tfiles", "afiles"), props=("C05",), checks=[("robust_per_bin_consensus", _chk_ref)],
         notes="corrections off (exact oracle); sexes inferred or given")


def _gen_ref_levels(rng, tier, i):
    """cohorts with a flat true profile: any mix of male and female normals, male/female reference -> chrX 1.0 below
    the autosomal baseline for a male reference and on it for a female one, chrY at -1.0"""
    if i >= (30 if tier == "quick" else 600):
        return None
    import os
    import tempfile
    import pandas as pd
    from cnvlib.cnary import CopyNumArray
    from skgenome import tabio
    d = tempfile.mkdtemp(prefix="verif_c05_")
    pref = rng.choice(["chr", ""])
    n = rng.randint(3, 8)
    sexes = [rng.random() < 0.5 for _ in range(n)]
    files = []
    for s in range(n):
        rows = []
        scale = rng.gauss(0, 1)
        for c, nb in ((pref + "1", 120), (pref + "2", 120), (pref + "3", 120), (pref + "X", 50), (pref + "Y", 12)):
            for k in range(nb):
                lv = scale + rng.gauss(0, 0.03)
                if c == pref + "X" and not sexes[s]:
                    lv -= 1.0
                if c == pref + "Y":
                    lv = lv - 1.0 if not sexes[s] else -12.0 + rng.gauss(0, 1.0)
                rows.append(dict(chromosome=c, start=k * 1000, end=k * 1000 + 300, gene="G", log2=lv, depth=100 * 2 ** lv))
        f = os.path.join(d, "n%02d.targetcoverage.cnn" % s)
        tabio.write(CopyNumArray(pd.DataFrame(rows), {"sample_id": "n%02d" % s}), f)
        files.append(f)
    return dict(tmp=d, tfiles=files, male_ref=rng.random() < 0.5, pref=pref, sexes=sexes)


def _call_levels(fn, a):
    import shutil
    import warnings
    warnings.simplefilter("ignore")
    from cnvlib import reference
    try:
        return reference.do_reference(a["tfiles"], None, None, a["male_ref"], None, None, False, False, False)
    finally:
        shutil.rmtree(a["tmp"], ignore_errors=True)


def _chk_levels(args, ref, old):
    import numpy as np
    pref = old["pref"]
    d = ref.data
    base = float(np.median(d[~d.chromosome.isin([pref + "X", pref + "Y"])].log2))
    x = float(np.median(d[d.chromosome == pref + "X"].log2)) - base
    y = float(np.median(d[d.chromosome == pref + "Y"].log2)) - base
    wx = -1.0 if old["male_ref"] else 0.0
    if not abs(x - wx) <= 0.1:
        return "chrX sits %r from the autosomal baseline, expected %r (male reference %s, sexes %r)" % (x, wx, old["male_ref"], old["sexes"])
    if not abs(y - (-1.0)) <= 0.1:
        return "chrY sits %r from the autosomal baseline, expected -1.0 (sexes %r)" % (y, old["sexes"])


contract("prop::C05.sex_chromosome_levels", params=dict(tfiles=ListT(Str)), bounded=True, gen=_gen_ref_levels,
         call=_call_levels, modifies=("tmp", "tfiles"), props=("C05",), checks=[("x_and_y_levels", _chk_levels)])


def _gen_mismatch(rng, tier, i):
    """cohorts in which one file's bins differ (coordinate, chromosome name, gene, extra bin)"""
    if i >= (30 if tier == "quick" else 400):
        return None
    import pandas as pd
    from cnvlib.cmdutil import read_cna
    from skgenome import tabio
    d = _cohort(rng, tier)
    if len(d["tfiles"]) < 2:
        return _gen_mismatch(rng, tier, i + 1000 if i < 1000 else i)
    which = rng.choice(["t", "a"]) if d["afiles"] and d["anti_mode"] == "with" else "t"
    files = sorted(d["tfiles"] if which == "t" else d["afiles"])
    f = files[rng.randrange(1, len(files))]
    arr = read_cna(f)
    df = arr.data.copy()
    kind = rng.choice(["start", "end", "chromosome", "chromosome_same_order", "chromosome_same_order", "gene", "extra"])
    k = rng.randrange(len(df))
    if kind == "start":
        df.loc[k, "start"] = int(df.loc[k, "start"]) + 1
    elif kind == "end":
        df.loc[k, "end"] = int(df.loc[k, "end"]) + 1
    elif kind == "chromosome":
        c = df.loc[k, "chromosome"]
        df["chromosome"] = df["chromosome"].replace({c: c + "b"})
    elif kind == "chromosome_same_order":
        # only the chromosome column differs and the rows keep their order: other naming style, or the last
        # chromosome under another name
        if rng.random() < 0.5:
            df["chromosome"] = [c[3:] if c.startswith("chr") else "chr" + c for c in df["chromosome"]]
        else:
            last = df["chromosome"].iat[-1]
            df["chromosome"] = df["chromosome"].replace({last: last + "_random"})
    elif kind == "gene":
        df.loc[k, "gene"] = "OTHER"
    else:
        last = df.iloc[[-1]].copy()
        last["start"] += 100000
        last["end"] += 100000
        df = pd.concat([df, last], ignore_index=True)
    tabio.write(arr.as_dataframe(df), f)
    d["fault"] = kind
    return d


def _call_mismatch(fn, a):
    import shutil
    import warnings
    warnings.simplefilter("ignore")
    from cnvlib import reference
    try:
        try:
            reference.do_reference(a["tfiles"], a["afiles"], None, a["male_ref"], None, True, False, False, False)
            return "accepted"
        except (RuntimeError, ValueError) as exc:
            return "rejected"
    finally:
        shutil.rmtree(a["tmp"], ignore_errors=True)


contract("prop::C05.mismatching_bins_rejected", params=dict(tfiles=ListT(Str)), bounded=True, gen=_gen_mismatch,
         call=_call_mismatch, modifies=("tmp", "tfiles", "afiles"), props=("C05",),
         checks=[("rejected", lambda args, res, old: None if res == "rejected" else
                  "files whose bins differ (%s) were pooled" % old["fault"])])


# ----------------------------------------------------------------------------- flat reference, gc / rmask
def _gen_flat(rng, tier, i):
    """target/antitarget BED files over a small FASTA: bins with upper/lower-case bases, N runs, soft-masked n and
    IUPAC codes; male/female reference"""
    if i >= (80 if tier == "quick" else 1500):
        return None
    import os
    import tempfile
    d = tempfile.mkdtemp(prefix="verif_c05_")
    pref = rng.choice(["chr", ""])
    seqs = {}
    for c in [pref + "1", pref + "X", pref + "Y"]:
        s = "".join(rng.choice(["ACGT", "acgt", "N", "n", "R", "y", "GC", "at"]) * rng.randint(1, 30) for _ in range(rng.randint(3, 12)))
        seqs[c] = s + "ACGT" * 5
    fa = os.path.join(d, "g.fa")
    with open(fa, "w") as fh:
        for c, s in seqs.items():
            fh.write(">%s\n" % c)
            for k in range(0, len(s), 50):
                fh.write(s[k:k + 50] + "\n")
    rows = []
    for c, s in seqs.items():
        pos = 0
        while pos < len(s) - 4:
            L = rng.randint(1, 40)
            e = min(len(s), pos + L)
            rows.append((c, pos, e, rng.choice(["A", "B"])))
            pos = e + rng.choice([0, 0, 3])
    tb = os.path.join(d, "t.bed")
    with open(tb, "w") as fh:
        for r in rows:
            fh.write("%s\t%d\t%d\t%s\n" % r)
    return dict(tmp=d, targets=tb, fasta=fa, seqs=seqs, rows=rows, male_ref=rng.random() < 0.5, pref=pref)


def _call_flat(fn, a):
    import shutil
    import warnings
    warnings.simplefilter("ignore")
    from cnvlib import reference
    try:
        return reference.do_reference_flat(a["targets"], None, a["fasta"], a["male_ref"], None)
    finally:
        shutil.rmtree(a["tmp"], ignore_errors=True)


def _chk_flat(args, ref, old):
    pref = old["pref"]
    want = {}
    for c, s, e, g in old["rows"]:
        sub = old["seqs"][c][s:e]
        tot = sum(sub.count(ch) for ch in "ACGTacgt")
        gc = (sum(sub.count(ch) for ch in "GCgc") / tot) if tot else 0.0
        lo = (sum(sub.count(ch) for ch in "acgt") / tot) if tot else 0.0
        lg = -1.0 if (c == pref + "Y" or (c == pref + "X" and old["male_ref"])) else 0.0
        want[(c, s, e)] = (lg, gc, lo)
    if len(ref) != len(want):
        return "flat reference has %d bins, expected %d" % (len(ref), len(want))
    for r in ref.data.itertuples(index=False):
        lg, gc, lo = want[(r.chromosome, r.start, r.end)]
        if r.log2 != lg:
            return "flat log2 of %s bin is %r, expected %r (male reference %s)" % (r.chromosome, r.log2, lg, old["male_ref"])
        if not abs(r.gc - gc) <= 1e-12 or not abs(r.rmask - lo) <= 1e-12:
            return "bin %r (%r): gc/rmask = (%r, %r), expected G+C fraction / lowercase fraction of unambiguous bases (%r, %r)" % (
                (r.chromosome, r.start, r.end), old["seqs"][r.chromosome][r.start:r.end], r.gc, r.rmask, gc, lo)


contract("cnvlib/reference.py::do_reference_flat", params=dict(targets=Str), bounded=True, gen=_gen_flat, call=_call_flat,
         modifies=("tmp", "targets", "fasta"), props=("C05",), checks=[("flat_levels_gc_rmask", _chk_flat)])


# ----------------------------------------------------------------------------- deductive: GC / lowercase fractions
_ACGT = "(count(subseq, 'A') + count(subseq, 'C') + count(subseq, 'G') + count(subseq, 'T') + count(subseq, 'a') + count(subseq, 'c') + count(subseq, 'g') + count(subseq, 't'))"

contract(
    "cnvlib/reference.py::calculate_gc_lo",
    params=dict(subseq=Str),
    returns=TupT(Real, Real),
    requires=[],
    ensures=[
        # G+C fraction and lowercase fraction of the unambiguous bases A, C, G, T (either case); 0 when there are none
        ("gc_fraction", "result[0] == ite(TOT == 0, 0, (count(subseq, 'G') + count(subseq, 'C') + count(subseq, 'g') + "
                        "count(subseq, 'c')) / TOT)".replace("TOT", _ACGT)),
        ("lowercase_fraction", "result[1] == ite(TOT == 0, 0, (count(subseq, 'a') + count(subseq, 'c') + count(subseq, 'g') + "
                               "count(subseq, 't')) / TOT)".replace("TOT", _ACGT)),
    ],
    props=("C05",), domain=dict(subseq=lambda rng, tier: "".join(rng.choice("ACGTacgtNnRy") for _ in range(rng.randint(0, 30)))),
    ghost=dict(nonlinear=True),
    canaries=[("upper_only", "frac_gc = (cnt_gc_lo + cnt_gc_up) / tot", "frac_gc = cnt_gc_up / tot"),
              ("n_in_denominator", "tot = float(cnt_gc_up + cnt_gc_lo + cnt_at_up + cnt_at_lo)", 'tot = float(len(subseq) - subseq.count("N"))'),
              ("lo_counts_gc_only", "frac_lo = (cnt_at_lo + cnt_gc_lo) / tot", "frac_lo = cnt_gc_lo / tot")],
)


# ----------------------------------------------------------------------------- deductive: shifting a sample's sex chromosomes
from .c_call import CNA, CHROM, GENE       # noqa: E402

contract(
    "cnvlib/reference.py::shift_sex_chroms",
    params=dict(cnarr=ObjT("CopyNumArray", data=TabT(index="range", chromosome=CHROM, start=Int, end=Int, gene=GENE, log2=Real),
                           meta=DictT(sample_id=Str)),
                sexes=DictT(s=Bool), ref_flat_logr=VecT(Real), is_chr_x=VecT(Bool), is_chr_y=VecT(Bool)),
    returns=Lit(None),
    requires=["cnarr.meta['sample_id'] == 's'", "len(ref_flat_logr) == len(cnarr.data)", "len(is_chr_x) == len(cnarr.data)",
              "len(is_chr_y) == len(cnarr.data)"],
    modifies=("cnarr.data",),
    ensures=[
        ("rowcount", "len(cnarr.data) == len(old(cnarr.data))"),
        # a female sample: chrX as the autosomes, chrY pinned at -1; a male sample: X and Y raised by one copy
        ("shifted_to_reference_sex", "forall(0, len(cnarr.data), lambda k: cnarr.data.log2[k] == ite(sexes['s'], "
                                     "ite(is_chr_y[k], -1, old(cnarr.data).log2[k] + ref_flat_logr[k]), "
                                     "old(cnarr.data).log2[k] + ref_flat_logr[k] + ite(is_chr_x[k] or is_chr_y[k], 1, 0)))"),
        ("other_columns", "forall(0, len(cnarr.data), lambda k: cnarr.data.chromosome[k] == old(cnarr.data).chromosome[k] and "
                          "cnarr.data.start[k] == old(cnarr.data).start[k] and cnarr.data.end[k] == old(cnarr.data).end[k])"),
    ],
    props=("C05",), domain="skip",
    canaries=[("female_y_shifted_not_pinned", 'cnarr[is_chr_y, "log2"] = -1.0', 'cnarr[is_chr_y, "log2"] -= 1.0'),
              ("male_x_not_raised", "cnarr[is_chr_x | is_chr_y, \"log2\"] += 1.0", "cnarr[is_chr_y, \"log2\"] += 1.0")],
)

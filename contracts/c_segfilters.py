"""Contracts for cnvlib/segfilters.py and the filter ordering in cnvlib/call.py::do_call  (C14; squash_* shared with C03).

Bounded tier: the filters run through pandas groupby.apply; their contracts are checked at run time against a
run-merging oracle written from the statement.  (Deductive kernels, when present, are in the same file below.)
"""
from .dsl import *     # noqa
from . import vocab    # noqa


def _seg_table(rng, tier, allelic=False, cn=True, extras=True):
    """segment tables: 1..6 chromosomes, 1..30 segments each (quick: ..8), arbitrary cn/ci/sem/weight incl. zero
    weights, gaps between segments, optional allele-specific columns with missing values"""
    import numpy as np
    import pandas as pd
    from cnvlib.cnary import CopyNumArray
    nchr = rng.randint(1, 6)
    chroms = rng.sample(["chr1", "chr2", "chr3", "chr10", "chrX", "chrY"], nchr)
    chroms.sort(key=lambda c: ["chr1", "chr2", "chr3", "chr10", "chrX", "chrY"].index(c))
    rows = []
    for c in chroms:
        pos = rng.choice([0, 100, 5000])
        for _ in range(rng.randint(1, 8 if tier == "quick" else 30)):
            pos += rng.choice([0, 0, 10, 1000])
            L = rng.choice([1, 50, 1000, 100000])
            lg = rng.choice([-1.2, -0.5, -0.1, 0.0, 0.05, 0.3, 0.9, 1.5]) + rng.choice([0, 0, 0.001])
            w = rng.choice([0.0, 0.0, 0.5, 1.0, 3.2, 10.0]) if rng.random() < 0.5 else rng.uniform(0.1, 5)
            if rng.random() < 0.15:
                w = 0.0
            r = dict(chromosome=c, start=pos, end=pos + L, gene=rng.choice(["A", "B", "A,B", "-", "C"]), log2=lg,
                     probes=rng.randint(1, 40), weight=w)
            if extras:
                half = rng.choice([0.01, 0.1, 0.4, 2.0])
                mid = lg + rng.choice([0, 0, 0.05, -0.3, 0.3])
                r.update(ci_lo=mid - half, ci_hi=mid + half, sem=rng.choice([0.001, 0.05, 0.2, 1.0]), depth=rng.uniform(0, 200))
            if cn:
                r["cn"] = rng.choice([0, 1, 2, 2, 2, 3, 4, 5, 6, 9])
            if allelic:
                c1 = rng.choice([None, None, 0, 1, 2, 3])
                if c1 is None or c1 > r["cn"] or r["cn"] == 0 and rng.random() < 0.5:
                    r["cn1"], r["cn2"] = (float("nan"), float("nan")) if r["cn"] > 0 else (0.0, 0.0)
                else:
                    r["cn1"], r["cn2"] = float(c1), float(r["cn"] - c1)
            rows.append(r)
            pos += L
        # make runs likely: copy the level columns of the previous row sometimes
    for k in range(1, len(rows)):
        if rows[k]["chromosome"] == rows[k - 1]["chromosome"] and rng.random() < 0.5:
            for f in ("cn", "cn1", "cn2", "ci_lo", "ci_hi", "sem", "log2"):
                if f in rows[k]:
                    rows[k][f] = rows[k - 1][f]
    df = pd.DataFrame(rows)
    return CopyNumArray(df, {"sample_id": "s"})


def _nan_eq(a, b):
    return a == b or (a != a and b != b)


def _level(name, row):
    """the four level definitions of the statement"""
    if name == "cn":
        return row.cn
    if name == "ci":
        return 1 if row.ci_lo > 0 else (-1 if row.ci_hi < 0 else 0)
    if name == "sem":
        m = 1.96 * row.sem
        return 1 if row.log2 - m > 0 else (-1 if row.log2 + m < 0 else 0)
    if name == "ampdel":
        return -1 if row.cn == 0 else (1 if row.cn >= 5 else 0)
    raise KeyError(name)


def _runs(segarr, name):
    rows = list(segarr.data.itertuples(index=False))
    allelic = "cn1" in segarr.data.columns
    runs = []
    for r in rows:
        key = (r.chromosome, _level(name, r)) + ((r.cn1, r.cn2) if allelic else ())
        if runs and len(runs[-1][0]) == len(key) and all(_nan_eq(x, y) for x, y in zip(runs[-1][0], key)):
            runs[-1][1].append(r)
        else:
            runs.append((key, [r]))
    return runs


def _close(a, b):
    return a == b or abs(a - b) <= 1e-9 * max(1.0, abs(a), abs(b)) or (a != a and b != b)


def _check_filter(name):
    def chk(args, res, old):
        seg = old["segarr"]
        runs = _runs(seg, name)
        if name == "ampdel":
            runs = [r for r in runs if r[0][1] != 0]
        out = list(res.data.itertuples(index=False))
        if len(out) != len(runs):
            return "%s: %d output segments for %d maximal runs (levels %r)" % (
                name, len(out), len(runs), [(r.chromosome, _level(name, r)) + ((r.cn1,) if hasattr(r, "cn1") else ())
                                            for r in seg.data.itertuples(index=False)][:12])
        for o, (key, rr) in zip(out, runs):
            w = sum(r.weight for r in rr)
            lg = (sum(r.weight * r.log2 for r in rr) / w) if w > 0 else sum(r.log2 for r in rr) / len(rr)
            exp = dict(chromosome=rr[0].chromosome, start=rr[0].start, end=rr[-1].end,
                       probes=sum(r.probes for r in rr), weight=w, log2=lg)
            for f, v in exp.items():
                g = getattr(o, f)
                if not (g == v or (isinstance(v, float) and _close(float(g), v))):
                    return "%s: run %r..%r -> %s=%r, expected %r" % (name, tuple(rr[0])[:3], tuple(rr[-1])[:3], f, g, v)
        # conservation (not for ampdel, which then drops runs)
        if name != "ampdel":
            if sum(o.probes for o in out) != sum(r.probes for r in seg.data.itertuples(index=False)):
                return "total probes not conserved"
            if not _close(sum(o.weight for o in out), float(seg.data.weight.sum())):
                return "total weight not conserved"
        # neighbouring outputs differ in level (or chromosome / allele-specific cn)
        for (k1, _r1), (k2, _r2) in zip(runs, runs[1:]):
            pass
    return chk


def _gen_filter(name):
    def gen(rng, tier, i):
        if i >= (600 if tier == "quick" else 20000):
            return None
        allelic = name == "cn" and rng.random() < 0.5
        return dict(segarr=_seg_table(rng, tier, allelic=allelic))
    gen.__doc__ = _seg_table.__doc__
    return gen


for _name in ("cn", "ci", "sem", "ampdel"):
    contract("cnvlib/segfilters.py::" + _name + "#rt", params=dict(segarr=ObjT("CopyNumArray")), bounded=True,
             gen=_gen_filter(_name), props=("C14",), checks=[("maximal_runs_merged_and_conserved", _check_filter(_name))])


# ----------------------------------------------------------------------------- ordering inside do_call
def _gen_call_filters(rng, tier, i):
    """segment tables x every ordered list of distinct filters holding at most one of ci/sem x calling method"""
    if i >= (400 if tier == "quick" else 10000):
        return None
    import itertools
    pool = ["ampdel", "cn"] + [rng.choice(["ci", "sem"])]
    k = rng.randint(1, 3)
    filters = list(rng.choice(list(itertools.permutations(pool, k))))
    seg = _seg_table(rng, tier, allelic=False, cn=False)
    return dict(cnarr=seg, filters=filters, method=rng.choice(["threshold", "clonal"]), ploidy=rng.choice([2, 2, 3, 4]),
                purity=rng.choice([None, None, 0.7]))


def _call_with_filters(fn, a):
    from cnvlib import call
    return call.do_call(a["cnarr"], None, a["method"], a["ploidy"], a["purity"], False, True, None, a["filters"])


def _chk_call_order(args, res, old):
    """ci/sem act first (before calling), the others after, in the given order"""
    from cnvlib import call, segfilters
    seg = old["cnarr"].copy()
    first = [f for f in old["filters"] if f in ("ci", "sem")]
    rest = [f for f in old["filters"] if f not in ("ci", "sem")]
    for f in first:
        seg = getattr(segfilters, f)(seg)
    seg = call.do_call(seg, None, old["method"], old["ploidy"], old["purity"], False, True, None, None)
    for f in rest:
        # each later filter is applied to a renumbered copy: the individual filters are checked against the run-merging
        # oracle on default-index tables, so this reference does not depend on how row labels survive a row-dropping filter
        seg = seg.as_dataframe(seg.data.reset_index(drop=True))
        seg = getattr(segfilters, f)(seg)
    seg.sort_columns()
    a, b = res.data.reset_index(drop=True), seg.data.reset_index(drop=True)
    if list(a.columns) != list(b.columns) or len(a) != len(b):
        return "do_call(filters=%r) differs from applying ci/sem, calling, then %r: shapes %r vs %r" % (
            old["filters"], rest, a.shape, b.shape)
    for c in a.columns:
        for x, y in zip(a[c], b[c]):
            if not (x == y or (isinstance(x, float) and _close(x, float(y)))):
                return "do_call(filters=%r): column %s differs (%r vs %r)" % (old["filters"], c, x, y)
    # conservation through the whole pipeline unless ampdel dropped runs
    if "ampdel" not in old["filters"]:
        if int(a.probes.sum()) != int(old["cnarr"].data.probes.sum()):
            return "total probes not conserved by do_call(filters=%r)" % (old["filters"],)
        for c in set(old["cnarr"].chromosome):
            src = old["cnarr"].data[old["cnarr"].data.chromosome == c]
            dst = a[a.chromosome == c]
            if int(dst.start.min()) != int(src.start.min()) or int(dst.end.max()) != int(src.end.max()):
                return "covered span of %s not conserved" % c


contract("prop::C14.do_call_filter_order", params=dict(cnarr=ObjT("CopyNumArray")), bounded=True,
         gen=_gen_call_filters, call=_call_with_filters, props=("C14", "C10"),
         modifies=(), checks=[("ci_sem_first_then_given_order", _chk_call_order)],
         notes="also a frame check: the caller's filters list and cnarr must be unchanged (C10)")


# ----------------------------------------------------------------------------- deductive: the level each filter hands to the run merger
from .c_call import CHROM, GENE      # noqa: E402

_SEGT = ObjT("CopyNumArray", data=TabT(index="range", chromosome=CHROM, start=Int, end=Int, gene=GENE, log2=Real, probes=Int,
                                       weight=Real, ci_lo=Real, ci_hi=Real, sem=Real, cn=Int), meta=DictT())

# The runs formed by the merger are the ghost blocks [group_lo(r), group_lo(r+1)), r < n_groups().  The clauses below are
# written once, over a segment table `cnarr` and a level vector `levels`; each filter instantiates `levels` with its own
# level definition.
_LO, _HI = "group_lo(r)", "group_lo(r + 1)"
_SORTED_BY_CHROM = ("forall(0, len(T.data), lambda a: forall(0, len(T.data), lambda b: forall(0, len(T.data), lambda c: "
                    "implies(a < b and b < c and T.data.chromosome[a] == T.data.chromosome[c], "
                    "T.data.chromosome[b] == T.data.chromosome[a]))))")
_RUN_CLAUSES = [
    # the runs: consecutive rows [group_lo(r), group_lo(r+1)), r < n_groups(), partition the table in order
    ("one_row_per_run", "len(result.data) == n_groups() and group_lo(0) == 0 and group_lo(n_groups()) == len(cnarr.data) and "
                        "forall(0, n_groups(), lambda r: 0 <= LO and LO < HI and HI <= len(cnarr.data))"),
    # inside a run neighbouring segments share chromosome and level ...
    ("runs_share_chromosome", "forall(0, n_groups(), lambda r: forall(0, len(cnarr.data), lambda k: implies(LO <= k and k + 1 < HI, "
                              "cnarr.data.chromosome[k] == cnarr.data.chromosome[k + 1])))"),
    ("runs_share_level", "forall(0, n_groups(), lambda r: forall(0, len(cnarr.data), lambda k: implies(LO <= k and k + 1 < HI, "
                         "levels[k] == levels[k + 1])))"),
    ("levels_constant_in_run", "forall(0, n_groups(), lambda r: forall(0, len(cnarr.data), lambda k: implies(LO <= k and k < HI, "
                               "implies(use('adjacent_equal_constant', f=levels, lo=LO, k=k), levels[k] == levels[LO]))))"),
    # ... and a run ends only where the chromosome or the level changes (runs are maximal)
    ("runs_are_maximal", "forall(1, n_groups(), lambda r: let(lambda k: cnarr.data.chromosome[k] != cnarr.data.chromosome[k + 1] or "
                         "levels[k] != levels[k + 1], LO - 1))"),
    # each run becomes one segment: first start to last end ...
    ("run_summary", "forall(0, n_groups(), lambda r: result.data.chromosome[r] == cnarr.data.chromosome[LO] and "
                    "result.data.start[r] == cnarr.data.start[LO] and result.data.end[r] == cnarr.data.end[HI - 1])"),
    # ... whose probes and weight are the sums over the run and whose log2 is the weight-averaged log2 of the run
    ("run_totals", "forall(0, n_groups(), lambda r: result.data.probes[r] == sumof(Vec(HI - LO, lambda j: cnarr.data.probes[LO + j])) and "
                   "result.data.weight[r] == sumof(Vec(HI - LO, lambda j: cnarr.data.weight[LO + j])))"),
    ("run_log2", "forall(0, n_groups(), lambda r: result.data.log2[r] == ite(sumof(Vec(HI - LO, lambda j: cnarr.data.weight[LO + j])) > 0, "
                 "sumof(Vec(HI - LO, lambda j: cnarr.data.log2[LO + j] * cnarr.data.weight[LO + j])) / "
                 "sumof(Vec(HI - LO, lambda j: cnarr.data.weight[LO + j])), "
                 "sumof(Vec(HI - LO, lambda j: cnarr.data.log2[LO + j])) / (HI - LO)))"),
]
_RUN_CLAUSES.append(
    # ... and whose copy number lies within the range of the run's copy numbers
    ("run_cn_within_range", "forall(0, n_groups(), lambda r: forall(lambda c: implies(uf_bool('bound', c), "
                            "implies(forall(0, HI - LO, lambda j: c <= cnarr.data.cn[j + LO]), c <= result.data.cn[r]) and "
                            "implies(forall(0, HI - LO, lambda j: cnarr.data.cn[j + LO] <= c), result.data.cn[r] <= c))))"))
_RUN_CLAUSES = [(lab, t.replace("LO", _LO).replace("HI", _HI)) for lab, t in _RUN_CLAUSES]
_RESULT_T = ObjT("CopyNumArray", data=TabT(index="range", chromosome=CHROM, start=Int, end=Int, log2=Real, gene=GENE, probes=Int,
                                           weight=Real, cn=Real), meta=DictT())

contract(
    "cnvlib/segfilters.py::squash_by_groups",
    params=dict(cnarr=_SEGT, levels=SeriesT(Real, like="cnarr"), by_arm=Lit(False)),
    returns=_RESULT_T,
    requires=[
        # segments of one chromosome are consecutive rows (a sorted segment table)
        _SORTED_BY_CHROM.replace("T", "cnarr"),
        # the filters' levels are whole numbers (-1/0/1, copy numbers)
        "forall(0, len(levels), lambda k: levels[k] == floor(levels[k]))",
        "forall(0, len(cnarr.data), lambda k: cnarr.data.weight[k] >= 0)",
    ],
    ghost=dict(chain_ensures=True, locals_visible=True, eager_triggers=True, introduces_groups=True),
    ensures=[
        # stepping stones (each proved, then used by the clauses below): the chromosome rank and the level-change counter
        # are both sorted along the rows, so their sum -- the grouping key -- is, and equal keys mean equal parts
        ("rank_sorted", "forall(0, len(cnarr.data), lambda k: implies(k + 1 < len(cnarr.data), local_chrom_col[k] <= local_chrom_col[k + 1]))"),
        ("counter_sorted", "forall(0, len(cnarr.data), lambda k: implies(k + 1 < len(cnarr.data), "
                           "local_change_levels[k] - local_chrom_col[k] <= local_change_levels[k + 1] - local_chrom_col[k + 1]))"),
        ("counter_steps_where_level_changes", "forall(0, len(cnarr.data), lambda k: implies(k + 1 < len(cnarr.data), "
            "(local_change_levels[k] - local_chrom_col[k] == local_change_levels[k + 1] - local_chrom_col[k + 1]) == (levels[k] == levels[k + 1])))"),
        ("rank_steps_where_chromosome_changes", "forall(0, len(cnarr.data), lambda k: implies(k + 1 < len(cnarr.data), "
            "(local_chrom_col[k] == local_chrom_col[k + 1]) == (cnarr.data.chromosome[k] == cnarr.data.chromosome[k + 1])))"),
        ("key_steps_only_where_something_changes", "forall(0, len(cnarr.data), lambda k: implies(k + 1 < len(cnarr.data) and "
            "local_change_levels[k] < local_change_levels[k + 1], cnarr.data.chromosome[k] != cnarr.data.chromosome[k + 1] or "
            "levels[k] != levels[k + 1]))"),
        ("key_constant_in_run", "forall(0, n_groups(), lambda r: forall(0, len(cnarr.data), lambda k: implies(LO <= k and k < HI, "
                                "local_change_levels[k] == local_change_levels[LO])))".replace("LO", _LO).replace("HI", _HI)),
        ("key_steps_between_runs", "forall(1, n_groups(), lambda r: let(lambda k: local_change_levels[k] < local_change_levels[k + 1], LO - 1))".replace("LO", _LO)),
    ] + [(lab, text, {"run_cn_within_range": ["cn_within_the_runs_range"], "run_log2": ["weight_averaged_log2", "sums_conserved"],
                      "run_totals": ["sums_conserved"], "run_summary": ["span", "one_row"]}.get(lab))
         for lab, text in _RUN_CLAUSES],
    props=("C14",), domain="skip",
    canaries=[("levels_ignored", "change_levels += chrom_col", "change_levels = chrom_col"),
              ("chromosomes_ignored", "change_levels += chrom_col", "pass"),
              (("abs_dropped", "cnvlib/segfilters.py::enumerate_changes"), ".abs()", ""),
              (("counter_not_cumulative", "cnvlib/segfilters.py::enumerate_changes"), ".cumsum()", "")],
    notes="verified for by_arm=False, tables without allele-specific columns (cn1/cn2) and levels without missing values; "
          "pandas groupby(sort=False).apply on a neighbour-wise sorted key is modelled as 'maximal runs of equal key, in "
          "order' (lemma adjacent_monotone), Series.unique/map as first-appearance rank",
)


def _filter_contract(key, level_expr, extra_params=None, canaries=()):
    wrap = "let(lambda cnarr, levels: %s, segarr, Vec(len(segarr.data), lambda k: " + level_expr + "))"
    params = dict(segarr=_SEGT)
    params.update(extra_params or {})
    contract(
        key, params=params, returns=_RESULT_T,
        requires=[_SORTED_BY_CHROM.replace("T", "segarr"), "forall(0, len(segarr.data), lambda k: segarr.data.weight[k] >= 0)"],
        # each clause follows from the merger's clause of the same name (plus one_row_per_run for the run boundaries)
        ensures=[(lab, wrap % text, [lab, "one_row_per_run"]) for lab, text in _RUN_CLAUSES],
        ghost=dict(decorated="require_column only raises when the named columns are missing; they are present here"),
        props=("C14",), domain="skip", canaries=list(canaries),
    )


_filter_contract("cnvlib/segfilters.py::ci",
                 "ite(segarr.data.ci_hi[k] < 0, -1, ite(segarr.data.ci_lo[k] > 0, 1, 0))",
                 canaries=[("lo_ge", 'segarr["ci_lo"].values > 0', 'segarr["ci_lo"].values >= 0'),
                           ("hi_uses_lo", 'levels[segarr["ci_hi"].values < 0] = -1', 'levels[segarr["ci_lo"].values < 0] = -1')])
_filter_contract("cnvlib/segfilters.py::sem",
                 "ite(segarr.data.log2[k] + segarr.data.sem[k] * zscore < 0, -1, "
                 "ite(segarr.data.log2[k] - segarr.data.sem[k] * zscore > 0, 1, 0))",
                 extra_params=dict(zscore=Real),
                 canaries=[("margin_sign", 'levels[segarr["log2"] - margin > 0] = 1', 'levels[segarr["log2"] + margin > 0] = 1')])
_filter_contract("cnvlib/segfilters.py::cn", "segarr.data.cn[k]",
                 canaries=[("wrong_column", 'segarr["cn"]', 'segarr["probes"]')])


# ampdel: the same merger on the levels deleted (cn 0) / amplified (cn >= 5) / neither, then only the deleted and the
# amplified runs are kept.  The bounds 0, 1, 4, 5 are the points at which the merger's "copy number within the run's range"
# clause is used; the marker uf_bool('bound', .) is uninterpreted, so a clause proved under `implies(_BOUNDS, P)` with P
# free of the marker is P itself (take the interpretation that is true everywhere).
_BOUNDS = "(uf_bool('bound', 0) and uf_bool('bound', 1) and uf_bool('bound', 4) and uf_bool('bound', 5))"
_ALEV = "ite(segarr.data.cn[k] == 0, -1, ite(segarr.data.cn[k] >= 5, 1, 0))"
_LEVAT = "ite(segarr.data.cn[LO] == 0, -1, ite(segarr.data.cn[LO] >= 5, 1, 0))"
_AWRAP = "let(lambda cnarr, levels: %s, segarr, Vec(len(segarr.data), lambda k: " + _ALEV + "))"


def _amp(text):
    return (text.replace("ALEV", _ALEV).replace("LEVAT", _LEVAT).replace("BOUNDS", _BOUNDS)
            .replace("LO", _LO).replace("HI", _HI))


contract(
    "cnvlib/segfilters.py::ampdel",
    params=dict(segarr=_SEGT),
    returns=ObjT("CopyNumArray", data=TabT(index="masked", chromosome=CHROM, start=Int, end=Int, log2=Real, gene=GENE, probes=Int,
                                           weight=Real, cn=Real), meta=DictT()),
    requires=[_SORTED_BY_CHROM.replace("T", "segarr"),
              "forall(0, len(segarr.data), lambda k: segarr.data.weight[k] >= 0 and segarr.data.cn[k] >= 0)"],
    ensures=[
        # the runs [group_lo(r), group_lo(r+1)) partition the table, share chromosome and level, and are maximal
        ("runs_partition_the_table", _amp("group_lo(0) == 0 and group_lo(n_groups()) == len(segarr.data) and "
                                          "forall(0, n_groups(), lambda r: 0 <= LO and LO < HI and HI <= len(segarr.data))"),
         ["one_row_per_run"]),
        ("runs_share_chromosome", _AWRAP % dict(_RUN_CLAUSES)["runs_share_chromosome"], ["runs_share_chromosome", "one_row_per_run"]),
        ("run_members_share_the_level", _amp("forall(0, n_groups(), lambda r: forall(0, len(segarr.data), lambda k: "
                                             "implies(LO <= k and k < HI, ALEV == LEVAT)))"),
         ["levels_constant_in_run", "one_row_per_run"]),
        ("runs_are_maximal", _AWRAP % dict(_RUN_CLAUSES)["runs_are_maximal"], ["runs_are_maximal", "one_row_per_run"]),
        # stepping stone: the merged copy number of a run is 0 for a deleted run, at least 5 for an amplified one and
        # between 1 and 4 otherwise
        ("merged_cn_by_level", _amp("implies(BOUNDS, forall(0, n_groups(), lambda r: implies(LEVAT == -1, local_cnarr.data.cn[r] == 0) and "
                                    "implies(LEVAT == 1, local_cnarr.data.cn[r] >= 5) and "
                                    "implies(LEVAT == 0, 1 <= local_cnarr.data.cn[r] and local_cnarr.data.cn[r] <= 4)))"),
         ["run_members_share_the_level", "run_cn_within_range", "one_row_per_run"]),
        # result.data.index[j] is the number of the run that row j comes from: exactly the deleted and the amplified runs are
        # kept, in order, each from its first start to its last end, with the run's sums and weight-averaged log2
        ("kept_rows_are_deleted_or_amplified_runs", _amp(
            "implies(BOUNDS, forall(0, len(result.data), lambda j: let(lambda r: 0 <= r and r < n_groups() and LEVAT != 0 and "
            "result.data.chromosome[j] == segarr.data.chromosome[LO] and result.data.start[j] == segarr.data.start[LO] and "
            "result.data.end[j] == segarr.data.end[HI - 1], result.data.index[j])))"),
         ["merged_cn_by_level", "one_row_per_run", "run_summary"]),
        ("kept_rows_conserve_what_they_merge", _amp(
            "forall(0, len(result.data), lambda j: let(lambda r: implies(0 <= r and r < n_groups(), "
            "result.data.probes[j] == sumof(Vec(HI - LO, lambda i: segarr.data.probes[LO + i])) and "
            "result.data.weight[j] == sumof(Vec(HI - LO, lambda i: segarr.data.weight[LO + i])) and "
            "result.data.log2[j] == ite(sumof(Vec(HI - LO, lambda i: segarr.data.weight[LO + i])) > 0, "
            "sumof(Vec(HI - LO, lambda i: segarr.data.log2[LO + i] * segarr.data.weight[LO + i])) / "
            "sumof(Vec(HI - LO, lambda i: segarr.data.weight[LO + i])), "
            "sumof(Vec(HI - LO, lambda i: segarr.data.log2[LO + i])) / (HI - LO))), result.data.index[j]))"),
         ["run_totals", "run_log2", "one_row_per_run"]),
        ("in_order", "forall(0, len(result.data), lambda a: forall(0, len(result.data), lambda b: "
                     "implies(a < b, result.data.index[a] < result.data.index[b])))"),
        ("every_deleted_or_amplified_run_kept", _amp(
            "implies(BOUNDS, forall(0, n_groups(), lambda r: implies(LEVAT != 0, "
            "exists(0, len(result.data), lambda j: result.data.index[j] == r))))"),
         ["merged_cn_by_level", "one_row_per_run"]),
    ],
    ghost=dict(decorated="require_column only raises when the named columns are missing; they are present here",
               chain_ensures=True, locals_visible=True),
    props=("C14",), domain="skip",
    canaries=[("amplified_from_four", 'levels[segarr["cn"] >= 5] = 1', 'levels[segarr["cn"] >= 4] = 1'),
              ("deletions_marked_as_gains", 'levels[segarr["cn"] == 0] = -1', 'levels[segarr["cn"] == 0] = 1'),
              ("keeps_the_neutral_runs", 'cnarr[(cnarr["cn"] == 0) | (cnarr["cn"] >= 5)]', 'cnarr[(cnarr["cn"] != 0) & (cnarr["cn"] < 5)]')],
    notes="result.data.index holds the run numbers of the kept rows (the filter keeps the merger's row labels)",
)


# ----------------------------------------------------------------------------- deductive: what one merged run becomes
# (the grouping of rows into runs by pandas groupby stays with the bounded contracts; this is the per-run reduction,
#  for every run length: the "conserve what they merge" clause)
_GRP = TabT(opt=("probes", "depth", "cn", "p_bintest"), index="any", chromosome=CHROM, start=Int, end=Int, gene=GENE,
            log2=Real, probes=Int, weight=Real, depth=Real, cn=Int, p_bintest=Real)

contract(
    "cnvlib/segfilters.py::squash_region",
    params=dict(cnarr=_GRP),
    returns=TabT(opt=("depth", "cn", "p_bintest"), index="range", chromosome=CHROM, start=Int, end=Int, log2=Real, gene=GENE,
                 probes=Int, weight=Real, depth=Real, cn=Real, p_bintest=Real),
    requires=["len(cnarr) >= 1", "forall(0, len(cnarr), lambda k: cnarr.weight[k] >= 0)"],
    ensures=[
        ("one_row", "len(result) == 1"),
        ("span", "result.chromosome[0] == cnarr.chromosome[0] and result.start[0] == cnarr.start[0] and "
                 "result.end[0] == cnarr.end[len(cnarr) - 1]"),
        ("sums_conserved", "result.weight[0] == sumof(cnarr.weight) and "
                           "result.probes[0] == (sumof(cnarr.probes) if 'probes' in cnarr else len(cnarr))"),
        # the merged copy number respects every bound that all copy numbers of the run respect (it lies within their range)
        ("cn_within_the_runs_range", "'cn' not in cnarr or forall(lambda c: implies(uf_bool('bound', c), "
                                     "implies(forall(0, len(cnarr), lambda k: c <= cnarr.cn[k]), c <= result.cn[0]) and "
                                     "implies(forall(0, len(cnarr), lambda k: cnarr.cn[k] <= c), result.cn[0] <= c)))"),
        ("weight_averaged_log2", "result.log2[0] == ite(sumof(cnarr.weight) > 0, "
                                 "sumof(Vec(len(cnarr), lambda k: cnarr.log2[k] * cnarr.weight[k])) / sumof(cnarr.weight), "
                                 "sumof(cnarr.log2) / len(cnarr))"),
    ],
    props=("C14",), domain="skip",
    canaries=[("last_start", 'cnarr["end"].iat[-1]', 'cnarr["end"].iat[0]'),
              ("unweighted", 'out["log2"] = np.average(cnarr["log2"], weights=cnarr["weight"])', 'out["log2"] = np.mean(cnarr["log2"])')],
)

"""Contracts for segmentation (C03): cnvlib/segmentation/{__init__,none,haar,hmm}.py, GenomicArray.by_arm."""
from .dsl import *     # noqa
from . import vocab    # noqa


def _bin_table(rng, tier, nchrom=None, nbins=None, force_hole=False):
    """bin tables: 1..6 chromosomes incl. X/Y, 1..400 bins each (quick: ..130), with/without a centromere-sized gap,
    zero-weight bins, null-coverage bins at the edges and in the interior, duplicate gene names, Antitarget/ignored names"""
    import numpy as np
    import pandas as pd
    from cnvlib.cnary import CopyNumArray
    chroms = sorted(rng.sample(["chr1", "chr2", "chr5", "chr17", "chrX", "chrY"], nchrom or rng.randint(1, 4 if tier == "quick" else 6)),
                    key=lambda c: ["chr1", "chr2", "chr5", "chr17", "chrX", "chrY"].index(c))
    rows = []
    for c in chroms:
        n = nbins or rng.choice([1, 2, 3, 10, 40, 130 if tier == "quick" else 400, 260])
        pos = rng.choice([0, 10000])
        gap_at = rng.randrange(n) if (n > 105 and rng.random() < 0.6 and not force_hole) else None
        level = rng.choice([0.0, 0.0, -0.8, 0.5])
        step_at = rng.randrange(n) if rng.random() < 0.5 else None
        hole = None
        if n > 105 and (force_hole or rng.random() < 0.5):
            # a run of interior null-coverage bins: filtering them opens a centromere-sized gap among the survivors
            hl = 60 if force_hole else rng.choice([1, 30, 60])
            h0 = rng.randrange(52, max(53, n - 52 - hl))
            hole = (h0, h0 + hl)
        for k in range(n):
            if k == gap_at:
                pos += 3000000
            if k == step_at:
                level += rng.choice([-1.0, 0.6, 1.0])
            L = rng.choice([200, 500, 1000]) if not hole else 2000
            lg = level + rng.gauss(0, 0.08)
            w = rng.uniform(0.3, 1.0)
            dep = max(0.0, 100 * 2 ** lg + rng.gauss(0, 3))
            u = rng.random()
            edge = k < 2 or k >= n - 2
            if u < (0.25 if edge else 0.04):
                w = 0.0
            elif u < (0.45 if edge else 0.08) or (hole and hole[0] <= k < hole[1]):
                lg, dep = -24.0 + rng.random(), 0.0          # null coverage
            rows.append(dict(chromosome=c, start=pos, end=pos + L,
                             gene=rng.choice(["A", "A", "B", "C", "Antitarget", "Background", "-", ".", "CGH", "D"]),
                             log2=lg, depth=dep, weight=w))
            pos += L + rng.choice([0, 0, 100, 5000])
    return CopyNumArray(pd.DataFrame(rows), {"sample_id": "s"})


def _gen_seg(rng, tier, i):
    if i >= (160 if tier == "quick" else 3000):
        return None
    method = ["none", "haar", "hmm", "hmm-tumor", "hmm-germline"][i % 5] if rng.random() < 0.8 else rng.choice(["none", "haar"])
    small = method.startswith("hmm")
    if method in ("none", "haar") and rng.random() < 0.3:
        # filtering opens a centromere-sized gap inside an arm (a run of interior null-coverage bins, skip_low on)
        cn = _bin_table(rng, tier, nchrom=rng.randint(1, 2), nbins=260, force_hole=True)
        return dict(cnarr=cn, method=method, skip_low=True, skip_outliers=rng.choice([0, 10]), min_weight=0,
                    processes=rng.choice([1, 2]))
    cn = _bin_table(rng, tier, nchrom=rng.randint(1, 2) if small else None,
                    nbins=(rng.choice([40, 130]) if rng.random() < 0.8 else None) if small else None)
    return dict(cnarr=cn, method=method, skip_low=rng.random() < 0.5, skip_outliers=rng.choice([0, 10]),
                min_weight=rng.choice([0, 0, 0.5]), processes=rng.choice([1, 1, 2, 3, 16]) if not small else 1)


_gen_seg.__doc__ = (_bin_table.__doc__ + "; methods none, haar, hmm, hmm-tumor, hmm-germline; skip_low on/off; outlier "
                    "filter on/off; min_weight; 1..16 processes")


def _call_seg(fn, a):
    from cnvlib import segmentation
    return segmentation.do_segmentation(a["cnarr"], a["method"], skip_low=a["skip_low"], skip_outliers=a["skip_outliers"],
                                        min_weight=a["min_weight"], processes=a["processes"])


def _survivors(arm, skip_low, skip_outliers, min_weight):
    """the bins that survive filtering, computed with the package's own filter functions on a copy (the filters
    themselves belong to other properties; what is checked here is what segmentation does with the survivors)"""
    from cnvlib import segmentation
    f = arm.copy()
    if skip_low:
        f = f.drop_low_coverage(verbose=False)
    if skip_outliers:
        f = segmentation.drop_outliers(f, 50, skip_outliers)
    if min_weight:
        bad = (f["weight"] < min_weight).fillna(True)
    else:
        bad = (f["weight"] == 0).fillna(True)
    if len(bad) and bad.sum():
        f = f[~bad]
    return f


def _close(a, b, tol=1e-6):
    return abs(a - b) <= tol * max(1.0, abs(a), abs(b))


def _chk_seg(args, res, old):
    import numpy as np
    cn, method = old["cnarr"], old["method"]
    per_arm = method in ("none", "haar")
    segs = res
    if len(cn) == 0:
        return None
    srows_all = list(segs.data.itertuples(index=False))
    if not all(c1 == c2 for c1, c2 in zip(list(dict.fromkeys(r.chromosome for r in srows_all)),
                                             [c for c in dict.fromkeys(cn.chromosome) if c in set(r.chromosome for r in srows_all)])):
        return "segment chromosomes out of order"
    arms = [(c, a) for c, a in cn.by_arm()]
    total_surv = 0
    for chrom in dict.fromkeys(cn.chromosome):
        chrom_bins = cn.data[cn.data.chromosome == chrom]
        srows = [r for r in srows_all if r.chromosome == chrom]
        units = [a for c, a in arms if c == chrom] if per_arm else [cn[cn.chromosome == chrom]]
        surv_all = []
        for u in units:
            surv_all.append(_survivors(u, old["skip_low"], old["skip_outliers"], old["min_weight"]))
        nsurv = sum(len(s) for s in surv_all)
        total_surv += nsurv
        if nsurv and not srows:
            return "chromosome %s has surviving bins but no segment" % chrom
        # sorted, positive length, non-overlapping, within the span of the chromosome's input bins
        for r in srows:
            if not r.start < r.end:
                if r.probes == 0:
                    continue
                return "segment %r has no positive length" % (tuple(r)[:3],)
        real = [r for r in srows if r.probes > 0 or nsurv == 0]
        for a, b in zip(srows, srows[1:]):
            if b.start < a.end:
                return "segments overlap or are unsorted on %s: %r then %r" % (chrom, tuple(a)[:3], tuple(b)[:3])
        if srows and (srows[0].start < int(chrom_bins.start.min()) or srows[-1].end > int(chrom_bins.end.max())):
            return "segments on %s leave the span of its input bins" % chrom
        # every surviving bin in exactly one segment; probes = number of surviving bins it contains
        for s in surv_all:
            for b in s.data.itertuples(index=False):
                inside = [r for r in srows if r.start <= b.start and b.end <= r.end]
                if len(inside) != 1:
                    return "surviving bin %r lies in %d segments (method %s)" % (tuple(b)[:3], len(inside), method)
        for r in srows:
            cnt = sum(1 for s in surv_all for b in s.data.itertuples(index=False) if r.start <= b.start and b.end <= r.end)
            if int(r.probes) != cnt:
                return "segment %r reports probes=%r but contains %d surviving bins (method %s, filters %r)" % (
                    tuple(r)[:3], r.probes, cnt, method, (old["skip_low"], old["skip_outliers"], old["min_weight"]))
        # per-arm methods: first segment of each arm starts at the arm's first input bin, last ends at its last
        if per_arm:
            for u, sv in zip(units, surv_all):
                a_start, a_end = int(u.start.iat[0]), int(u.end.iat[-1])
                mine = [r for r in srows if a_start <= r.start and r.end <= a_end]
                if not len(sv):
                    continue          # no surviving bin on this arm: nothing is claimed for it
                if not mine:
                    return "arm %s:%d-%d has no segment" % (chrom, a_start, a_end)
                if mine[0].start != a_start or mine[-1].end != a_end:
                    return "arm %s:%d-%d: segments run %d-%d (edge bins filtered: first/last segment must reach the arm's first/last input bin)" % (
                        chrom, a_start, a_end, mine[0].start, mine[-1].end)
        # weight = sum, depth = weight-averaged depth over all input bins spanned; gene = distinct meaningful names in order
        for r in srows:
            spanned = chrom_bins[(chrom_bins.end > r.start) & (chrom_bins.start < r.end)]
            w = float(spanned.weight.sum())
            if not _close(float(r.weight), w):
                return "segment %r weight %r != sum of spanned bin weights %r" % (tuple(r)[:3], r.weight, w)
            if w > 0:
                d = float((spanned.depth * spanned.weight).sum() / w)
                if not _close(float(r.depth), d):
                    return "segment %r depth %r != weighted mean depth %r" % (tuple(r)[:3], r.depth, d)
            names = []
            for g in spanned.gene:
                if g not in ("-", ".", "CGH", "Antitarget", "Background") and g not in names:
                    names.append(g)
            want = ",".join(names) if names else "-"
            if r.gene != want:
                return "segment %r gene %r, expected %r" % (tuple(r)[:3], r.gene, want)
            if method == "none" or method.startswith("hmm"):
                sv = [b for s in surv_all for b in s.data.itertuples(index=False) if r.start <= b.start and b.end <= r.end]
                if sv:
                    sw = sum(b.weight for b in sv)
                    m = sum(b.weight * b.log2 for b in sv) / sw if sw > 0 else sum(b.log2 for b in sv) / len(sv)
                    if not _close(float(r.log2), m):
                        return "segment %r log2 %r != weight-averaged log2 of its surviving bins %r (method %s)" % (
                            tuple(r)[:3], r.log2, m, method)
    if int(sum(r.probes for r in srows_all)) != total_surv:
        return "probes sum to %d, %d bins survived" % (sum(r.probes for r in srows_all), total_surv)


contract("cnvlib/segmentation/__init__.py::do_segmentation", params=dict(cnarr=ObjT("CopyNumArray")), bounded=True,
         gen=_gen_seg, call=_call_seg, props=("C03",), checks=[("tiling_probes_edges_aggregates", _chk_seg)])


def _gen_arm(rng, tier, i):
    """bin tables with and without centromere-sized gaps"""
    if i >= (300 if tier == "quick" else 5000):
        return None
    return dict(cnarr=_bin_table(rng, tier))


def _chk_arm(args, res, old):
    cn = old["cnarr"]
    parts = list(res)
    rows = [tuple(r) for _c, a in parts for r in a.data.itertuples(index=False)]
    if rows != [tuple(r) for r in cn.data.itertuples(index=False)]:
        return "by_arm pieces do not concatenate to the input bins"
    per = {}
    for c, a in parts:
        per[c] = per.get(c, 0) + 1
        if len(set(a.chromosome)) != 1 or a.chromosome.iat[0] != c or not len(a):
            return "arm piece labelled %s is empty or mixes chromosomes" % c
    if any(v > 2 for v in per.values()):
        return "more than two arms on a chromosome: %r" % per
    # where the arms part: at the largest gap between neighbouring bins of the chromosome's interior (at least
    # max(50, 10%) bins away from either end), provided that gap is centromere-sized (>= 100 kb); otherwise one piece
    for c in per:
        sub = cn.data[cn.data.chromosome == c]
        n = len(sub)
        margin = max(50, int(round(0.1 * n)))
        st_, en_ = list(sub.start), list(sub.end)
        split = None
        if n > 2 * margin + 1:
            cand = [(st_[j] - en_[j - 1], -j) for j in range(margin + 1, n - margin)]
            if cand:
                g, negj = max(cand)
                if g >= 100000:
                    split = -negj
        pieces = [a for cc, a in parts if cc == c]
        got = None if len(pieces) == 1 else len(pieces[0])
        if got != split:
            return "by_arm splits %s (%d bins) before bin %r, the largest interior gap is before bin %r" % (c, n, got, split)


contract("skgenome/gary.py::GenomicArray.by_arm", params=dict(cnarr=ObjT("CopyNumArray")), bounded=True, gen=_gen_arm,
         call=lambda fn, a: list(a["cnarr"].by_arm()), props=("C03", "C10"), checks=[("partition_per_chromosome", _chk_arm)],
         modifies=("cnarr",), notes="by_arm re-casts the chromosome column to str in place (value-preserving); the frame "
                                    "check on the receiver is done in the C10 sequences contract by value")


# ----------------------------------------------------------------------------- deductive: the one-segment-per-arm method
from .c_genes import _WBINS       # noqa: E402

contract(
    "cnvlib/segmentation/none.py::segment_none",
    params=dict(cnarr=_WBINS),
    returns=ObjT("CopyNumArray", data=TabT(index="range"), meta=DictT()),
    requires=["len(cnarr.data) >= 1",
              "'weight' not in cnarr.data or forall(0, len(cnarr.data), lambda k: cnarr.data.weight[k] >= 0)"],
    ensures=[
        ("one_segment", "len(result.data) == 1"),
        ("spans_the_arm", "result.data.chromosome[0] == cnarr.data.chromosome[0] and result.data.start[0] == cnarr.data.start[0] "
                          "and result.data.end[0] == cnarr.data.end[len(cnarr.data) - 1]"),
        ("probes_count_bins", "result.data.probes[0] == len(cnarr.data)"),
        ("log2_is_weighted_mean", "not isnull(result.data.log2[0]) and val(result.data.log2[0]) == ite("
                                  "'weight' in cnarr.data and exists(0, len(cnarr.data), lambda k: cnarr.data.weight[k] != 0), "
                                  "sumof(Vec(len(cnarr.data), lambda k: cnarr.data.log2[k] * cnarr.data.weight[k])) / sumof(cnarr.data.weight), "
                                  "sumof(cnarr.data.log2) / len(cnarr.data))"),
    ],
    props=("C03",), domain="skip",
    canaries=[("end_of_first_bin", "cnarr.end.iat[-1]", "cnarr.end.iat[0]")],
)


# ----------------------------------------------------------------------------- deductive: transfer_fields (every method's last step)
# Each segment's weight is the sum, and its depth the weight-averaged depth, of the bins overlapping it; the first start and
# the last end are stretched to the arm's first / last bin; the other columns stay as the method left them.
from .c_call import CHROM, GENE      # noqa: E402

_TSEG = ObjT("CopyNumArray", data=TabT(index="range", chromosome=CHROM, start=Int, end=Int, gene=GENE, log2=Real, probes=Int), meta=DictT())
_TBIN = ObjT("CopyNumArray", data=TabT(index="any", chromosome=CHROM, start=Int, end=Int, gene=GENE, log2=Real, depth=Real, weight=Real), meta=DictT())
_TB = TabT(index="range", chromosome=CHROM, start=Int, end=Int, gene=GENE, log2=Real, depth=Real, weight=Real)
_TS = TabT(index="range", chromosome=CHROM, start=Int, end=Int, gene=GENE, log2=Real, probes=Int)
_SLO, _SHI = "uf_int('slice_lo', q)", "uf_int('slice_hi', q)"

contract(
    "skgenome/intersect.py::iter_slices",
    params=dict(table=_TB, other=_TS, mode=Lit("outer"), keep_empty=Lit(False)),
    yields=VecT(Int), trusted=True,
    requires=[
        # rows of one chromosome are consecutive and sorted, none nested in another ...
        "forall(0, len(table), lambda a: forall(0, len(table), lambda b: implies(a <= b and table.chromosome[a] == table.chromosome[b], "
        "table.start[a] <= table.start[b] and table.end[a] <= table.end[b] and "
        "forall(0, len(table), lambda c: implies(a <= c and c <= b, table.chromosome[c] == table.chromosome[a])))))",
        # ... and every range overlaps at least one row (so that keep_empty=False skips nothing)
        "forall(0, len(other), lambda q: exists(0, len(table), lambda r: table.chromosome[r] == other.chromosome[q] and "
        "table.end[r] > other.start[q] and table.start[r] < other.end[q]))",
    ],
    ensures=[
        ("one_index_array_per_range", "len(result) == len(other)"),
        ("block_of_overlapping_rows", "forall(0, len(other), lambda q: let(lambda lo, hi: 0 <= lo and lo < hi and hi <= len(table) and "
                                      "len(result[q]) == hi - lo and forall(0, hi - lo, lambda m: result[q][m] == lo + m) and "
                                      "forall(0, len(table), lambda r: (lo <= r and r < hi) == (table.chromosome[r] == other.chromosome[q] and "
                                      "table.end[r] > other.start[q] and table.start[r] < other.end[q])), SLO, SHI))".replace("SLO", _SLO).replace("SHI", _SHI)),
    ],
    props=(), domain="skip",
    notes="assumed where transfer_fields calls it (sorted bins, every segment overlapping at least one bin, so that "
          "keep_empty=False skips nothing): the positions of the bins overlapping range q are the block [slice_lo(q), "
          "slice_hi(q)); the bounded C07 contracts check iter_ranges_of / by_ranges built on the same kernel",
)

_WSUM = "sumof(Vec(SHI - SLO, lambda m: cnarr.data.weight[SLO + m]))".replace("SLO", _SLO).replace("SHI", _SHI)
_DSUM = "sumof(Vec(SHI - SLO, lambda m: cnarr.data.depth[SLO + m] * cnarr.data.weight[SLO + m]))".replace("SLO", _SLO).replace("SHI", _SHI)
# the same sums over the index arrays the loop iterates over (the code's own vectors)
_WSUM_L = "sumof(Vec(len(iter_[q][1]), lambda m: cnarr.data.weight[iter_[q][1][m]]))"
_DSUM_L = "sumof(Vec(len(iter_[q][1]), lambda m: cnarr.data.depth[iter_[q][1][m]] * cnarr.data.weight[iter_[q][1][m]]))"
contract(
    "cnvlib/segmentation/__init__.py::transfer_fields",
    params=dict(segments=_TSEG, cnarr=_TBIN),
    returns=ObjT("CopyNumArray"),
    requires=["len(cnarr.data) >= 1", "len(segments.data) >= 1",
              # the bins: positive length, rows of one chromosome consecutive and sorted, none nested in another
              "forall(0, len(cnarr.data), lambda r: cnarr.data.start[r] < cnarr.data.end[r])",
              "forall(0, len(cnarr.data), lambda a: forall(0, len(cnarr.data), lambda b: implies(a <= b and cnarr.data.chromosome[a] == cnarr.data.chromosome[b], "
              "cnarr.data.start[a] <= cnarr.data.start[b] and cnarr.data.end[a] <= cnarr.data.end[b] and "
              "forall(0, len(cnarr.data), lambda c: implies(a <= c and c <= b, cnarr.data.chromosome[c] == cnarr.data.chromosome[a])))))",
              # every segment overlaps at least one bin
              "forall(0, len(segments.data), lambda q: exists(0, len(cnarr.data), lambda r: cnarr.data.chromosome[r] == segments.data.chromosome[q] and "
              "cnarr.data.end[r] > segments.data.start[q] and cnarr.data.start[r] < segments.data.end[q]))"],
    loops={0: dict(inv=[
        ("lengths", "len(seg_weights) == len(segments.data) and len(seg_depths) == len(segments.data) and len(seg_genes) == len(segments.data)"),
        ("weights_summed", "forall(0, i_, lambda q: seg_weights[q] == WSUM)".replace("WSUM", _WSUM_L), ["lengths"]),
        ("depths_averaged", "forall(0, i_, lambda q: seg_depths[q] == ite(WSUM > 0, DSUM / WSUM, 0.0))".replace("WSUM", _WSUM_L).replace("DSUM", _DSUM_L), ["lengths"]),
    ])},
    ensures=[
        ("same_rows", "len(result.data) == len(segments.data)"),
        # the first segment's start and the last segment's end are stretched to the first / last bin (when on the same
        # chromosome); every other coordinate, and log2 and probes, stay as the segmentation method left them
        ("ends_stretched_to_the_bins", "forall(0, len(result.data), lambda q: "
                                       "result.data.start[q] == ite(q == 0 and old(segments.data.chromosome[0]) == cnarr.data.chromosome[0], cnarr.data.start[0], old(segments.data.start[q])) and "
                                       "result.data.end[q] == ite(q == len(result.data) - 1 and old(segments.data.chromosome[len(segments.data) - 1]) == cnarr.data.chromosome[len(cnarr.data) - 1], "
                                       "cnarr.data.end[len(cnarr.data) - 1], old(segments.data.end[q])))"),
        ("other_columns_kept", "forall(0, len(result.data), lambda q: result.data.chromosome[q] == old(segments.data.chromosome[q]) and "
                               "result.data.log2[q] == old(segments.data.log2[q]) and result.data.probes[q] == old(segments.data.probes[q]))"),
        # stepping stones: the sums over the index arrays that iter_slices handed out, and what those arrays are
        ("weights_over_index_arrays", "forall(0, len(result.data), lambda q: result.data.weight[q] == WSUM)".replace("WSUM", _WSUM_L.replace("iter_", "iter0_"))),
        ("depths_over_index_arrays", "forall(0, len(result.data), lambda q: result.data.depth[q] == ite(WSUM > 0, DSUM / WSUM, 0.0))"
                                     .replace("WSUM", _WSUM_L.replace("iter_", "iter0_")).replace("DSUM", _DSUM_L.replace("iter_", "iter0_"))),
        ("index_arrays_are_the_overlapping_bins", "len(iter0_) == len(result.data) and forall(0, len(result.data), lambda q: let(lambda lo, hi: 0 <= lo and lo < hi and hi <= len(cnarr.data) and "
                                                  "len(iter0_[q][1]) == hi - lo and forall(0, hi - lo, lambda m: iter0_[q][1][m] == lo + m) and "
                                                  "forall(0, len(cnarr.data), lambda r: (lo <= r and r < hi) == (cnarr.data.chromosome[r] == result.data.chromosome[q] and "
                                                  "cnarr.data.end[r] > result.data.start[q] and cnarr.data.start[r] < result.data.end[q])), SLO, SHI))".replace("SLO", _SLO).replace("SHI", _SHI)),
        # each segment's weight is the sum, and its depth the weight-averaged depth, of the bins overlapping it: the block
        # [slice_lo(q), slice_hi(q)) of the bin table
        ("weights_summed", "forall(0, len(result.data), lambda q: result.data.weight[q] == WSUM)".replace("WSUM", _WSUM),
         ["weights_over_index_arrays", "index_arrays_are_the_overlapping_bins", "same_rows", "-path"]),
        ("depths_averaged", "forall(0, len(result.data), lambda q: result.data.depth[q] == ite(WSUM > 0, DSUM / WSUM, 0.0))".replace("WSUM", _WSUM).replace("DSUM", _DSUM),
         ["depths_over_index_arrays", "index_arrays_are_the_overlapping_bins", "same_rows", "-path"]),
    ],
    ghost=dict(chain_ensures=True),
    modifies=("segments", "segments.data"),
    props=("C03",), domain="skip",
    canaries=[("unweighted_depth", "seg_dp = np.average(bin_depths[bin_idx], weights=bin_weights[bin_idx])", "seg_dp = bin_depths[bin_idx].mean()"),
              ("weight_of_first_bin", "seg_wt = bin_weights[bin_idx].sum()", "seg_wt = bin_weights[bin_idx][0]"),
              ("end_not_stretched", 'segments.data.iloc[-1, segments.data.columns.get_loc("end")] = bins_end', "pass"),
              ("start_stretched_to_the_last_bin", 'segments.data.iloc[0, segments.data.columns.get_loc("start")] = bins_start',
               'segments.data.iloc[0, segments.data.columns.get_loc("start")] = cnarr.start.iat[-1]'),
              ("columns_swapped", "gene=seg_genes, weight=seg_weights, depth=seg_depths", "gene=seg_genes, weight=seg_depths, depth=seg_weights")],
    notes="verified for bin tables with depth and weight columns and segment tables with default row labels; the gene-name "
          "column (distinct meaningful names joined by commas) is executed but not specified here -- the bounded C03 "
          "contracts check it; iter_slices is assumed (see its contract)",
)


# ----------------------------------------------------------------------------- deductive: HaarSeg's breakpoint bookkeeping
_K = "(i_ + 1)"
_SUSPECT = ("(SV is None or (1 <= some(SV) and some(SV) < K and (len(peakLoc) == 0 or peakLoc[len(peakLoc) - 1] < some(SV)) and "
            "signal[some(SV)] SIGN 0 and forall(0, len(signal), lambda t: implies(some(SV) <= t and t <= K, signal[t] == signal[some(SV)]))))")
contract(
    "cnvlib/segmentation/haar.py::FindLocalPeaks",
    params=dict(signal=VecT(Real)),
    returns=VecT(Int),
    requires=[],
    loops={0: dict(
        vars=dict(peakLoc=VecT(Int, kind="list"), maxSuspect=Opt(Int), minSuspect=Opt(Int)),
        inv=[("positions_so_far", "forall(0, len(peakLoc), lambda j: 1 <= peakLoc[j] and peakLoc[j] < K and "
                                  "forall(0, len(peakLoc), lambda j2: implies(j < j2, peakLoc[j] < peakLoc[j2])))".replace("K", _K)),
             ("open_maximum_plateau", _SUSPECT.replace("SV", "maxSuspect").replace("SIGN", ">").replace("K", _K)),
             ("open_minimum_plateau", _SUSPECT.replace("SV", "minSuspect").replace("SIGN", "<").replace("K", _K))])},
    ensures=[
        # the breakpoint candidates are interior positions in strictly increasing order (no position twice)
        ("interior_positions", "forall(0, len(result), lambda j: 1 <= result[j] and result[j] <= len(signal) - 2)"),
        ("strictly_increasing", "forall(0, len(result), lambda a: forall(0, len(result), lambda b: implies(a < b, result[a] < result[b])))"),
    ],
    props=("C03",), domain="skip",
    canaries=[("first_index_considered", "for k in range(1, len(signal) - 1):", "for k in range(0, len(signal) - 1):"),
              ("plateau_start_reported_twice", "                    peakLoc.append(maxSuspect)\n                    maxSuspect = None",
               "                    peakLoc.append(maxSuspect)"),
              ("plateau_start_kept_after_a_rise", "            elif (sig_curr == sig_prev) and (sig_curr < sig_next):\n                maxSuspect = None",
               "            elif (sig_curr == sig_prev) and (sig_curr < sig_next):\n                pass")],
    notes="HaarSeg's candidate breakpoints: the invariant keeps, for an open plateau, its start after the last reported "
          "position and the signal constant from there to the current index",
)

_JL = "joinedLevel"
_INC = "forall(0, len(V), lambda a: forall(0, len(V), lambda b: implies(a < b, V[a] < V[b])))"
_FROM = ("forall(0, len(V), lambda j: exists(0, len(baseLevel), lambda b: V[j] == baseLevel[b]) or "
         "exists(0, len(addonLevel), lambda a: V[j] == addonLevel[a]))")
_BASES_IN = "forall(0, BI, lambda b: exists(0, len(V), lambda j: V[j] == baseLevel[b]))"
contract(
    "cnvlib/segmentation/haar.py::UnifyLevels",
    params=dict(baseLevel=VecT(Int), addonLevel=VecT(Int), windowSize=Int),
    returns=VecT(Int),
    requires=["windowSize >= 0", _INC.replace("V", "baseLevel"), _INC.replace("V", "addonLevel")],
    loops={
        0: dict(vars=dict(joinedLevel=VecT(Int, kind="list")),
                inv=[("cursor", "0 <= addon_idx and addon_idx <= len(addonLevel)"),
                     ("increasing", _INC.replace("V", _JL)),
                     ("from_the_inputs", _FROM.replace("V", _JL)),
                     ("bases_kept", _BASES_IN.replace("V", _JL).replace("BI", "i_")),
                     ("last_is_the_previous_base", "implies(i_ > 0, len(joinedLevel) > 0 and joinedLevel[len(joinedLevel) - 1] == baseLevel[i_ - 1]) and "
                                                   "implies(i_ == 0, len(joinedLevel) == 0)"),
                     ("bounded_by_the_previous_base", "forall(0, len(joinedLevel), lambda j: implies(i_ > 0, joinedLevel[j] <= baseLevel[i_ - 1]))"),
                     ("next_addon_beyond_the_window", "implies(i_ > 0 and addon_idx < len(addonLevel), addonLevel[addon_idx] > baseLevel[i_ - 1] + windowSize)")]),
        1: dict(inv=[("cursor", "0 <= addon_idx and addon_idx <= len(addonLevel)"),
                     ("skipped_within_the_window", "implies(len(baseLevel) > 0 and addon_idx < len(addonLevel), True)")]),
        2: dict(vars=dict(joinedLevel=VecT(Int, kind="list")),
                inv=[("cursor", "0 <= addon_idx and addon_idx <= len(addonLevel)"),
                     ("increasing", _INC.replace("V", _JL)),
                     ("from_the_inputs", _FROM.replace("V", _JL)),
                     ("bases_kept", _BASES_IN.replace("V", _JL).replace("BI", "i0_")),
                     ("below_the_current_base", "forall(0, len(joinedLevel), lambda j: joinedLevel[j] < base_elem)"),
                     ("last_below_the_next_addon", "len(joinedLevel) == 0 or addon_idx == len(addonLevel) or "
                                                   "joinedLevel[len(joinedLevel) - 1] < addonLevel[addon_idx]")]),
    },
    ensures=[
        ("strictly_increasing", _INC.replace("V", "result")),
        ("from_the_inputs", _FROM.replace("V", "result")),
        ("bases_kept", _BASES_IN.replace("V", "result").replace("BI", "len(baseLevel)")),
    ],
    props=("C03",), domain="skip",
    canaries=[("window_ignored", "if addon_elem < base_elem - windowSize:", "if addon_elem <= base_elem:"),
              ("addon_equal_to_base_kept", "elif base_elem - windowSize <= addon_elem <= base_elem + windowSize:", "elif base_elem - windowSize <= addon_elem < base_elem:"),
              ("base_dropped", "        joinedLevel.append(base_elem)", "        pass"),
              ("tail_not_skipped", "while addon_idx < len(addonLevel) and addonLevel[addon_idx] <= last_pos:", "while False:")],
    notes="merging two levels of breakpoints: the result is strictly increasing (no breakpoint twice, so no empty segment), "
          "made of input positions only and keeps every base-level breakpoint; sorted() of an ordered list is the list",
)

contract("cnvlib/segmentation/haar.py::HaarConv", params=dict(signal=VecT(Real), weight=Opt(VecT(Real)), stepHalfSize=Int),
         returns=VecT(Real), trusted=True, requires=[], ensures=[("same_length", "len(result) == len(signal)")],
         props=(), domain="skip", notes="assumed: the convolved signal has the signal's length (the wavelet numerics are bounded only)")
contract("cnvlib/segmentation/haar.py::FDRThres", params=dict(x=VecT(Real), q=Real, stdev=Real), returns=Real, trusted=True,
         requires=[], ensures=[], props=(), domain="skip", notes="assumed: some threshold")
contract("cnvlib/segmentation/haar.py::SegmentByPeaks", params=dict(data=VecT(Real), peaks=VecT(Int), weights=Opt(VecT(Real))),
         returns=VecT(Real), trusted=True, requires=[], ensures=[("same_length", "len(result) == len(data)")],
         props=(), domain="skip", notes="assumed: one value per probe")

_ST, _ED, _SZ = "result['start']", "result['end']", "result['size']"
contract(
    "cnvlib/segmentation/haar.py::haarSeg",
    params=dict(I=VecT(Real), breaksFdrQ=Real, W=Opt(VecT(Real)), rawI=Lit(None)),
    returns=DictT(start=VecT(Int), end=VecT(Int), size=VecT(Int), mean=VecT(Real)),
    requires=["len(I) >= 1"],
    ensures=[
        ("one_row_per_segment", "len(result['start']) >= 1 and len(result['end']) == len(result['start']) and len(result['size']) == len(result['start']) and len(result['mean']) == len(result['start'])"),
        ("within_the_probes", "forall(0, len(result['start']), lambda j: 0 <= result['start'][j] and result['end'][j] <= len(I) - 1)"),
        ("segments_tile_the_probes", "result['start'][0] == 0 and result['end'][len(result['end']) - 1] == len(I) - 1 and forall(0, len(result['start']), lambda j: result['start'][j] <= result['end'][j] and "
                                     "result['size'][j] == result['end'][j] - result['start'][j] + 1 and implies(j + 1 < len(result['start']), result['start'][j + 1] == result['end'][j] + 1))"),
    ],
    props=("C03",), domain="skip",
    canaries=[("end_not_inclusive", '"end": segEd - 1,', '"end": segEd,'),
              ("first_probe_left_out", "segSt = np.insert(breakpoints, 0, 0)", "segSt = np.insert(breakpoints, 0, 1)"),
              ("last_probe_left_out", "segEd = np.append(breakpoints, len(I))", "segEd = np.append(breakpoints, len(I) - 1)")],
    notes="HaarSeg as a whole (five levels unrolled, with or without weights, no raw-intensity compensation): whatever the wavelet numerics "
          "return, the reported segments tile the probes 0..n-1 -- first start 0, last end n-1, each segment starting right "
          "after the previous one, size = end - start + 1 >= 1; rests on the proved contracts of FindLocalPeaks and UnifyLevels",
)

_ARM = ObjT("CopyNumArray", data=TabT(opt=("weight",), index="any", chromosome=CHROM, start=Int, end=Int, gene=GENE, log2=Real, weight=Real), meta=DictT())
contract("cnvlib/cnary.py::CopyNumArray.smooth_log2", params=dict(self=_ARM, bandwidth=Lit(None), by_arm=Lit(True)),
         returns=VecT(Real), trusted=True, requires=[], ensures=[("one_value_per_bin", "len(result) == len(self.data)")],
         props=(), domain="skip", notes="assumed: one smoothed value per bin (the smoothers are C19's business)")

contract(
    "cnvlib/segmentation/haar.py::one_chrom",
    params=dict(cnarr=_ARM, fdr_q=Real, chrom=CHROM),
    returns=TabT(index="range", chromosome=CHROM, start=Int, end=Int, log2=Real, gene=Str, probes=Int),
    requires=["len(cnarr.data) >= 1"],
    ensures=[
        ("at_least_one_segment", "len(result) >= 1"),
        # the segments are runs of consecutive bins lo(j)..hi(j) that tile the arm's bins: each from its first bin's start
        # to its last bin's end, probes = the number of bins in the run
        ("segments_are_runs_of_bins", "forall(0, len(result), lambda j: let(lambda lo, hi: 0 <= lo and lo <= hi and hi < len(cnarr.data) and "
                                      "result.start[j] == cnarr.data.start[lo] and result.end[j] == cnarr.data.end[hi] and result.probes[j] == hi - lo + 1 and "
                                      "result.chromosome[j] == chrom and "
                                      "implies(j == 0, lo == 0) and implies(j == len(result) - 1, hi == len(cnarr.data) - 1) and "
                                      "implies(j + 1 < len(result), local_results['start'][j + 1] == hi + 1), local_results['start'][j], local_results['end'][j]))"),
    ],
    ghost=dict(locals_visible=True),
    props=("C03",), domain="skip",
    canaries=[("end_taken_from_the_start_column", '"end": cnarr["end"].values.take(results["end"]),', '"end": cnarr["start"].values.take(results["end"]),'),
              ("end_of_the_first_bin", '"end": cnarr["end"].values.take(results["end"]),', '"end": cnarr["end"].values.take(results["start"]),'),
              ("probes_is_the_last_index", '"probes": results["size"],', '"probes": results["end"],')],
    notes="one chromosome arm through HaarSeg: every reported segment is a run of consecutive bins (local_results['start'][j] .. "
          "local_results['end'][j], the probe indices HaarSeg returns) from its first bin's start to its last bin's end with probes = "
          "the number of bins in the run; the runs tile the arm's bins in order; smooth_log2 is assumed (one value per bin)",
)

"""Contracts for skgenome/tabio readers/writers, rangelabel, chromsort  (C08)."""
import re

from .dsl import *     # noqa
from . import vocab    # noqa


def natural_key(name):
    """natural chromosome order of the statement: 1, 2, 10, X, Y, M (then other contigs)"""
    core = name[3:] if name.lower().startswith("chr") else name
    if core in ("X", "Y"):
        return (1000, core)
    m = re.match(r"\d*", core)
    num = int(m.group()) if m.group() else 0
    rest = core[len(m.group()):]
    if not rest:
        return (num, "")
    if len(rest) == 1:
        return (2000 + num, rest)
    return (3000 + num, rest)


def _regions(rng, tier, dotted=True, extra=True):
    """region tables: chromosome names of letters, digits, underscores (and dots, incl. alt/random/Un contigs, with or
    without chr prefix), unsorted input order, coordinates 0..3*10^8, duplicate rows, gene labels with commas / dots /
    dashes, extra integer and float columns"""
    import pandas as pd
    from skgenome import GenomicArray
    pref = rng.choice(["chr", ""])
    base = ["1", "2", "10", "21", "X", "Y", "M", "Un_gl000211", "17_gl000205_random", "6_apd_hap1"]
    if dotted:
        base += ["19_KI270866v1_alt", "Un_KI270742.1", "GL000192.1"]
    names = [pref + b if not b.startswith("GL") else b for b in rng.sample(base, rng.randint(1, 5))]
    rows = []
    n = rng.choice([1, 2, 5, 20]) if tier == "quick" else rng.choice([1, 2, 5, 20, 200])
    for _ in range(n):
        if rows and rng.random() < 0.1:
            rows.append(dict(rows[-1]))
            continue
        s = rng.choice([0, 1, 99, rng.randint(0, 3 * 10 ** 8 - 10)])
        e = s + rng.choice([1, 2, 100, 123456])
        rows.append(dict(chromosome=rng.choice(names), start=s, end=e,
                         gene=rng.choice(["TP53", "A,B", "x.1", "a-b", "-", "ref|NM_1.2,ens|E", "Antitarget"])))
    if extra:
        for r in rows:
            r["probes"] = rng.randint(0, 9999)
            r["log2"] = rng.choice([0.0, -1.0, 1e-7, 123456.789, rng.gauss(0, 1), rng.uniform(-1e-4, 1e4), 0.1234567891])
            r["weight"] = rng.choice([1.0, 0.5, rng.random()])
    rng.shuffle(rows)
    return GenomicArray(pd.DataFrame(rows), {"sample_id": "smp"})


def _gen_roundtrip(rng, tier, i):
    if i >= (400 if tier == "quick" else 8000):
        return None
    fmt = ["tab", "bed3", "bed4", "interval", "text"][i % 5]
    return dict(arr=_regions(rng, tier), fmt=fmt)


_gen_roundtrip.__doc__ = _regions.__doc__ + " x writer/reader format in tab, bed3, bed4, interval list, text"


def _call_roundtrip(fn, a):
    import os
    import shutil
    import tempfile
    from skgenome import tabio
    d = tempfile.mkdtemp(prefix="verif_c08_")
    try:
        p1 = os.path.join(d, "one.out")
        tabio.write(a["arr"], p1, a["fmt"])
        back = tabio.read(p1, a["fmt"])
        p2 = os.path.join(d, "two.out")
        tabio.write(back, p2, a["fmt"])
        back2 = tabio.read(p2, a["fmt"])
        p3 = os.path.join(d, "three.out")
        tabio.write(back2, p3, a["fmt"])
        return dict(back=back, same_bytes=open(p2).read() == open(p3).read(), first_line=open(p1).readline())
    finally:
        shutil.rmtree(d, ignore_errors=True)


def _sig6(x):
    return float("%.6g" % x)


def _chk_roundtrip(args, res, old):
    arr, fmt, back = old["arr"], old["fmt"], res["back"]
    src = sorted([tuple(r) for r in arr.data[["chromosome", "start", "end"]].itertuples(index=False)],
                 key=lambda r: (natural_key(r[0]), r[1], r[2]))
    got = [tuple(r) for r in back.data[["chromosome", "start", "end"]].itertuples(index=False)]
    if got != src:
        bad = [(g, s) for g, s in zip(got, src) if g != s][:3]
        return "%s: coordinates after write+read differ or are not in natural sorted order: %r (first written line %r)" % (
            fmt, bad or (len(got), len(src)), res["first_line"])
    if fmt in ("tab", "bed4", "interval"):      # bed3 and chr:start-end text carry coordinates only
        # names survive (sorting is stable, so compare as multisets per coordinate)
        a = sorted((r.chromosome, r.start, r.end, r.gene) for r in arr.data.itertuples(index=False))
        b = sorted((r.chromosome, r.start, r.end, r.gene) for r in back.data.itertuples(index=False))
        if a != b:
            return "%s: names after write+read differ: %r" % (fmt, [(x, y) for x, y in zip(a, b) if x != y][:3])
    if fmt == "tab":
        a = sorted((r.chromosome, r.start, r.end, r.gene, r.probes, _sig6(r.log2), _sig6(r.weight)) for r in arr.data.itertuples(index=False))
        b = sorted((r.chromosome, r.start, r.end, r.gene, r.probes, _sig6(r.log2), _sig6(r.weight)) for r in back.data.itertuples(index=False))
        if a != b:
            return "tab: integer columns / numbers to 6 significant digits differ: %r" % ([(x, y) for x, y in zip(a, b) if x != y][:3],)
    if not res["same_bytes"]:
        return "%s: writing the read-back table again does not give identical bytes" % fmt


contract("prop::C08.write_read_roundtrip", params=dict(arr=ObjT("GenomicArray"), fmt=Str), bounded=True,
         gen=_gen_roundtrip, call=_call_roundtrip, props=("C08",), checks=[("lossless_sorted_idempotent", _chk_roundtrip)])


# ----------------------------------------------------------------------------- auto-detection
def _gen_auto(rng, tier, i):
    """as above with names of letters, digits and underscores only (the alphabet the detection patterns accept) x
    formats tab, bed3, bed4, interval, text"""
    if i >= (300 if tier == "quick" else 6000):
        return None
    fmt = ["tab", "bed3", "bed4", "interval", "text"][i % 5]
    arr = _regions(rng, tier, dotted=False, extra=(fmt == "tab"))
    if fmt == "interval" and rng.random() < 0.6:
        # tables that came from BED carry a strand column ('.' where unknown)
        arr.data["strand"] = [rng.choice([".", ".", "+", "-"]) for _ in range(len(arr))]
    return dict(arr=arr, fmt=fmt)


def _call_auto(fn, a):
    import os
    import shutil
    import tempfile
    from skgenome import tabio
    d = tempfile.mkdtemp(prefix="verif_c08_")
    try:
        p = os.path.join(d, "regions.txt")
        tabio.write(a["arr"], p, a["fmt"])
        return dict(auto=tabio.read_auto(p), explicit=tabio.read(p, a["fmt"]), first_line=open(p).readline())
    finally:
        shutil.rmtree(d, ignore_errors=True)


def _chk_auto(args, res, old):
    a = [tuple(r)[:3] for r in res["auto"].data[["chromosome", "start", "end"]].itertuples(index=False)]
    b = [tuple(r)[:3] for r in res["explicit"].data[["chromosome", "start", "end"]].itertuples(index=False)]
    if a != b:
        return "auto-detection of a %s file (first line %r) yields a different table than the %s parser: %r vs %r" % (
            old["fmt"], res["first_line"], old["fmt"], a[:3], b[:3])
    if "gene" in res["explicit"].data.columns and "gene" in res["auto"].data.columns:
        if list(res["auto"].data["gene"]) != list(res["explicit"].data["gene"]):
            return "auto-detected table has other names than the %s parser" % old["fmt"]


contract("skgenome/tabio/__init__.py::read_auto", params=dict(arr=ObjT("GenomicArray"), fmt=Str), bounded=True,
         gen=_gen_auto, call=_call_auto, props=("C08",), checks=[("same_table_as_explicit_parser", _chk_auto)])


# ----------------------------------------------------------------------------- one-based formats read to 0-based half-open
def _gen_onebased(rng, tier, i):
    """hand-written GFF, SEG, interval-list, text and Picard per-target files with known 1-based coordinates"""
    if i >= (200 if tier == "quick" else 3000):
        return None
    n = rng.randint(1, 8)
    rows = []
    for _ in range(n):
        s = rng.randint(1, 10 ** 6)
        rows.append((rng.choice(["chr1", "chr2", "chrX"]), s, s + rng.randint(0, 5000)))
    return dict(rows=rows, fmt=["gff", "seg", "interval", "text", "picardhs"][i % 5])


def _call_onebased(fn, a):
    import os
    import shutil
    import tempfile
    from skgenome import tabio
    d = tempfile.mkdtemp(prefix="verif_c08_")
    try:
        p = os.path.join(d, "f.txt")
        with open(p, "w") as fh:
            if a["fmt"] == "gff":
                for c, s, e in a["rows"]:
                    fh.write("%s\tsrc\texon\t%d\t%d\t.\t+\t.\tgene_id=G;Name=G\n" % (c, s, e))
            elif a["fmt"] == "seg":
                fh.write("ID\tchrom\tloc.start\tloc.end\tnum.mark\tseg.mean\n")
                for c, s, e in a["rows"]:
                    fh.write("S\t%s\t%d\t%d\t5\t0.1\n" % (c, s, e))
            elif a["fmt"] == "interval":
                fh.write("@HD\tVN:1.4\n@SQ\tSN:chr1\tLN:999999999\n")
                for c, s, e in a["rows"]:
                    fh.write("%s\t%d\t%d\t+\tname\n" % (c, s, e))
            elif a["fmt"] == "text":
                for c, s, e in a["rows"]:
                    fh.write("%s:%d-%d\n" % (c, s, e))
            else:
                fh.write("chrom\tstart\tend\tlength\tname\tgc\tmean_coverage\tnormalized_coverage\n")
                for c, s, e in a["rows"]:
                    fh.write("%s\t%d\t%d\t%d\tn\t0.5\t10.0\t1.0\n" % (c, s, e, e - s + 1))
        return tabio.read(p, a["fmt"])
    finally:
        shutil.rmtree(d, ignore_errors=True)


def _chk_onebased(args, res, old):
    want = sorted([(c, s - 1, e) for c, s, e in old["rows"]], key=lambda r: (natural_key(r[0]), r[1], r[2]))
    got = [(r.chromosome, int(r.start), int(r.end)) for r in res.data.itertuples(index=False)]
    if got != want:
        return "%s (1-based inclusive) read as %r, expected 0-based half-open sorted %r" % (old["fmt"], got[:4], want[:4])


contract("prop::C08.one_based_formats", params=dict(rows=ListT(Str), fmt=Str), bounded=True, gen=_gen_onebased,
         call=_call_onebased, props=("C08",), checks=[("shifted_to_zero_based_sorted", _chk_onebased)])


# ----------------------------------------------------------------------------- SEG export / import
def _gen_segrt(rng, tier, i):
    """1..4 samples of segment tables written with write_seg and read back with the SEG reader"""
    if i >= (200 if tier == "quick" else 3000):
        return None
    import pandas as pd
    n = rng.randint(1, 4)
    dfs = []
    for k in range(n):
        rows = []
        for c in ["chr1", "chr2", "chrX"][:rng.randint(1, 3)]:
            pos = rng.choice([0, 10])
            for _ in range(rng.randint(1, 4)):
                L = rng.randint(1, 10 ** 6)
                rows.append(dict(chromosome=c, start=pos, end=pos + L, gene="-", log2=round(rng.gauss(0, 1), 5), probes=rng.randint(1, 999)))
                pos += L
        dfs.append(pd.DataFrame(rows))
    return dict(dframes=dfs, ids=["smp%d" % k for k in range(n)])


def _call_segrt(fn, a):
    import io
    from skgenome.tabio import seg
    out = seg.write_seg(a["dframes"], a["ids"], chrom_ids=False)
    text = out.to_csv(sep="\t", index=False, float_format="%.6g")
    return [(sid, df) for sid, df in seg.parse_seg(io.StringIO(text))]


def _chk_segrt(args, res, old):
    if [sid for sid, _ in res] != old["ids"]:
        return "sample IDs after SEG export/import: %r" % ([sid for sid, _ in res],)
    for (sid, got), src in zip(res, old["dframes"]):
        a = [(r.chromosome, int(r.start), int(r.end), int(r.probes), _sig6(r.log2)) for r in got.itertuples(index=False)]
        b = [(r.chromosome, int(r.start), int(r.end), int(r.probes), _sig6(r.log2)) for r in src.itertuples(index=False)]
        if a != b:
            return "sample %s: segments after SEG export/import differ: %r" % (sid, [(x, y) for x, y in zip(a, b) if x != y][:3])


contract("prop::C08.seg_export_import", params=dict(dframes=SeqT(TabT())), bounded=True, gen=_gen_segrt, call=_call_segrt,
         props=("C08", "C20"), checks=[("identical_segments", _chk_segrt)])


# ----------------------------------------------------------------------------- natural chromosome order
def _gen_chromsort(rng, tier, i):
    """pairs of chromosome names from 1..22, X, Y, M, MT and other contigs, with and without chr prefix"""
    if i >= 1:
        return None
    return dict(dummy=0)


def _chk_chromsort(args, res, old):
    from skgenome.chromsort import sorter_chrom
    for pref in ("", "chr"):
        names = [pref + str(k) for k in range(1, 23)] + [pref + "X", pref + "Y", pref + "M"]
        if sorted(reversed(names), key=sorter_chrom) != names:
            return "natural order violated for prefix %r: %r" % (pref, sorted(names, key=sorter_chrom))
    import itertools
    pool = ["1", "2", "10", "X", "Y", "M", "chr1", "chr10", "chrX", "chrM", "chr1_gl000191_random", "chrUn_gl000211", "MT", "GL000192.1"]
    for a, b in itertools.product(pool, pool):
        if (sorter_chrom(a) < sorter_chrom(b)) != (natural_key(a) < natural_key(b)):
            return "sorter_chrom orders %r, %r differently from the natural key" % (a, b)


contract("skgenome/chromsort.py::sorter_chrom", params=dict(dummy=Int), bounded=True, gen=_gen_chromsort,
         call=lambda fn, a: None, props=("C08",), checks=[("natural_order", _chk_chromsort)])


# ----------------------------------------------------------------------------- deductive: coordinate conventions of writers/readers
# The text/tokenising side (pandas read_csv, to_csv) is assumed; what is proved is what each reader/writer does to the
# coordinates it was handed.  `view_parsed` is the table pandas parsed from the file (unconstrained).
from .c_call import CHROM, GENE       # noqa: E402

_IVT = TabT(opt=("gene", "strand"), index="any", chromosome=CHROM, start=Int, end=Int, gene=GENE, strand=Str)

contract(
    "skgenome/tabio/picard.py::write_interval",
    params=dict(dframe=_IVT),
    returns=TabT(index="any"),
    requires=[],
    ensures=[
        ("same_rows", "len(result) == len(dframe)"),
        # interval lists are 1-based closed: start + 1, end unchanged; absent gene/strand columns get "-" and "+"
        ("one_based_start", "forall(0, len(result), lambda k: result.chromosome[k] == dframe.chromosome[k] and "
                            "result.start[k] == dframe.start[k] + 1 and result.end[k] == dframe.end[k])"),
        ("gene_and_strand", "forall(0, len(result), lambda k: result.gene[k] == (dframe.gene[k] if 'gene' in dframe else '-') and "
                            "result.strand[k] == (dframe.strand[k] if 'strand' in dframe else '+'))"),
    ],
    props=("C08",), domain="skip",
    canaries=[("start_not_shifted", 'dframe["start"] += 1', 'dframe["start"] += 0'),
              ("input_shifted_in_place", "dframe = dframe.copy()", "dframe = dframe")],
)

contract(
    "skgenome/rangelabel.py::to_label",
    params=dict(row=RecT("Region", chromosome=Str, start=Int, end=Int)),
    returns=Str, requires=[],
    ensures=[("one_based_label", "result == row.chromosome + ':' + str(row.start + 1) + '-' + str(row.end)")],
    props=("C08", "C20"), domain="skip",
    canaries=[("zero_based", "row.start + 1", "row.start"), ("end_shifted", "{row.end}", "{row.end + 1}")],
)

contract(
    "skgenome/tabio/textcoord.py::write_text",
    params=dict(dframe=TabT(index="any", chromosome=Str, start=Int, end=Int)),
    returns=SeriesT(Str, like="dframe"), requires=[],
    ensures=[("one_label_per_row", "forall(0, len(result), lambda k: result[k] == dframe.chromosome[k] + ':' + "
                                   "str(dframe.start[k] + 1) + '-' + str(dframe.end[k]))")],
    props=("C08",), domain="skip",
    canaries=[("shifted_twice", "dframe.apply(to_label, axis=1)", "dframe.assign(start=dframe.start + 1).apply(to_label, axis=1)")],
)

contract(
    "skgenome/tabio/seg.py::format_seg",
    params=dict(dframe=TabT(opt=("probes",), index="any", chromosome=CHROM, start=Int, end=Int, gene=GENE, log2=Real, probes=Int),
                sample_id=Str, chrom_ids=Lit(False)),
    returns=TabT(index="any"), requires=[],
    ensures=[
        ("same_rows", "len(result) == len(dframe)"),
        # SEG is 1-based closed: loc.start = start + 1, loc.end = end; every row under the sample id
        ("seg_columns", "forall(0, len(result), lambda k: result['ID'][k] == sample_id and result['chrom'][k] == dframe.chromosome[k] and "
                        "result['loc.start'][k] == dframe.start[k] + 1 and result['loc.end'][k] == dframe.end[k] and "
                        "result['seg.mean'][k] == dframe.log2[k])"),
        ("num_mark", "'probes' not in dframe or forall(0, len(result), lambda k: result['num.mark'][k] == dframe.probes[k])"),
    ],
    props=("C08", "C20"), domain="skip",
    canaries=[("zero_based", "start=dframe.start + 1", "start=dframe.start"),
              ("end_as_start", '"end": "loc.end"', '"end": "loc.endx", "start": "loc.end"')],
)

contract(
    "skgenome/tabio/bedio.py::write_bed4",
    params=dict(dframe=TabT(opt=("gene",), index="any", chromosome=CHROM, start=Int, end=Int, gene=GENE, log2=Real)),
    returns=TabT(index="any"), requires=[],
    ensures=[
        ("same_rows", "len(result) == len(dframe)"),
        # BED keeps 0-based half-open coordinates as they are
        ("coordinates_unchanged", "forall(0, len(result), lambda k: result.chromosome[k] == dframe.chromosome[k] and "
                                  "result.start[k] == dframe.start[k] and result.end[k] == dframe.end[k] and "
                                  "result.gene[k] == (dframe.gene[k] if 'gene' in dframe else '-'))"),
    ],
    props=("C08",), domain="skip",
    canaries=[("one_based", 'dframe = dframe.copy()', 'dframe = dframe.assign(start=dframe.start + 1)')],
)

_IL_TYPES = dict(chromosome=CHROM, start=Int, end=Int, strand=Str, gene=GENE)
contract(
    "skgenome/tabio/picard.py::read_interval",
    params=dict(infile=Str),
    returns=TabT(index="range"), requires=[],
    ghost=dict(csv_types=_IL_TYPES),
    ensures=[
        ("same_rows", "len(result) == len(view_parsed)"),
        # interval lists are 1-based closed: the parsed start moves down by one, the end stays
        ("zero_based_half_open", "forall(0, len(result), lambda k: result.chromosome[k] == view_parsed.chromosome[k] and "
                                 "result.start[k] == view_parsed.start[k] - 1 and result.end[k] == view_parsed.end[k] and "
                                 "result.gene[k] == view_parsed.gene[k])"),
    ],
    props=("C08",), domain="skip",
    canaries=[("not_shifted", 'dframe["start"] -= 1', 'dframe["start"] -= 0'), ("end_shifted_too", 'dframe["start"] -= 1', 'dframe["start"] -= 1; dframe["end"] -= 1')],
)

contract(
    "skgenome/tabio/picard.py::read_picard_hs",
    params=dict(infile=Str),
    returns=TabT(index="range"), requires=[],
    ghost=dict(csv_types={"chrom": CHROM, "start": Int, "end": Int, "length": Int, "name": GENE, "%gc": Real,
                          "mean_coverage": Real, "normalized_coverage": Real}),
    ensures=[
        ("same_rows", "len(result) == len(view_parsed)"),
        ("zero_based_half_open", "forall(0, len(result), lambda k: result.chromosome[k] == view_parsed.chrom[k] and "
                                 "result.start[k] == view_parsed.start[k] - 1 and result.end[k] == view_parsed.end[k] and "
                                 "result.gene[k] == view_parsed.name[k] and result.depth[k] == view_parsed.mean_coverage[k])"),
        ("length_column_dropped", "'length' not in result"),
    ],
    props=("C08",), domain="skip",
    canaries=[("not_shifted", 'dframe["start"] -= 1', 'dframe["start"] -= 0')],
)

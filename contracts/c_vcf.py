"""Contracts for VCF reading and BAF: skgenome/tabio/vcfio.py, cnvlib/vary.py, cnvlib/cmdutil.py::load_het_snps  (C18)."""
import math

from .dsl import *     # noqa
from . import vocab    # noqa


def _vcf_case(rng, tier, i):
    """synthetic VCFs of biallelic sites: 1..3 samples, with/without PEDIGREE, GT/AD/DP present or partly missing, SNVs
    and indels, SOMATIC and FILTER flags, 0..500 records (quick: ..60) on 1..3 contigs x sample/normal selectors x
    min depth x skip_somatic"""
    import os
    import tempfile
    d = tempfile.mkdtemp(prefix="verif_c18_")
    nsamp = rng.randint(1, 3)
    names = rng.sample(["TUM", "NRM", "OTHER", "S1", "s2"], nsamp)
    pedigree = None
    if nsamp >= 2 and rng.random() < 0.5:
        t, n = rng.sample(names, 2)
        pedigree = (t, n)
    contigs = ["chr1", "chr2", "chrX"][:rng.randint(1, 3)]
    nrec = rng.choice([0, 1, 5, 25, 60 if tier == "quick" else 500])
    fmt_mode = rng.choice(["GT:AD:DP", "GT:AD:DP", "GT:AD", "GT:DP", "GT"])
    recs = []
    for c in contigs:
        pos = 100
        for _ in range(nrec // len(contigs) + (1 if nrec else 0)):
            pos += rng.randint(1, 500)
            ref = rng.choice(["A", "C", "G", "T", "AT", "GCA"])
            alt = rng.choice(["A", "C", "G", "T", "TA", "GGC"])
            if alt == ref:
                alt = "T" if ref != "T" else "G"
            somatic = rng.random() < 0.15
            filt = rng.choice(["PASS", "PASS", ".", "LowQual"])
            samples = []
            for s in range(nsamp):
                gt = rng.choice([(0, 0), (0, 1), (0, 1), (1, 1), (1, 0)])
                dp = rng.choice([0, 5, 19, 20, 21, 60, 200])
                alt_c = rng.randint(0, dp) if dp else 0
                if gt == (0, 0):
                    alt_c = min(alt_c, dp // 10)
                elif gt == (1, 1):
                    alt_c = dp - min(dp - alt_c, dp // 10)
                missing = False      # a "." depth next to a usable AD is not specified by the statement
                samples.append(dict(gt=gt, dp=dp, ref_c=dp - alt_c, alt_c=alt_c, phased=rng.random() < 0.2, dp_missing=missing))
            recs.append(dict(chrom=c, pos=pos, ref=ref, alt=alt, somatic=somatic, filt=filt, samples=samples))
    path = os.path.join(d, "v.vcf")
    with open(path, "w") as fh:
        fh.write("##fileformat=VCFv4.2\n")
        fh.write('##FILTER=<ID=LowQual,Description="low quality">\n')
        fh.write('##INFO=<ID=SOMATIC,Number=0,Type=Flag,Description="somatic">\n')
        fh.write('##INFO=<ID=DP,Number=1,Type=Integer,Description="depth">\n')
        fh.write('##FORMAT=<ID=GT,Number=1,Type=String,Description="Genotype">\n')
        fh.write('##FORMAT=<ID=AD,Number=R,Type=Integer,Description="Allelic depths">\n')
        fh.write('##FORMAT=<ID=DP,Number=1,Type=Integer,Description="Depth">\n')
        for c in contigs:
            fh.write("##contig=<ID=%s,length=100000000>\n" % c)
        if pedigree:
            fh.write("##PEDIGREE=<Derived=%s,Original=%s>\n" % pedigree)
        fh.write("#CHROM\tPOS\tID\tREF\tALT\tQUAL\tFILTER\tINFO\tFORMAT\t%s\n" % "\t".join(names))
        for r in recs:
            cols = []
            for smp in r["samples"]:
                gt = ("|" if smp["phased"] else "/").join(str(x) for x in smp["gt"])
                parts = {"GT": gt, "AD": "%d,%d" % (smp["ref_c"], smp["alt_c"]), "DP": "." if smp["dp_missing"] else str(smp["dp"])}
                cols.append(":".join(parts[k] for k in fmt_mode.split(":")))
            fh.write("%s\t%d\t.\t%s\t%s\t50\t%s\t%s\t%s\t%s\n" % (
                r["chrom"], r["pos"], r["ref"], r["alt"], r["filt"], "SOMATIC" if r["somatic"] else ".", fmt_mode, "\t".join(cols)))
    # selectors
    sel = rng.choice(["none", "none", "sample", "both", "normal_only"])
    sample_id = normal_id = None
    if sel in ("sample", "both"):
        sample_id = rng.choice(names)
    if sel in ("both", "normal_only") and nsamp >= 2:
        normal_id = rng.choice([n for n in names if n != sample_id])
    return dict(tmp=d, vcf=path, names=names, pedigree=pedigree, recs=recs, fmt=fmt_mode, sample_id=sample_id,
                normal_id=normal_id, min_depth=rng.choice([None, None, 20, 21]), skip_somatic=rng.random() < 0.5)


def _gen_vcf(rng, tier, i):
    if i >= (300 if tier == "quick" else 6000):
        return None
    return _vcf_case(rng, tier, i)


_gen_vcf.__doc__ = _vcf_case.__doc__


def _call_vcf(fn, a):
    import shutil
    import warnings
    warnings.simplefilter("ignore")
    from skgenome import tabio
    try:
        try:
            return tabio.read(a["vcf"], "vcf", sample_id=a["sample_id"], normal_id=a["normal_id"], min_depth=a["min_depth"],
                              skip_somatic=a["skip_somatic"])
        except IndexError as exc:
            return "IndexError"
    finally:
        shutil.rmtree(a["tmp"], ignore_errors=True)


def _pick(old):
    """documented rules: PEDIGREE-declared pairs first, else the given tumour and normal ids, else the first sample"""
    names = old["names"]
    if old["pedigree"]:
        pairs = [old["pedigree"]]
    elif old["normal_id"]:
        pairs = [(n, old["normal_id"]) for n in names if n != old["normal_id"]]
    else:
        pairs = [(n, None) for n in names]
    if old["sample_id"]:
        pairs = [p for p in pairs if p[0] == old["sample_id"]]
    if not pairs:
        pairs = [(old["sample_id"], None)]
    return pairs[0]


def _geno(smp, fmt):
    fields = fmt.split(":")
    if "DP" in fields and not smp["dp_missing"]:
        depth = smp["dp"]
    elif "AD" in fields:
        depth = smp["ref_c"] + smp["alt_c"]
    elif "DP" in fields:
        depth = smp["ref_c"] + smp["alt_c"] if "AD" in fields else float("nan")
    else:
        depth = float("nan")
    g = set(smp["gt"])
    zyg = 0.5 if len(g) > 1 else (0.0 if g == {0} else 1.0)
    alt = smp["alt_c"] if "AD" in fields else float("nan")
    return depth, zyg, alt


def _nz(x):
    return 0.0 if (isinstance(x, float) and math.isnan(x)) else x


def _chk_vcf(args, res, old):
    if isinstance(res, str):
        return None if res == "IndexError" else res
    sid, nid = _pick(old)
    si = old["names"].index(sid)
    ni = old["names"].index(nid) if nid else None
    exp = []
    any_depth = False
    for r in old["recs"]:
        dep, zyg, alt = _geno(r["samples"][si], old["fmt"])
        row = dict(chromosome=r["chrom"], start=r["pos"] - 1, end=r["pos"] - 1 + len(r["alt"]), ref=r["ref"], alt=r["alt"],
                   somatic=r["somatic"], zygosity=zyg, depth=_nz(dep), alt_count=_nz(alt))
        af = (alt / dep) if (isinstance(dep, (int, float)) and dep == dep and dep != 0 and alt == alt) else float("nan")
        row["alt_freq"] = _nz(af) if not (dep == 0 and alt == 0) else 0.0
        if ni is not None:
            nd, nz, na = _geno(r["samples"][ni], old["fmt"])
            row.update(n_zygosity=nz, n_depth=_nz(nd), n_alt_count=_nz(na))
        exp.append(row)
        any_depth = any_depth or bool(row["depth"])
    if old["min_depth"] and any_depth:
        key = "n_depth" if ni is not None else "depth"
        exp = [r for r in exp if r[key] >= old["min_depth"]]
    if old["skip_somatic"]:
        exp = [r for r in exp if not r["somatic"]]
    from contracts.c_tabio import natural_key
    exp.sort(key=lambda r: (natural_key(r["chromosome"]), r["start"], r["end"]))
    got = list(res.data.itertuples(index=False))
    if len(got) != len(exp):
        return "read_vcf (sample %r / normal %r, min_depth %r, skip_somatic %s): %d rows, expected %d" % (
            sid, nid, old["min_depth"], old["skip_somatic"], len(got), len(exp))
    for g, e in zip(got, exp):
        for k, v in e.items():
            gv = getattr(g, k)
            if isinstance(v, float):
                if k == "alt_freq" and (v != v):
                    continue
                if not (abs(float(gv) - v) <= 1e-9 or (gv != gv and v != v)):
                    return "record %s:%d sample %s: %s = %r, expected %r (format %s)" % (e["chromosome"], e["start"] + 1, sid, k, gv, v, old["fmt"])
            elif gv != v:
                return "record %s:%d sample %s: %s = %r, expected %r (format %s)" % (e["chromosome"], e["start"] + 1, sid, k, gv, v, old["fmt"])


contract("skgenome/tabio/vcfio.py::read_vcf", params=dict(vcf=Str), bounded=True, gen=_gen_vcf, call=_call_vcf,
         modifies=("tmp", "vcf"), props=("C18",), checks=[("one_row_per_record_by_the_documented_rules", _chk_vcf)])


# ----------------------------------------------------------------------------- load_het_snps
def _gen_het(rng, tier, i):
    if i >= (200 if tier == "quick" else 4000):
        return None
    d = _vcf_case(rng, tier, i)
    d["zyg_freq"] = rng.choice([None, None, 0.25, 0.1])
    d["min_depth"] = rng.choice([20, 0, 5])
    return d


_gen_het.__doc__ = _vcf_case.__doc__ + " x zygosity_freq"


def _call_het(fn, a):
    import shutil
    import warnings
    warnings.simplefilter("ignore")
    from cnvlib import cmdutil
    try:
        try:
            return cmdutil.load_het_snps(a["vcf"], a["sample_id"], a["normal_id"], a["min_depth"], a["zyg_freq"])
        except IndexError:
            return "IndexError"
    finally:
        shutil.rmtree(a["tmp"], ignore_errors=True)


def _chk_het(args, res, old):
    if isinstance(res, str):
        return None
    sid, nid = _pick(old)
    si = old["names"].index(sid)
    ni = old["names"].index(nid) if nid else None
    rows = []
    any_depth = False
    for r in old["recs"]:
        dep, zyg, alt = _geno(r["samples"][si], old["fmt"])
        e = dict(key=(r["chrom"], r["pos"] - 1), somatic=r["somatic"], zyg=zyg, depth=_nz(dep), alt=_nz(alt))
        e["af"] = (e["alt"] / e["depth"]) if e["depth"] else 0.0
        if ni is not None:
            nd, nz, na = _geno(r["samples"][ni], old["fmt"])
            e.update(nzyg=nz, ndepth=_nz(nd), nalt=_nz(na))
            e["naf"] = (e["nalt"] / e["ndepth"]) if e["ndepth"] else 0.0
        rows.append(e)
        any_depth = any_depth or bool(e["depth"])
    if old["min_depth"] and any_depth:
        rows = [e for e in rows if e["ndepth" if ni is not None else "depth"] >= old["min_depth"]]
    rows = [e for e in rows if not e["somatic"]]
    zf = old["zyg_freq"]
    if zf is None and ni is not None and not any(e["nzyg"] for e in rows):
        zf = 0.25
    if zf is not None:
        for e in rows:
            e["zyg"] = 1.0 if e["af"] >= 1 - zf else (0.0 if e["af"] < zf else 0.5)
            if ni is not None:
                e["nzyg"] = 1.0 if e["naf"] >= 1 - zf else (0.0 if e["naf"] < zf else 0.5)
    if ni is not None:
        rows = [e for e in rows if not (e["zyg"] != 0.0 and e["nzyg"] == 0.0)]
    germ = "nzyg" if ni is not None else "zyg"
    het = [e for e in rows if e[germ] == 0.5]
    if not het:
        return None        # documented fallback of VariantArray.heterozygous(): see the known finding of C18
    want = sorted(e["key"] for e in het)
    got = sorted((r.chromosome, r.start) for r in res.data.itertuples(index=False))
    if got != want:
        return "load_het_snps keeps %d records, expected exactly the %d germline-heterozygous ones (sample %r, normal %r, zygosity_freq %r)" % (
            len(got), len(want), sid, nid, old["zyg_freq"])


contract("cnvlib/cmdutil.py::load_het_snps", params=dict(vcf=Str), bounded=True, gen=_gen_het, call=_call_het,
         modifies=("tmp", "vcf"), props=("C18",), checks=[("exactly_germline_heterozygous", _chk_het)])


def _gen_nohet(rng, tier, i):
    """VCFs in which no record is germline-heterozygous"""
    if i >= (40 if tier == "quick" else 400):
        return None
    for _ in range(50):
        d = _vcf_case(rng, tier, i)
        for r in d["recs"]:
            for s in r["samples"]:
                if len(set(s["gt"])) > 1:
                    s["gt"] = (1, 1)
        # rewrite the file with the homozygous genotypes
        lines = open(d["vcf"]).read().splitlines()
        out = []
        for ln in lines:
            if ln.startswith("#"):
                out.append(ln)
                continue
            f = ln.split("\t")
            for k in range(9, len(f)):
                p = f[k].split(":")
                if p[0] in ("0/1", "1/0", "0|1", "1|0"):
                    p[0] = "1/1"
                f[k] = ":".join(p)
            out.append("\t".join(f))
        open(d["vcf"], "w").write("\n".join(out) + "\n")
        if len(d["recs"]) >= 2:
            d["zyg_freq"] = None
            d["min_depth"] = 0
            d["skip_somatic"] = False
            return d
    return None


def _chk_nohet(args, res, old):
    if isinstance(res, str):
        return None
    if len(res):
        return "no record is germline-heterozygous, yet load_het_snps keeps %d records" % len(res)


contract("prop::C18.no_heterozygous_record", params=dict(vcf=Str), bounded=True, gen=_gen_nohet, call=_call_het,
         modifies=("tmp", "vcf"), props=("C18",), checks=[("keeps_nothing", _chk_nohet)])


# ----------------------------------------------------------------------------- BAF per range, TumorBoost, rescale
def _gen_baf(rng, tier, i):
    """heterozygous SNV tables x segment tables over them (segments without SNVs, single SNV, many), mirror side"""
    import numpy as np
    import pandas as pd
    from cnvlib.vary import VariantArray
    from cnvlib.cnary import CopyNumArray
    if i >= (300 if tier == "quick" else 6000):
        return None
    rows, segs = [], []
    for c in ["chr1", "chr2"][:rng.randint(1, 2)]:
        pos = 0
        for _ in range(rng.randint(1, 4)):
            L = rng.choice([1000, 50000])
            n = rng.choice([0, 1, 2, 5, 20])
            level = rng.choice([0.5, 0.5, 0.3, 0.8])
            for p in sorted(rng.sample(range(pos, pos + L), min(n, L))):
                af = min(1.0, max(0.0, rng.choice([level, 1 - level]) + rng.gauss(0, 0.05)))
                naf = min(0.9, max(0.1, 0.5 + rng.gauss(0, 0.05)))
                rows.append(dict(chromosome=c, start=p, end=p + 1, ref="A", alt="G", somatic=False, zygosity=0.5, depth=100.0,
                                 alt_count=af * 100, alt_freq=af, n_zygosity=0.5, n_depth=80.0, n_alt_count=naf * 80, n_alt_freq=naf))
            segs.append(dict(chromosome=c, start=pos, end=pos + L, gene="-", log2=0.0, probes=10, weight=1.0))
            pos += L
    if not rows:
        rows.append(dict(chromosome="chr1", start=5, end=6, ref="A", alt="G", somatic=False, zygosity=0.5, depth=100.0,
                         alt_count=50.0, alt_freq=0.5, n_zygosity=0.5, n_depth=80.0, n_alt_count=40.0, n_alt_freq=0.5))
    paired = rng.random() < 0.5
    df = pd.DataFrame(rows)
    if not paired:
        df = df.drop(columns=["n_zygosity", "n_depth", "n_alt_count", "n_alt_freq"])
    return dict(varr=VariantArray(df, {"sample_id": "v"}), segs=CopyNumArray(pd.DataFrame(segs), {"sample_id": "s"}),
                above_half=rng.choice([None, True, False]), tumor_boost=paired and rng.random() < 0.5)


def _call_baf(fn, a):
    import warnings
    warnings.simplefilter("ignore")
    return a["varr"].baf_by_ranges(a["segs"], above_half=a["above_half"], tumor_boost=a["tumor_boost"])


def _chk_baf(args, res, old):
    import numpy as np
    v, segs = old["varr"].data, old["segs"].data
    res = list(res)
    if len(res) != len(segs):
        return "%d BAF values for %d segments" % (len(res), len(segs))
    for k, s in enumerate(segs.itertuples(index=False)):
        sub = v[(v.chromosome == s.chromosome) & (v.end > s.start) & (v.start < s.end)]
        if not len(sub):
            if not (res[k] != res[k]):
                return "segment %r has no heterozygous SNV but BAF %r (expected missing)" % ((s.chromosome, s.start, s.end), res[k])
            continue
        f = sub.alt_freq.values.astype(float)
        if old["tumor_boost"]:
            n = sub.n_alt_freq.values.astype(float)
            f = np.where(f < n, 0.5 * f / n, 1 - 0.5 * (1 - f) / (1 - n))
        if len(f) == 1:
            want = float(f[0])
        else:
            up = old["above_half"] if old["above_half"] is not None else bool(np.median(f) > 0.5)
            m = 0.5 + np.abs(f - 0.5) if up else 0.5 - np.abs(f - 0.5)
            want = float(np.median(m))
        if not abs(res[k] - want) <= 1e-9:
            return "segment %r: BAF %r, expected median of the mirrored heterozygous frequencies %r (n=%d, above_half=%r, tumor_boost=%s)" % (
                (s.chromosome, s.start, s.end), res[k], want, len(f), old["above_half"], old["tumor_boost"])


contract("cnvlib/vary.py::VariantArray.baf_by_ranges", params=dict(varr=ObjT("VariantArray")), bounded=True, gen=_gen_baf,
         call=_call_baf, props=("C18",), checks=[("median_of_mirrored_frequencies_per_range", _chk_baf)],
         notes="a single SNV in a range is returned as it is (into_ranges' single-hit rule, C07)")


# ----------------------------------------------------------------------------- deductive: mirroring
contract(
    "cnvlib/vary.py::_mirrored_baf",
    params=dict(vals=SeriesT(Real), above_half=Lit(None, True, False)),
    returns=SeriesT(Real, like="vals"),
    requires=[],
    ensures=[
        ("rowcount", "len(result) == len(vals)"),
        # mirrored to one side of 0.5: above when asked (or, by default, when the median lies above), else below
        ("mirror_side", "forall(0, len(result), lambda k: result[k] == ite("
                        "above_half is True or (above_half is None and median_of(vals) > 0.5), "
                        "0.5 + abs(vals[k] - 0.5), 0.5 - abs(vals[k] - 0.5)))"),
    ],
    props=("C18",), domain="skip",
    canaries=[("sides_swapped", "return 0.5 + shift", "return 0.5 - shift"),
              ("median_ge", "vals.median() > 0.5", "vals.median() < 0.5"),
              ("no_abs", "(vals - 0.5).abs()", "(vals - 0.5)")],
)


# ----------------------------------------------------------------------------- deductive: the heterozygous subset (known finding)
# The postcondition is the property's ("keeps exactly the germline-heterozygous records"); the pinned code returns the
# whole table when no record is heterozygous, so `keeps_only_heterozygous` fails on that path with a one-record model
# (zygosity 1.0).  It is listed in known_findings.txt: the check prints KNOWN-FINDING for it and exits 0.
from .c_call import CHROM, GENE       # noqa: E402

_VARR = ObjT("VariantArray", data=TabT(index="range", chromosome=CHROM, start=Int, end=Int, ref=Str, alt=Str, zygosity=Real,
                                       alt_freq=Real), meta=DictT())

contract(
    "cnvlib/vary.py::VariantArray.heterozygous",
    params=dict(self=_VARR),
    returns=ObjT("VariantArray", data=TabT(index="masked", chromosome=CHROM, start=Int, end=Int, ref=Str, alt=Str, zygosity=Real,
                                           alt_freq=Real), meta=DictT()),
    requires=[],
    ensures=[
        # load_het_snps keeps exactly the heterozygous records (zygosity neither 0 nor 1), in order
        ("keeps_only_heterozygous", "forall(0, len(result.data), lambda j: let(lambda k: 0 <= k and k < len(self.data) and "
                                    "self.data.zygosity[k] != 0 and self.data.zygosity[k] != 1 and result.data.start[j] == self.data.start[k] and "
                                    "result.data.zygosity[j] == self.data.zygosity[k], result.data.index[j]))"),
        ("keeps_every_heterozygous", "forall(0, len(self.data), lambda k: implies(self.data.zygosity[k] != 0 and self.data.zygosity[k] != 1, "
                                     "exists(0, len(result.data), lambda j: result.data.index[j] == k)))"),
    ],
    props=("C18",), domain="skip",
    canaries=[("homozygous_alt_kept", "(zygosity != 0.0) & (zygosity != 1.0)", "(zygosity != 0.0)")],
)


# ----------------------------------------------------------------------------- deductive: TumorBoost
contract(
    "cnvlib/vary.py::_tumor_boost",
    params=dict(t_freqs=VecT(Real), n_freqs=VecT(Real)),
    returns=VecT(NReal, kind="series"),
    requires=["len(t_freqs) == len(n_freqs)",
              # no division by zero: a normal frequency of 0 never exceeds the tumour's, one of 1 always does or equals it
              "forall(0, len(t_freqs), lambda k: 0 <= t_freqs[k] and t_freqs[k] <= 1 and 0 <= n_freqs[k] and n_freqs[k] <= 1 and "
              "not (t_freqs[k] == 1 and n_freqs[k] == 1))"],
    ensures=[
        ("same_length", "len(result) == len(t_freqs)"),
        ("formula", "forall(0, len(result), lambda k: not isnull(result[k]) and val(result[k]) == ite(t_freqs[k] < n_freqs[k], "
                    "0.5 * t_freqs[k] / n_freqs[k], 1 - 0.5 * (1 - t_freqs[k]) / (1 - n_freqs[k])))"),
    ],
    props=("C18",), domain="skip",
    canaries=[("branches_swapped", "lt_mask = t_freqs < n_freqs", "lt_mask = t_freqs > n_freqs"),
              ("half_dropped", "out[lt_idx] = 0.5 * t_freqs.take(lt_idx) / n_freqs.take(lt_idx)", "out[lt_idx] = t_freqs.take(lt_idx) / n_freqs.take(lt_idx)"),
              ("normal_not_complemented", "(1 - n_freqs.take(gt_idx))", "n_freqs.take(gt_idx)")],
    notes="TumorBoost: every site gets the formula of its own branch (np.nonzero / take / scatter store modelled as: the True "
          "positions in order, the elements at listed positions, values[r] written to the r-th True position); real arithmetic",
)


# ----------------------------------------------------------------------------- deductive: the methods users call
_VARR = ObjT("VariantArray", data=TabT(index="range", chromosome=CHROM, start=Int, end=Int, alt_freq=Real, n_alt_freq=Real), meta=DictT())
_BOOST = ("ite(self.data.alt_freq[k] < self.data.n_alt_freq[k], 0.5 * self.data.alt_freq[k] / self.data.n_alt_freq[k], "
          "1 - 0.5 * (1 - self.data.alt_freq[k]) / (1 - self.data.n_alt_freq[k]))")
_FREQ_REQ = ("forall(0, len(self.data), lambda k: 0 <= self.data.alt_freq[k] and self.data.alt_freq[k] <= 1 and 0 <= self.data.n_alt_freq[k] and "
             "self.data.n_alt_freq[k] <= 1 and not (self.data.alt_freq[k] == 1 and self.data.n_alt_freq[k] == 1))")
contract(
    "cnvlib/vary.py::VariantArray.tumor_boost",
    params=dict(self=_VARR), returns=VecT(NReal, kind="series"),
    requires=[_FREQ_REQ],
    ensures=[("one_value_per_record", "len(result) == len(self.data)"),
             ("each_record_boosted_by_its_own_normal", "forall(0, len(result), lambda k: not isnull(result[k]) and val(result[k]) == BOOST)".replace("BOOST", _BOOST))],
    props=("C18",), domain="skip",
    canaries=[("normal_and_tumour_swapped", 'self["alt_freq"].values, self["n_alt_freq"].values', 'self["n_alt_freq"].values, self["alt_freq"].values')],
)

contract(
    "cnvlib/vary.py::VariantArray.mirrored_baf",
    params=dict(self=_VARR, above_half=Lit(None, True, False), tumor_boost=Lit(False)),
    returns=VecT(Real, kind="series"),
    requires=[],
    ensures=[("one_value_per_record", "len(result) == len(self.data)"),
             ("each_record_mirrored", "forall(0, len(result), lambda k: result[k] == ite("
                                      "above_half is True or (above_half is None and median_of(self.data.alt_freq) > 0.5), "
                                      "0.5 + abs(self.data.alt_freq[k] - 0.5), 0.5 - abs(self.data.alt_freq[k] - 0.5)))")],
    props=("C18",), domain="skip",
    canaries=[("normal_frequencies_mirrored", 'alt_freq = self["alt_freq"]', 'alt_freq = self["n_alt_freq"]')],
)

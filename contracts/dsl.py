"""Contract DSL shared by the deductive engine (python3-vt) and the run-time
checker (/venv/bin/python).  No third-party imports here.

A contract is data.  Specification expressions are *strings in Python syntax*;
they have two semantics:
  logical     -- pyvc evaluates their AST with its symbolic evaluator (z3 terms),
  executable  -- the runner evaluates them with eval() on adapted concrete values.
Binders are written with lambda:  forall(lo, hi, lambda k: ...).
"""

CONTRACTS = {}      # key "file.py::qualname" -> Contract
LEMMAS = {}         # name -> Lemma
SPECS = {}          # name -> python function (spec vocabulary; AST re-read by pyvc)
CONSTS = {}         # name -> python literal usable in spec expressions (both semantics)


# ----------------------------------------------------------------------------- types
class T:
    def __repr__(self):
        return self.__class__.__name__


class _Int(T):
    pass


class _Real(T):
    pass


class _NReal(T):
    """float that may be NaN"""


class _Bool(T):
    pass


class _Str(T):
    pass


Int, Real, NReal, Bool, Str = _Int(), _Real(), _NReal(), _Bool(), _Str()


class Atom(T):
    """string of which only equality matters (uninterpreted sort)"""

    def __init__(self, sort="Name"):
        self.sort = sort


class Opt(T):
    def __init__(self, t):
        self.t = t


class Lit(T):
    def __init__(self, *vals):
        self.vals = vals


class VecT(T):
    def __init__(self, elt, kind="array", n=None):
        self.elt, self.kind, self.n = elt, kind, n


class SeriesT(VecT):
    """pandas Series.  `like` names the parameter (Series, DataFrame or array object) whose index the
    Series shares -- for results: stated by the contract, checked when the function is verified."""

    def __init__(self, elt, n=None, like=None):
        VecT.__init__(self, elt, "series", n)
        self.like = like


class ListT(VecT):
    def __init__(self, elt, n=None):
        VecT.__init__(self, elt, "list", n)


class TabT(T):
    """DataFrame with the given columns (ordered).  `opt` columns are case split."""

    def __init__(self, opt=(), index="range", **cols):
        self.cols, self.opt, self.index = cols, tuple(opt), index


class TupT(T):
    def __init__(self, *ts):
        self.ts = ts


class RecT(T):
    def __init__(self, name="Row", **fields):
        self.name, self.fields = name, fields


class SeqT(T):
    """symbolic-length sequence of structured elements"""

    def __init__(self, elt):
        self.elt = elt


class ObjT(T):
    """instance of a repository class; fields given by name"""

    def __init__(self, cls, **fields):
        self.cls, self.fields = cls, fields


class DictT(T):
    def __init__(self, **items):
        self.items = items


class SliceT(T):
    pass


class FunResT(T):
    """Result of a callee that is treated as an opaque function of one vector argument: `name(arg)`.
    Two such results are equal when the arguments are equal element by element (congruence); nothing else
    is known about them."""

    def __init__(self, name, arg):
        self.name, self.arg = name, arg


OPAQUE_FUNS = set()      # names usable in spec expressions as opaque vector functions, e.g. BH(v)


def opaque_fun(name):
    OPAQUE_FUNS.add(name)
    return name


class FuncT(T):
    """callable parameter; `spec` names an uninterpreted function Real*->Real etc."""

    def __init__(self, name, args=(Real,), ret=Real):
        self.name, self.args, self.ret = name, args, ret


# ----------------------------------------------------------------------------- contracts
class Contract:
    def __init__(self, key, params, returns=None, requires=(), ensures=(), loops=None,
                 modifies=(), raises=None, inline=False, yields=None, props=(), cases=None,
                 ghost=None, domain=None, canaries=(), notes="", rt=None, views=None,
                 may_raise=(), pure=True, lemmas=(), wrapper_of=None, trusted=False, unroll=None,
                 bounded=False, checks=(), call=None, gen=None):
        self.key = key
        self.params = params            # ordered dict name -> T   (python >= 3.7 dicts)
        self.returns = returns          # T of the result (None = no value)
        self.yields = yields            # T of one yielded element (generator)
        self.requires = list(requires)  # [str]
        # [(label, str)]; an entry may carry a third item: the labels of the hypotheses (callee clauses, loop invariants)
        # its proof needs -- the other tagged hypotheses are then left out of its obligation
        self.ensure_needs = {e[0]: list(e[2]) for e in ensures if not isinstance(e, str) and len(e) > 2 and e[2] is not None}
        self.ensures = [e if isinstance(e, str) else (e[0], e[1]) for e in ensures]
        self.loops = loops or {}        # ordinal -> dict(inv=[(label,str)], vars={name:T}, decreases=str)
        self.modifies = tuple(modifies)
        self.raises = raises            # dict(exc='ValueError', when=str) or None
        self.may_raise = tuple(may_raise)
        self.inline = inline
        self.props = tuple(props)
        self.cases = cases
        self.ghost = ghost or {}
        self.domain = domain
        self.canaries = list(canaries)  # [(label, old_src, new_src)]
        self.notes = notes
        self.rt = rt                    # optional runtime adapter name
        self.views = views or {}
        self.pure = pure
        self.lemmas = tuple(lemmas)     # lemma names whose statements are added as hypotheses
        self.wrapper_of = wrapper_of
        self.trusted = trusted          # contract assumed, body not verified (listed in evidence)
        self.unroll = unroll or {}
        # bounded tier: the function is outside the deductive subset; its contract is checked at run time only
        # (exhaustive small scope + seeded random inputs) and is never counted as proved.  Such a contract may
        # carry executable-only clauses: checks=[(label, f(args: dict, result, old: dict) -> None | message)],
        # call=f(fn, args) -> result  (how to invoke: defaults to fn(**args)),
        # gen=f(rng, tier, i) -> args dict of *real* objects (bypasses the JSON recipe layer; replay re-generates by seed)
        self.bounded = bounded or bool(checks) and not ensures and False
        self.checks = list(checks)
        self.call = call
        self.gen = gen
        if bounded:
            self.trusted = True


def contract(key, **kw):
    c = Contract(key, **kw)
    if key in CONTRACTS:
        raise ValueError("duplicate contract " + key)
    CONTRACTS[key] = c
    return c


class Lemma:
    def __init__(self, name, vars, requires, ensures, induct=None, uses=(), trusted=False,
                 props=(), hints=(), funs=None, notes="", nl=False):
        self.name = name
        self.nl = nl                # products/quotients are real nonlinear terms while proving this lemma
        self.vars = vars            # dict name -> T
        self.requires = list(requires)
        self.ensures = list(ensures)   # [(label, str)] or [str]
        self.induct = induct        # name of the Int variable to induct on (>= 0)
        self.uses = tuple(uses)
        self.trusted = trusted
        self.props = tuple(props)
        self.hints = tuple(hints)
        self.funs = funs or {}      # uninterpreted functions: name -> (argsorts..., retsort) as T
        self.notes = notes


def lemma(name, **kw):
    l = Lemma(name, **kw)
    LEMMAS[name] = l
    return l


def spec(fn):
    """Register a spec-vocabulary function.  Its body must be a single `return <expr>`
    (or if/return chains) in the expression subset, so both semantics apply."""
    SPECS[fn.__name__] = fn
    return fn


def const(name, value):
    """Register a literal constant of the spec vocabulary (visible by name in both semantics)."""
    CONSTS[name] = value
    return value

"""Library lemmas (proved once by the same back ends; `lemma` / `lemma_ind` obligations)."""
from .dsl import *     # noqa
from . import vocab    # noqa

# on an increasing vector the quantifier-free cut IS the count of entries strictly below v
lemma("cut_is_count",
      vars=dict(thr=ListT(Real), c=Int, v=Real),
      requires=["increasing(thr)", "is_cut(thr, c, v)"],
      ensures=[("count", "is_count_below(thr, c, v)")],
      props=("C02",),
      )

lemma("count_is_cut",
      vars=dict(thr=ListT(Real), c=Int, v=Real),
      requires=["is_count_below(thr, c, v)"],
      ensures=[("cut", "is_cut(thr, c, v)")],
      props=("C02",))

# for every v some c is the cut (non-vacuity of the T postcondition): induction on the prefix length
lemma("cut_exists",
      vars=dict(thr=ListT(Real), v=Real, m=Int),
      requires=["increasing(thr)", "0 <= m", "m <= len(thr)"],
      ensures=[("exists", "exists(0, m + 1, lambda c: (c == 0 or thr[c - 1] < v) and (c == m or v <= thr[c]))")],
      induct="m", props=("C02",))

"""Library lemmas (proved once by the same back ends; `lemma` / `lemma_ind` obligations)."""
from .dsl import *     # noqa
from . import vocab    # noqa

# on an increasing vector the quantifier-free cut IS the count of entries strictly below v
lemma("cut_is_count",
      vars=dict(thr=ListT(Real), c=Int, v=Real),
      requires=["increasing(thr)", "is_cut(thr, c, v)"],
      ensures=[("count", "is_count_below(thr, c, v)")],
      props=("C02",),
      )

lemma("count_is_cut",
      vars=dict(thr=ListT(Real), c=Int, v=Real),
      requires=["is_count_below(thr, c, v)"],
      ensures=[("cut", "is_cut(thr, c, v)")],
      props=("C02",))

# for every v some c is the cut (non-vacuity of the T postcondition): induction on the prefix length
lemma("cut_exists",
      vars=dict(thr=ListT(Real), v=Real, m=Int),
      requires=["increasing(thr)", "0 <= m", "m <= len(thr)"],
      ensures=[("exists", "exists(0, m + 1, lambda c: (c == 0 or thr[c - 1] < v) and (c == m or v <= thr[c]))")],
      induct="m", props=("C02",))


# sums of non-negative terms (used, instantiated, by the engine's sum model)
lemma("psum_nonneg",
      vars=dict(v=VecT(Real), m=Int),
      requires=["0 <= m", "m <= len(v)", "forall(0, len(v), lambda k: v[k] >= 0)"],
      ensures=[("nonneg", "psum(v, m) >= 0")],
      induct="m", props=("C03", "C14", "C16", "C17"))

lemma("psum_pos",
      vars=dict(v=VecT(Real), m=Int, j=Int),
      requires=["0 <= j", "j < m", "m <= len(v)", "forall(0, len(v), lambda k: v[k] >= 0)", "v[j] > 0"],
      ensures=[("pos", "psum(v, m) > 0")],
      induct="m", uses=("psum_nonneg",), props=("C03", "C14", "C16", "C17"))


# a vector whose neighbours are ordered is ordered (justifies reading groupby on a neighbour-wise sorted key as "runs")
lemma("adjacent_monotone",
      vars=dict(f=VecT(Int), a=Int, b=Int),
      requires=["0 <= a", "a <= b", "b < len(f)", "forall(0, len(f), lambda k: implies(k + 1 < len(f), f[k] <= f[k + 1]))"],
      ensures=[("monotone", "f[a] <= f[b]")],
      induct="b", props=("C14",))


lemma("psum_zero",
      vars=dict(v=VecT(Real), m=Int),
      requires=["0 <= m", "m <= len(v)", "forall(0, len(v), lambda k: v[k] == 0)"],
      ensures=[("zero", "psum(v, m) == 0")],
      induct="m", props=("C04",))


# a stretch of a vector whose neighbours are equal is constant (runs of like segments)
lemma("adjacent_equal_constant",
      vars=dict(f=VecT(Real), lo=Int, k=Int),
      requires=["0 <= lo", "lo <= k", "k < len(f)", "forall(0, len(f), lambda j: implies(lo <= j and j < k, f[j] == f[j + 1]))"],
      ensures=[("constant", "f[k] == f[lo]")],
      induct="k", props=("C14",))


# prefix sums of non-negative terms grow with the prefix; a stretch of zeros adds nothing (weighted median)
lemma("psum_monotone",
      vars=dict(v=VecT(Real), a=Int, b=Int),
      requires=["0 <= a", "a <= b", "b <= len(v)", "forall(0, len(v), lambda k: v[k] >= 0)"],
      ensures=[("monotone", "psum(v, a) <= psum(v, b)")],
      induct="b", props=("C19",))

lemma("psum_flat",
      vars=dict(v=VecT(Real), a=Int, b=Int),
      requires=["0 <= a", "a <= b", "b <= len(v)", "forall(0, len(v), lambda k: implies(a <= k and k < b, v[k] == 0))"],
      ensures=[("flat", "psum(v, b) == psum(v, a)")],
      induct="b", props=("C19",))

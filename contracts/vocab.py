"""Shared specification vocabulary (DESIGN appendix B).

Every function here is written from the *property statements*, never from the
code.  Bodies stay inside the expression subset so that pyvc can evaluate their
AST symbolically and CPython can run them as they are.

Spec builtins available in both semantics (logical: pyvc.lib; executable:
runner.specrt): exp2, log2, trunc, ceil, floor, isnull, lower, forall, exists,
implies, ite, let, old.
"""
from .dsl import spec, const
try:                                     # executable semantics
    from runner.specrt import *          # noqa
except Exception:                        # pyvc only parses this file's AST
    pass


# ----------------------------------------------------------------------------- chromosome classes (C01, C02, C20)
@spec
def is_x_name(chrom):
    return lower(chrom) in ("chrx", "x")


@spec
def is_y_name(chrom):
    return lower(chrom) in ("chry", "y")


@spec
def Rpure(chrom, ploidy, male_ref):
    """Reference copies on the pure / threshold path (PAR is not looked at there)."""
    return ploidy // 2 if (is_y_name(chrom) or (male_ref and is_x_name(chrom))) else ploidy


@spec
def in_par(start, end, par1, par2):
    return (start >= par1[0] and end <= par1[1]) or (start >= par2[0] and end <= par2[1])


@spec
def cls_of(chrom, start, end, xlabel, ylabel, par):
    """0 autosome, 1 X, 2 Y, 3 PAR-X, 4 PAR-Y.  `par` is None or the PAR table of the build."""
    return (
        (3 if (par is not None and in_par(start, end, par["PAR1X"], par["PAR2X"])) else 1) if chrom == xlabel
        else ((4 if (par is not None and in_par(start, end, par["PAR1Y"], par["PAR2Y"])) else 2) if chrom == ylabel
              else 0)
    )


@spec
def Rcopies(cls, ploidy, male_ref):
    """Copies in the reference: autosome / PAR-X: ploidy; X: half for a male reference;
    Y: half; PAR-Y: 0 (mapped to X)."""
    return (ploidy if (cls == 0 or cls == 3)
            else ((ploidy // 2 if male_ref else ploidy) if cls == 1
                  else (ploidy // 2 if cls == 2 else 0)))


@spec
def Xcopies(cls, ploidy, female):
    """Copies expected in the patient's germline."""
    return (ploidy if (cls == 0 or cls == 3)
            else ((ploidy if female else ploidy // 2) if cls == 1
                  else ((0 if female else ploidy // 2) if cls == 2 else 0)))


# PAR coordinates of the two supported builds (GRC definitions, 0-based as the package uses them); written here
# independently of cnvlib/params.py so that a change there is noticed
PAR = const("PAR", {
    "grch37": {"PAR1X": (60000, 2699520), "PAR2X": (154931043, 155260560),
               "PAR1Y": (10000, 2649520), "PAR2Y": (59034049, 59363566)},
    "grch38": {"PAR1X": (10000, 2781479), "PAR2X": (155701382, 156030895),
               "PAR1Y": (10000, 2781479), "PAR2Y": (56887902, 57217415)},
})


@spec
def par_of(build):
    return None if build is None else PAR[lower(build)]


@spec
def xlabel_of(first_chrom):
    """naming style of the table: 'chrX'/'chrY' when its first chromosome name starts with 'chr'"""
    return "chrX" if startswith(first_chrom, "chr") else "X"


@spec
def ylabel_of(first_chrom):
    return "chrY" if startswith(first_chrom, "chr") else "Y"


# ----------------------------------------------------------------------------- C02 step function
@spec
def is_count_below(thr, c, v):
    """c is the number of entries of thr strictly below v (they form the prefix of length c)."""
    return 0 <= c and c <= len(thr) and forall(0, len(thr), lambda j: (j < c) == (thr[j] < v))


@spec
def is_cut(thr, c, v):
    """Quantifier-free form of is_count_below for an increasing vector (lemma count_cut_iff)."""
    return 0 <= c and c <= len(thr) and (c == 0 or thr[c - 1] < v) and (c == len(thr) or v <= thr[c])


@spec
def T_at(c, nthr, v, r, ploidy):
    """Threshold call for a log2 value v that has c thresholds strictly below it."""
    return ((c if r == ploidy else trunc(c * r / ploidy)) if c < nthr else ceil(r * exp2(v)))


@spec
def increasing(v):
    """strictly increasing (pairwise form: instantiating it creates no new terms)"""
    return forall(0, len(v), lambda a: forall(0, len(v), lambda b: implies(a < b, v[a] < v[b])))


@spec
def nondecreasing(v):
    return forall(0, len(v), lambda a: forall(0, len(v), lambda b: implies(a < b, v[a] <= v[b])))

"""work in progress (not loaded by the checks)"""
from .dsl import *     # noqa
from . import vocab    # noqa

from .c_call import CHROM, GENE      # noqa: E402

_TSEG = ObjT("CopyNumArray", data=TabT(index="range", chromosome=CHROM, start=Int, end=Int, gene=GENE, log2=Real, probes=Int), meta=DictT())
_TBIN = ObjT("CopyNumArray", data=TabT(index="any", chromosome=CHROM, start=Int, end=Int, gene=GENE, log2=Real, depth=Real, weight=Real), meta=DictT())
_TB = TabT(index="range", chromosome=CHROM, start=Int, end=Int, gene=GENE, log2=Real, depth=Real, weight=Real)
_TS = TabT(index="range", chromosome=CHROM, start=Int, end=Int, gene=GENE, log2=Real, probes=Int)
_SLO, _SHI = "uf_int('slice_lo', q)", "uf_int('slice_hi', q)"

contract(
    "skgenome/intersect.py::iter_slices",
    params=dict(table=_TB, other=_TS, mode=Lit("outer"), keep_empty=Lit(False)),
    yields=VecT(Int), trusted=True, requires=[],
    ensures=[
        ("one_index_array_per_range", "len(result) == len(other)"),
        ("block_of_overlapping_rows", "forall(0, len(other), lambda q: let(lambda lo, hi: 0 <= lo and lo < hi and hi <= len(table) and "
                                      "len(result[q]) == hi - lo and forall(0, hi - lo, lambda m: result[q][m] == lo + m) and "
                                      "forall(0, len(table), lambda r: (lo <= r and r < hi) == (table.chromosome[r] == other.chromosome[q] and "
                                      "table.end[r] > other.start[q] and table.start[r] < other.end[q])), SLO, SHI))".replace("SLO", _SLO).replace("SHI", _SHI)),
    ],
    props=(), domain="skip",
    notes="assumed where transfer_fields calls it (sorted bins, every segment overlapping at least one bin, so that "
          "keep_empty=False skips nothing): the positions of the bins overlapping range q are the block [slice_lo(q), "
          "slice_hi(q)); the bounded C07 contracts check iter_ranges_of / by_ranges built on the same kernel",
)

_WSUM = "sumof(Vec(SHI - SLO, lambda m: cnarr.data.weight[SLO + m]))".replace("SLO", _SLO).replace("SHI", _SHI)
_DSUM = "sumof(Vec(SHI - SLO, lambda m: cnarr.data.depth[SLO + m] * cnarr.data.weight[SLO + m]))".replace("SLO", _SLO).replace("SHI", _SHI)
contract(
    "cnvlib/segmentation/__init__.py::transfer_fields",
    params=dict(segments=_TSEG, cnarr=_TBIN),
    returns=ObjT("CopyNumArray"),
    requires=["len(cnarr.data) >= 1", "len(segments.data) >= 1"],
    loops={0: dict(inv=[
        ("lengths", "len(seg_weights) == len(segments.data) and len(seg_depths) == len(segments.data) and len(seg_genes) == len(segments.data)"),
        ("weights_summed", "forall(0, i_, lambda q: seg_weights[q] == WSUM)".replace("WSUM", _WSUM), ["lengths"]),
        ("depths_averaged", "forall(0, i_, lambda q: seg_depths[q] == ite(WSUM > 0, DSUM / WSUM, 0.0))".replace("WSUM", _WSUM).replace("DSUM", _DSUM), ["lengths"]),
    ])},
    ensures=[("same_rows", "len(result.data) == len(segments.data)"),
             ("weights_summed", "forall(0, len(result.data), lambda q: result.data.weight[q] == WSUM)".replace("WSUM", _WSUM)),
             ("depths_averaged", "forall(0, len(result.data), lambda q: result.data.depth[q] == ite(WSUM > 0, DSUM / WSUM, 0.0))".replace("WSUM", _WSUM).replace("DSUM", _DSUM)),
             ],
    modifies=("segments", "segments.data"),
    props=("C03",), domain="skip",
)

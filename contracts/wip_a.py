"""work in progress (not loaded by the checks)"""
from .dsl import *     # noqa
from . import vocab    # noqa

"""Must-fail canaries: in-memory mutations of the real source; each must lose an obligation."""
from contracts import dsl
from . import front, solve, verify
from .engine import Ctx


def run_canaries(keys, timeout_ms=5000, limit_per_fn=None):
    """Returns list of dict(key, label, killed, by, verdicts)."""
    out = []
    for key in keys:
        c = dsl.CONTRACTS[key]
        todo = c.canaries[:limit_per_fn] if limit_per_fn else c.canaries
        for lab, old, new in todo:
            target = key
            if isinstance(lab, tuple):      # (label, other function key): mutation in a callee/caller
                lab, target = lab
            rec = dict(key=key, label=lab, killed=False, by=None, status="")
            try:
                ok = front.mutate(target, old, new)
            except SyntaxError:
                ok = False
            if not ok:
                rec["status"] = "mutation-not-applicable"
                front.clear_overrides()
                out.append(rec)
                continue
            try:
                from . import par
                infos, obls, res, _agg = par.verify_all([key], [], timeout_ms=timeout_ms, second=False)
                info = infos[0]
                if info["status"] != "ok":
                    rec.update(killed=True, by="unsupported:" + info["detail"][:80], status="unsupported")
                else:
                    bad = [(ob.name, r["verdict"]) for ob, r in zip(obls, res) if not r["ok"]]
                    if bad:
                        sat = [b for b in bad if b[1] == "sat"]
                        rec.update(killed=True, by=(sat or bad)[0][0], status=(sat or bad)[0][1])
                    else:
                        rec["status"] = "survived"
            finally:
                front.clear_overrides()
            out.append(rec)
    return out


if __name__ == "__main__":
    import sys
    from .devrun import load_contracts
    load_contracts()
    keys = [k for k in dsl.CONTRACTS if (not sys.argv[1:] or any(a in k for a in sys.argv[1:])) and dsl.CONTRACTS[k].canaries]
    for r in run_canaries(keys):
        print("%-50s %-18s killed=%s %s %s" % (r["key"], r["label"], r["killed"], r["status"], (r["by"] or "")[-70:]))

"""Developer driver: verify selected contracts and print the obligation table."""
import importlib
import sys
import time

from contracts import dsl
from . import front, solve, verify
from .engine import Ctx


def load_contracts():
    import pkgutil, contracts
    for m in pkgutil.iter_modules(contracts.__path__):
        if m.name.startswith("c_") or m.name in ("vocab", "lemmas"):
            importlib.import_module("contracts." + m.name)
    import os
    for extra in filter(None, os.environ.get("VERIF_EXTRA_CONTRACTS", "").split(",")):
        importlib.import_module("contracts." + extra)      # work-in-progress contract modules (development only)


def main(argv):
    from . import par
    load_contracts()
    keys = [k for k in dsl.CONTRACTS if (not argv or any(a in k for a in argv)) and not dsl.CONTRACTS[k].trusted]
    lemmas = [l for l in dsl.LEMMAS if (not argv or any(a in l for a in argv)) and not dsl.LEMMAS[l].trusted]
    t0 = time.time()
    infos, obls, agg = par.symexec(keys, lemmas)
    for info in infos:
        print("%-60s %s cases=%d paths=%d %s" % (info["key"], info["status"], info["cases"], info["paths"], info["detail"]))
        if info["status"] != "ok" and "-v" in sys.argv:
            print(info.get("trace", ""))
    t1 = time.time()
    res = par.discharge(obls, timeout_ms=10000)
    bad = 0
    for ob, r in zip(obls, res):
        if not r["ok"] or "-a" in sys.argv:
            print("  %-100s %-8s %-8s %.2fs %s" % (ob.name[-100:], r["verdict"], r["backend"], r["seconds"], r.get("reason") or ""))
        bad += 0 if r["ok"] else 1
    print("obligations=%d failed=%d symexec=%.1fs solve=%.1fs" % (len(res), bad, t1 - t0, time.time() - t1))
    if "-m" in sys.argv:
        for ob, r in zip(obls, res):
            if not r["ok"] and r.get("model"):
                print(ob.name); print(r["model"][:3000]); break
    if "-s" in sys.argv:
        for ob, r in zip(obls, res):
            if not r["ok"]:
                open("/tmp/failed.smt2", "w").write(ob.smt2); print("wrote /tmp/failed.smt2 for", ob.name); break


if __name__ == "__main__":
    main([a for a in sys.argv[1:] if not a.startswith("-")])

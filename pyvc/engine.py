"""pyvc symbolic executor: forward symbolic execution of real Python ASTs
against sidecar contracts, producing named verification conditions."""
import ast
import os
import itertools

import z3

from . import front
from .values import *   # noqa
from contracts import dsl


class Obl:
    """One verification condition: hyps |- goal   (kind 'sat': hyps must be satisfiable)."""

    def __init__(self, name, kind, hyps, goal, fn=None, line=None, expect="unsat", info=None):
        self.name, self.kind, self.hyps, self.goal = name, kind, list(hyps), goal
        self.fn, self.line, self.expect, self.info = fn, line, expect, info or {}


_MISSING = object()
LAZY_HEAP = {}      # addr -> value: objects that are elements of symbolic sequences (shared by all states; a state
                    # that writes to one gets its own copy in its heap, which takes precedence)


class State:
    __slots__ = ("env", "pc", "heap", "ctl", "ret", "ghost", "pathid", "exc")

    def __init__(self, env=None, pc=None, heap=None, ghost=None, pathid=""):
        self.env = dict(env or {})
        self.pc = list(pc or [])
        self.heap = dict(heap or {})
        self.ghost = dict(ghost or {})
        self.ctl = None
        self.ret = None
        self.exc = None
        self.pathid = pathid

    def fork(self, tag=""):
        s = State(self.env, self.pc, self.heap, self.ghost, self.pathid + tag)
        s.ctl, s.ret, s.exc = self.ctl, self.ret, self.exc
        return s

    def assume(self, f):
        if f is True:
            return
        if f is False:
            f = z3.BoolVal(False)
        self.pc.append(f)

    # heap ----------------------------------------------------------------
    def alloc(self, val):
        addr = fresh_name("a")
        self.heap[addr] = val
        return Ref(addr)

    def get(self, v):
        while isinstance(v, Ref):
            hv = self.heap.get(v.addr, _MISSING)
            if hv is _MISSING:
                hv = LAZY_HEAP[v.addr]      # elements of a symbolic sequence of objects/tables (allocated on demand)
            v = hv
        return v

    def put(self, ref, val):
        self.heap[ref.addr] = val


class Frame:
    """Static context of the function being executed (for name resolution)."""

    def __init__(self, key, mod, cls, node, contract, closure=None):
        self.key, self.mod, self.cls, self.node, self.contract = key, mod, cls, node, contract
        self.closure = closure
        self.loops = _loops_cached(node) if node is not None else {}


_LOOPS = {}
_SPEC_EXPR = {}


def _loops_cached(node):
    r = _LOOPS.get(id(node))
    if r is None or r[0] is not node:
        r = (node, {id(n): k for k, n in enumerate(front.loops_of(node))})
        _LOOPS[id(node)] = r
    return r[1]


class Ctx:
    """Per-run context: obligations, assumptions used, library models."""

    def __init__(self, prop=None):
        self.prop = prop
        self.obls = []
        self.used_lib = set()       # names of assumed library contracts actually used
        self.used_inline = set()    # repo functions executed by inlining
        self.used_contracts = set() # callee contracts assumed at call sites
        self.used_trusted = set()
        self.notes = []
        self.atom_sorts = {}
        self.ufs = {}
        self.prune_solver_time = 0.0
        self.dropped = []           # statements dropped by extraction (logging)
        self.spec_defs = {}         # (spec name, sorts) -> (function symbol, definitional axiom)
        self.atom_funs = {}         # ('lower'|'startswith', sort[, prefix]) -> function symbol
        self.bounded = None         # tuple of sizes: bounded refutation mode (concrete lengths, loops unrolled)
        self.bound_ctr = 0
        self.inline_specs = False
        self.entries = {}           # case label -> (param env, entry state)  (for counterexample extraction)
        self.nl = False             # True: symbolic products/quotients are real nonlinear terms;
                                    # False: they are uninterpreted mul/div applications (congruence only)
        self.path_count = 0

    def atom_sort(self, name):
        if name not in self.atom_sorts:
            self.atom_sorts[name] = z3.DeclareSort(name)
        return self.atom_sorts[name]

    def uf(self, name, *sorts):
        if name not in self.ufs:
            self.ufs[name] = z3.Function(name, *sorts)
        return self.ufs[name]


def sort_of(ctx, t):
    if isinstance(t, dsl._Int):
        return I
    if isinstance(t, dsl._Real):
        return R
    if isinstance(t, dsl._Bool):
        return B
    if isinstance(t, dsl._Str):
        return S
    if isinstance(t, dsl.Atom):
        return ctx.atom_sort(t.sort)
    raise Unsupported("no scalar sort for %r" % (t,))


class Exec:
    def __init__(self, ctx):
        self.ctx = ctx
        self.frames = []
        self.spec_depth = 0
        from . import lib
        self.lib = lib

    # ------------------------------------------------------------------ helpers
    @property
    def fr(self):
        return self.frames[-1]

    def oblig(self, kind, label, st, goal, line=None, expect="unsat", info=None, keep_invs=None):
        if self.spec_depth:
            return
        sel = getattr(self.ctx, "clause_sel", None)
        if sel and sel[0] == "only" and kind != "post":
            return       # second (nonlinear) pass re-proves selected postconditions only
        if goal is True:
            return
        if goal is False:
            goal = z3.BoolVal(False)
        key = self.frames[0].key if self.frames else "lemma"
        name = "%s/%s:%s" % (key, kind, label)
        if st.pathid:
            name += "@" + st.pathid
        gfs = list(getattr(self, "global_facts", ()))
        pc = list(st.pc)
        if keep_invs is not None:
            # the clause declares which loop invariants its proof needs: the others are left out of the hypotheses
            # (fewer hypotheses can only make the proof harder, never unsound; it keeps the query small and stable)
            # Facts assumed from a callee's clauses carry the callee clause's label; they are filtered only when the list
            # names at least one callee clause (a list of own invariants alone keeps every callee fact).
            tags = st.ghost.get("inv_tags", {})
            callee_labs = {t[0] for t in tags.values() if len(t) > 2 and t[2] == "callee"}
            filter_callee = bool(callee_labs & set(keep_invs))

            def _drop(f):
                if not (is_z3(f) and f.get_id() in tags and tags[f.get_id()][1].eq(f)):
                    return False
                t = tags[f.get_id()]
                if len(t) > 2 and t[2] == "callee" and not filter_callee:
                    return False
                return t[0] not in keep_invs
            pc = [f for f in pc if not _drop(f)]
            if "-path" in keep_invs and "entry_pc" in st.ghost:
                # a clause that follows from earlier clauses alone (a proof step independent of the code): only the
                # precondition and the named clauses are its hypotheses, nothing the path through the body added
                n0 = st.ghost["entry_pc"]
                pc = [f for i, f in enumerate(list(st.pc)) if (i < n0 and any(f is g for g in pc)) or
                      (i >= n0 and is_z3(f) and f.get_id() in tags and tags[f.get_id()][1].eq(f) and tags[f.get_id()][0] in keep_invs)]
        if gfs and keep_invs is not None and is_z3(goal):
            # the clause has declared what it needs: global definitional facts (prefix sums, congruences) are kept only
            # when they share a function symbol with the goal or the kept hypotheses (transitively)
            syms = set(func_syms(goal))
            for f in pc:
                if is_z3(f):
                    syms |= func_syms(f)
            # Sums are linked by their psum!/cumsum!/_el! symbols.  A fact about one such symbol (its definition, a sign
            # fact) is kept when the symbol is relevant, and makes the symbols of its elements known; a fact relating
            # two of them (a congruence) is kept only when everything else it mentions is known -- a congruence with a
            # sum built on another path through the body mentions that path's state and is never needed.
            is_link = lambda x: x.startswith(("psum!", "cumsum!")) or "_el!" in x
            allowed = set(syms)
            links_ok = {x for x in allowed if is_link(x)}
            rest, kept, changed = list(gfs), [], True
            while changed:
                changed = False
                for f in list(rest):
                    fs = func_syms(f)
                    link = {x for x in fs if is_link(x)}
                    if not link:
                        ok = bool(fs & allowed)
                    elif len(link) == 1:
                        ok = bool(link & links_ok)
                    else:
                        ok = bool(link & links_ok) and (fs - link) <= allowed
                    if ok:
                        kept.append(f)
                        rest.remove(f)
                        allowed |= fs
                        links_ok |= link
                        changed = True
            gfs = kept
        hyps = pc + gfs
        if is_z3(goal):
            # safety net: no formula of this obligation may mention, as a free constant, a name that a quantifier of the
            # obligation binds -- that would be a value or definition created while a closure was evaluated at a bound
            # variable (e.g. a callee contract applied inside an element map under a quantifier) and then leaked
            fc = set(free_consts(goal))
            bn = set(bound_names(goal))
            for f in hyps:
                if is_z3(f):
                    fc |= free_consts(f)
                    bn |= bound_names(f)
            clash = fc & bn
            if clash and os.environ.get("PYVC_DEBUG_LEAK"):
                for f in hyps + [goal]:
                    if is_z3(f) and (set(free_consts(f)) & clash):
                        print("LEAK-IN", "GF" if any(f is g for g in gfs) else "PC/GOAL", f.sexpr()[:1500])
                        break
            if clash:
                raise Unsupported("value created under a quantifier's bound variable leaks: %s" % sorted(clash)[:3])
        split = (info or {}).get("split_on")
        if expect == "unsat" and is_z3(goal):
            extra, goal, consts = skolemize(goal)
            hyps += extra
            # ground terms that occur only inside quantifier bodies of the goal are invisible to trigger-based
            # instantiation of the hypotheses; mention them under a fresh unconstrained predicate (a conservative
            # extension: the predicate can be true everywhere)
            hyps += ground_markers(goal)
            if split is not None and consts:
                k0 = consts[0]
                self.ctx.obls.append(Obl(name + "#new", kind, hyps + [k0 == to_z3(split)], goal, fn=key, line=line))
                self.ctx.obls.append(Obl(name + "#old", kind, hyps + [k0 != to_z3(split)], goal, fn=key, line=line))
                return
        self.ctx.obls.append(Obl(name, kind, hyps, goal, fn=key, line=line, expect=expect, info=info))

    def feasible(self, st, extra=None, ms=300):
        """Cheap pruning of dead paths (unknown counts as feasible)."""
        import time
        s = z3.Solver()
        s.set("timeout", ms)
        # quantifier-free part of the path condition only (weaker, so `unsat` is still conclusive)
        s.add(*[f for f in st.pc if not has_quant(f)])
        if extra is not None:
            s.add(extra)
        # a quantified hypothesis next to its own negation (up to the names of bound variables), e.g. a precondition and the
        # branch condition that tests the same thing: dead without asking the solver about quantifiers
        qs = [f for f in st.pc if is_z3(f) and has_quant(f)]
        if qs:
            from .lib_np import alpha_key
            keys = {alpha_key(z3.simplify(f)) for f in qs}
            if any(alpha_key(z3.simplify(z3.Not(f))) in keys for f in qs):
                return False
        t = time.time()
        r = s.check()
        self.ctx.prune_solver_time += time.time() - t
        return r != z3.unsat

    # ------------------------------------------------------------------ fresh values by type
    def fresh_len(self, hint, st):
        ctx = self.ctx
        if ctx.bounded is not None and not self.in_callee_result:
            n = ctx.bounded[ctx.bound_ctr % len(ctx.bounded)]
            ctx.bound_ctr += 1
            return n
        n = fresh(I, hint + "_n")
        st.assume(n >= 0)
        return n

    in_callee_result = False
    assume_mode = 0
    map_depth = 0      # > 0 while evaluating the element closure of a row/element map (callees are inlined there)

    def fresh_value(self, t, hint, st, cols_present=None):
        ctx = self.ctx
        if isinstance(t, (dsl._Int, dsl._Real, dsl._Bool, dsl._Str, dsl.Atom)):
            return fresh(sort_of(ctx, t), hint)
        if isinstance(t, dsl._NReal):
            return NF(fresh(B, hint + "_null"), fresh(R, hint))
        if isinstance(t, dsl.Opt):
            if isinstance(t.t, (dsl._Int, dsl._Real, dsl._Bool)) and st.ghost.get("__in_loop_havoc"):
                # a loop-carried variable that is None or a number: (is-None flag, payload)
                return OptV(fresh(B, hint + "_none"), fresh(sort_of(ctx, t.t), hint))
            raise Unsupported("Opt must be case split: " + hint)
        if isinstance(t, dsl.Lit):
            raise Unsupported("Lit must be case split: " + hint)
        if isinstance(t, dsl.VecT):
            if t.n is not None:
                n = t.n
            else:
                n = self.fresh_len(hint, st)
            at = self.fresh_elems(t.elt, hint, st)
            idx = None
            if t.kind == "series":
                idx = Idx(hint)
            v = Vec(n, at, idx=idx, elt=t.elt, kind=t.kind)
            return st.alloc(v)
        if isinstance(t, dsl.TabT):
            n = self.fresh_len(hint, st)
            cols, elts = {}, {}
            for c, ct in t.cols.items():
                if c in t.opt and cols_present is not None and c not in cols_present:
                    continue
                cols[c] = self.fresh_elems(ct, hint + "_" + c, st)
                elts[c] = ct
            if t.index == "range":
                idx = RangeIdx(n)
            else:
                lab = fresh_name(hint + "_lab")
                L = z3.Function(lab, I, I)
                idx = Idx(hint, labels=lambda k, L=L: L(to_z3(k)), unique=(t.index == "unique"))
                if t.index == "unique":
                    if isinstance(n, int):
                        if n > 1:
                            st.assume(z3.Distinct([L(z3.IntVal(q)) for q in range(n)]))
                    else:
                        a, b = z3.Ints(fresh_name("a") + " " + fresh_name("b"))
                        st.assume(z3.ForAll([a, b], z3.Implies(z3.And(0 <= a, a < b, b < n), L(a) != L(b))))
            return st.alloc(Tab(n, cols, idx, elts))
        if isinstance(t, dsl.TupT):
            return tuple(self.fresh_value(x, "%s_%d" % (hint, i), st) for i, x in enumerate(t.ts))
        if isinstance(t, dsl.RecT):
            return Rec({k: self.fresh_value(x, "%s_%s" % (hint, k), st) for k, x in t.fields.items()}, t.name)
        if isinstance(t, dsl.SeqT):
            n = self.fresh_len(hint, st)
            return Seq(n, self.fresh_elems(t.elt, hint, st), elt=t.elt)
        if isinstance(t, dsl.ObjT):
            f = {}
            for k, ft in t.fields.items():
                f[k] = self.fresh_value(ft, hint + "_" + k, st, cols_present)
            return st.alloc(Obj(t.cls, f))
        if isinstance(t, dsl.DictT):
            return st.alloc(DictV({k: self.fresh_value(x, hint + "_" + k, st) for k, x in t.items.items()}))
        if isinstance(t, dsl.FuncT) and tuple(t.args) == ("vec",):
            return Func("vecfun", t.name)       # an opaque functional: vector -> real
        if isinstance(t, dsl.FuncT):
            f = self.ctx.uf(t.name, *([sort_of(ctx, a) for a in t.args] + [sort_of(ctx, t.ret)]))
            return Func("uf", f)
        raise Unsupported("fresh value of type %r" % (t,))

    def fresh_elems(self, t, hint, st):
        """Element closure k -> value for a fresh array of element type t."""
        ctx = self.ctx
        if isinstance(t, (dsl._Int, dsl._Real, dsl._Bool, dsl._Str, dsl.Atom)):
            A = z3.Function(fresh_name(hint), I, sort_of(ctx, t))
            return lambda k, A=A: A(to_z3(k))
        if isinstance(t, dsl._NReal):
            A = z3.Function(fresh_name(hint), I, R)
            N = z3.Function(fresh_name(hint + "_null"), I, B)
            return lambda k, A=A, N=N: NF(N(to_z3(k)), A(to_z3(k)))
        if isinstance(t, dsl.TupT):
            fs = [self.fresh_elems(x, "%s_%d" % (hint, i), st) for i, x in enumerate(t.ts)]
            return lambda k, fs=fs: tuple(f(k) for f in fs)
        if isinstance(t, dsl.RecT):
            fs = {n: self.fresh_elems(x, "%s_%s" % (hint, n), st) for n, x in t.fields.items()}
            return lambda k, fs=fs, nm=t.name: Rec({n: f(k) for n, f in fs.items()}, nm)
        if isinstance(t, dsl.SliceT):
            lo = self.fresh_elems(dsl.Int, hint + "_lo", st)
            hi = self.fresh_elems(dsl.Int, hint + "_hi", st)
            return lambda k, lo=lo, hi=hi: SliceV(lo(k), hi(k))
        if isinstance(t, dsl.Opt):
            # element possibly None: modelled as (isnone flag, value); only scalar payloads
            inner = self.fresh_elems(t.t, hint, st)
            N = z3.Function(fresh_name(hint + "_none"), I, B)
            return lambda k, inner=inner, N=N: OptV(N(to_z3(k)), inner(k))
        if isinstance(t, dsl.VecT):
            # vector of vectors: per-row length function and 2-argument element function
            L = z3.Function(fresh_name(hint + "_len"), I, I)
            a = fresh(I, "a")
            st.assume(z3.ForAll([a], L(a) >= 0))
            es = sort_of(ctx, t.elt)
            E = z3.Function(fresh_name(hint + "_e"), I, I, es)
            return lambda k, L=L, E=E, t=t: Vec(L(to_z3(k)), lambda j, k=k: E(to_z3(k), to_z3(j)), elt=t.elt, kind=t.kind)
        if isinstance(t, dsl.TabT):
            L = z3.Function(fresh_name(hint + "_len"), I, I)
            a = fresh(I, "a")
            st.assume(z3.ForAll([a], L(a) >= 0))
            Es = {}
            for c, ct in t.cols.items():
                if isinstance(ct, dsl._NReal):
                    Es[c] = (z3.Function(fresh_name(hint + "_" + c), I, I, R),
                             z3.Function(fresh_name(hint + "_" + c + "_null"), I, I, B))
                else:
                    Es[c] = (z3.Function(fresh_name(hint + "_" + c), I, I, sort_of(ctx, ct)), None)

            def cell(E, Nn, k):
                if Nn is None:
                    return lambda j: E(to_z3(k), to_z3(j))
                return lambda j: NF(Nn(to_z3(k), to_z3(j)), E(to_z3(k), to_z3(j)))
            LL = z3.Function(fresh_name(hint + "_lab"), I, I, I)
            return lambda k, L=L, Es=Es, t=t, LL=LL: Tab(
                L(to_z3(k)), {c: cell(E, Nn, k) for c, (E, Nn) in Es.items()},
                Idx(hint, labels=(lambda j, k=k: LL(to_z3(k), to_z3(j)))), dict(t.cols))
        if isinstance(t, dsl.SeqT) and isinstance(t.elt, dsl.RecT) and all(
                isinstance(ft, (dsl._Int, dsl._Real, dsl._Bool, dsl._Str, dsl.Atom, dsl._NReal)) for ft in t.elt.fields.values()):
            # a sequence of records inside each element: per-element length and 2-argument field functions
            L = z3.Function(fresh_name(hint + "_len"), I, I)
            a = fresh(I, "a")
            st.assume(z3.ForAll([a], L(a) >= 0))
            Fs = {}
            for c, ct in t.elt.fields.items():
                if isinstance(ct, dsl._NReal):
                    Fs[c] = (z3.Function(fresh_name(hint + "_" + c), I, I, R), z3.Function(fresh_name(hint + "_" + c + "_null"), I, I, B))
                else:
                    Fs[c] = (z3.Function(fresh_name(hint + "_" + c), I, I, sort_of(ctx, ct)), None)

            def rec_at(k, j, Fs=Fs, nm=t.elt.name):
                k, j = to_z3(k), to_z3(j)
                return Rec({c: (E(k, j) if Nn is None else NF(Nn(k, j), E(k, j))) for c, (E, Nn) in Fs.items()}, nm)
            return lambda k, L=L: Seq(L(to_z3(k)), lambda j, k=k: rec_at(k, j))
        if isinstance(t, dsl.DictT):
            if t.items:
                raise Unsupported("sequence of non-empty dicts")

            def dict_at(k):
                addr = fresh_name("a")
                LAZY_HEAP[addr] = DictV({})
                return Ref(addr)
            return dict_at
        if isinstance(t, dsl.ObjT):
            fs = {k: self.fresh_elems(ft, hint + "_" + k, st) for k, ft in t.fields.items()}

            def obj_at(k, t=t, fs=fs):
                addr = fresh_name("a")
                fv = {}
                for f, g in fs.items():
                    x = g(k)
                    if isinstance(x, (Tab, Vec, DictV, ListV, Obj, Seq)):
                        a2 = fresh_name("a")
                        LAZY_HEAP[a2] = x
                        x = Ref(a2)
                    fv[f] = x
                LAZY_HEAP[addr] = Obj(t.cls, fv)
                return Ref(addr)
            return memo_at(obj_at)      # the same position always denotes the same object
        raise Unsupported("fresh elements of type %r" % (t,))

    # ------------------------------------------------------------------ truthiness
    def truth(self, v, st):
        ref0 = v
        v = st.get(v)
        if v is None:
            return False
        if isinstance(v, bool):
            return v
        if isinstance(v, (int, float)):
            return v != 0
        if isinstance(v, str):
            return len(v) > 0
        if isinstance(v, OptV):
            return z3.And(z3.Not(v.none), _b(self.truth(v.val, st)))
        if isinstance(v, NF):
            return z3.Or(v.null, v.val != 0)
        if is_z3(v):
            if v.sort() == B:
                return v
            if v.sort() == I or v.sort() == R:
                return v != 0
            if v.sort() == S:
                return z3.Length(v) > 0
            if is_atom(v):
                return v != atom_const(v.sort(), "")       # a name is true unless it is the empty string
            raise Unsupported("truth of sort %s" % v.sort())
        if isinstance(v, (ListV, tuple)):
            return len(v.items if isinstance(v, ListV) else v) > 0
        if isinstance(v, DictV):
            return len(v.d) > 0
        if isinstance(v, Seq):
            return v.n > 0
        if isinstance(v, Vec):
            if v.kind == "list":
                return v.n > 0 if is_z3(v.n) else v.n > 0
            raise Unsupported("truth value of an array/Series")
        if isinstance(v, Obj):
            return self.lib.obj_truth(self, st, v, ref0)
        if isinstance(v, (Func, Module)):
            return True
        raise Unsupported("truth of %r" % (v,))

    # ------------------------------------------------------------------ expressions
    def evs(self, exprs, st):
        res = [(st, [])]
        for e in exprs:
            nxt = []
            for s, vs in res:
                if s.ctl:
                    nxt.append((s, vs + [None]))
                    continue
                for s2, v in self.ev(e, s):
                    nxt.append((s2, vs + [v]))
            res = nxt
        return res

    def ev1(self, e, st):
        """Evaluate an expression that must not fork (specs, simple operands)."""
        r = self.ev(e, st)
        if len(r) != 1 or r[0][0].ctl:
            raise Unsupported("expression forks or raises: " + ast.unparse(e)[:80])
        return r[0][1]

    def ev(self, e, st):
        m = getattr(self, "ev_" + type(e).__name__, None)
        if m is None:
            raise Unsupported("expression " + type(e).__name__)
        return m(e, st)

    def ev_Constant(self, e, st):
        return [(st, e.value)]

    def ev_Name(self, e, st):
        return [(st, self.lookup(e.id, st))]

    def lookup(self, name, st):
        if name in st.env:
            return st.env[name]
        if name == "fs" and self.spec_depth and st.ghost.get("fs") is not None:
            return st.ghost["fs"]          # the file-system ghost state (spec expressions only)
        fr = self.fr
        c = fr.closure
        while c is not None:
            if name in c:
                return c[name]
            c = c.get("__parent__")
        return self.lookup_global(fr.mod, name)

    def lookup_global(self, mod, name):
        if mod is not None:
            if name in mod.funcs:
                return Func("repo", "%s::%s" % (mod.rel, name), mod=mod.rel)
            if name in mod.classes:
                return ClassV(mod.rel, name)
            if name in mod.imports:
                imp = mod.imports[name]
                if imp[0] == "module":
                    rel = front.dotted_to_rel(imp[1])
                    return Module(rel if rel else imp[1])
                base, nm = imp[1], imp[2]
                rel = front.dotted_to_rel(base + "." + nm) if base else front.dotted_to_rel(nm)
                if rel:
                    return Module(rel)
                rel = front.dotted_to_rel(base)
                if rel:
                    return self.lookup_global(front.load(rel), nm)
                return self.lib.external_name(base, nm)
            if name in mod.consts:
                return self.const_value(mod, name)
        if name in self.lib.BUILTINS:
            return Func("builtin", name)
        if name in dsl.SPECS:
            return Func("spec", name)
        if name in dsl.CONSTS:
            return self.lift(dsl.CONSTS[name])
        raise Unsupported("unresolved name %s" % name)

    def const_value(self, mod, name):
        expr = mod.consts[name]
        if isinstance(expr, ast.Call) and ast.unparse(expr.func) == "re.compile":
            return RegexV(ast.literal_eval(expr.args[0]))
        v = front.literal_const(mod.rel, name)
        return self.lift(v)

    def lift(self, v):
        """Python literal -> value."""
        if isinstance(v, (list,)):
            return ListV([self.lift(x) for x in v])
        if isinstance(v, tuple):
            return tuple(self.lift(x) for x in v)
        if isinstance(v, dict):
            return DictV({k: self.lift(x) for k, x in v.items()})
        if type(v).__name__ == "dict_keys":
            return tuple(v)
        return v

    def ev_Tuple(self, e, st):
        return [(s, tuple(vs)) for s, vs in self.evs(e.elts, st)]

    def ev_List(self, e, st):
        out = []
        for s, vs in self.evs(e.elts, st):
            out.append((s, s.alloc(ListV(vs)) if not s.ctl else None))
        return out

    def ev_Dict(self, e, st):
        out = []
        for s, vs in self.evs(e.values, st):
            for s2, ks in self.evs(e.keys, s):
                if not all(is_conc(k) for k in ks):
                    raise Unsupported("dict literal with symbolic keys")
                out.append((s2, s2.alloc(DictV(dict(zip(ks, vs))))))
        return out

    def ev_UnaryOp(self, e, st):
        out = []
        for s, v in self.ev(e.operand, st):
            if s.ctl:
                out.append((s, None))
                continue
            if isinstance(e.op, ast.Not):
                t = self.truth(v, s)
                out.append((s, (not t) if isinstance(t, bool) else z3.Not(t)))
            elif isinstance(e.op, ast.USub):
                out.append((s, self.lib.neg(self, s, v)))
            elif isinstance(e.op, ast.Invert):
                out.append((s, self.lib.invert(self, s, v)))
            elif isinstance(e.op, ast.UAdd):
                out.append((s, v))
            else:
                raise Unsupported("unary op")
        return out

    def ev_BinOp(self, e, st):
        out = []
        for s, (a, b) in self.evs([e.left, e.right], st):
            if s.ctl:
                out.append((s, None))
                continue
            out.append((s, self.lib.binop(self, s, type(e.op).__name__, a, b, e)))
        return out

    def ev_BoolOp(self, e, st):
        # short circuit: evaluate operands left to right; symbolic conditions are merged
        is_and = isinstance(e.op, ast.And)
        results = []

        def go(i, s, conds):
            # conds: list of (truth-formula-of-previous, value) not needed; build merged value
            for s1, v in self.ev(e.values[i], s):
                if s1.ctl:
                    results.append((s1, None))
                    continue
                if i == len(e.values) - 1:
                    results.append((s1, ("val", v, conds)))
                    continue
                t = self.truth(v, s1)
                if isinstance(t, bool):
                    if t == is_and:
                        go(i + 1, s1, conds)
                    else:
                        results.append((s1, ("val", v, conds)))
                else:
                    # the next operand is evaluated only when this one did not decide: its obligations are checked, and
                    # whatever its evaluation assumes is recorded, under that guard
                    g = _b(t) if is_and else z3.Not(_b(t))
                    n0 = len(s1.pc)
                    s1.assume(g)
                    k0 = len(results)
                    go(i + 1, s1, conds + [(t, v)])
                    for (sr, _r) in results[k0:]:
                        pc = list(sr.pc)
                        if len(pc) > n0 and is_z3(pc[n0]) and pc[n0].eq(g):
                            sr.pc = pc[:n0] + [z3.Implies(g, f) if is_z3(f) else f for f in pc[n0 + 1:]]
        go(0, st, [])
        out = []
        for s, r in results:
            if r is None:
                out.append((s, None))
                continue
            _, last, conds = r
            if not conds:
                out.append((s, last))
                continue
            if all((is_z3(v) and v.sort() == B) or isinstance(v, bool) for _t, v in conds) and \
                    (isinstance(last, bool) or (is_z3(last) and last.sort() == B)):
                parts = [_b(v) for _t, v in conds] + [_b(last)]
                out.append((s, (z3.And if is_and else z3.Or)(parts)))
                continue
            # result = first operand whose truth decides, else last
            val = last
            for t, v in reversed(conds):
                c = z3.Not(t) if is_and else t
                # if c then v else val      (values used as booleans in practice)
                val = self._merge_bool(c, v, val, s)
            out.append((s, val))
        return out

    def _merge_bool(self, c, a, b, st):
        """`a if c else b` where a is known to have truth value (c-dependent)."""
        def isb(x):
            return isinstance(x, bool) or (is_z3(x) and x.sort() == B)
        if isb(a) and isb(b):
            return z3.If(c, _b(a), _b(b))
        try:
            return merge_val(c, a, b)
        except Unsupported:
            ta, tb = self.truth(a, st), self.truth(b, st)
            return z3.If(c, _b(ta), _b(tb))

    def ev_IfExp(self, e, st):
        out = []
        for s, c in self.ev(e.test, st):
            if s.ctl:
                out.append((s, None))
                continue
            t = self.truth(c, s)
            if isinstance(t, bool):
                out += self.ev(e.body if t else e.orelse, s)
                continue
            # each arm is evaluated under its own guard (so that its partial operations are obliged only there)
            ra = self.ev(e.body, self._assume(s.fork(), t))
            rb = self.ev(e.orelse, self._assume(s.fork(), z3.Not(_b(t))))
            if len(ra) == 1 and len(rb) == 1 and not ra[0][0].ctl and not rb[0][0].ctl \
                    and ra[0][0].heap == s.heap and rb[0][0].heap == s.heap:
                try:
                    out.append((s, merge_val(t, ra[0][1], rb[0][1])))
                    continue
                except Unsupported:
                    pass
            for s2, v in self.ev(e.body, self._assume(s.fork("t"), t)):
                out.append((s2, v))
            for s2, v in self.ev(e.orelse, self._assume(s.fork("f"), z3.Not(t))):
                out.append((s2, v))
        return out

    def _assume(self, st, f):
        st.assume(f)
        return st

    def ev_Compare(self, e, st):
        out = []
        for s, vs in self.evs([e.left] + list(e.comparators), st):
            if s.ctl:
                out.append((s, None))
                continue
            parts = []
            for op, a, b in zip(e.ops, vs[:-1], vs[1:]):
                parts.append(self.lib.compare(self, s, type(op).__name__, a, b, e))
            if len(parts) == 1:
                out.append((s, parts[0]))
            else:
                if all(isinstance(p, bool) for p in parts):
                    out.append((s, all(parts)))
                else:
                    out.append((s, z3.And([_b(p) for p in parts])))
        return out

    def ev_Attribute(self, e, st):
        out = []
        for s, o in self.ev(e.value, st):
            if s.ctl:
                out.append((s, None))
                continue
            out += self.lib.get_attr(self, s, o, e.attr, e)
        return out

    def ev_Subscript(self, e, st):
        out = []
        for s, o in self.ev(e.value, st):
            if s.ctl:
                out.append((s, None))
                continue
            for s2, i in self.ev_index(e.slice, s):
                if s2.ctl:
                    out.append((s2, None))
                    continue
                out += self.lib.get_item(self, s2, o, i, e)
        return out

    def ev_index(self, sl, st):
        if isinstance(sl, ast.Slice):
            out = []
            for s, vs in self.evs([x if x is not None else ast.Constant(None) for x in (sl.lower, sl.upper, sl.step)], st):
                out.append((s, SliceV(vs[0], vs[1], vs[2])))
            return out
        if isinstance(sl, ast.Tuple):
            out = []
            rs = [(st, [])]
            for x in sl.elts:
                nxt = []
                for s, vs in rs:
                    for s2, v in self.ev_index(x, s):
                        nxt.append((s2, vs + [v]))
                rs = nxt
            return [(s, tuple(vs)) for s, vs in rs]
        return self.ev(sl, st)

    def ev_Slice(self, e, st):
        return self.ev_index(e, st)

    def ev_Lambda(self, e, st):
        return [(st, Func("lambda", e, env=self.capture(st), mod=self.fr.mod))]

    def capture(self, st):
        c = dict(st.env)
        c["__parent__"] = self.fr.closure
        c["__frame__"] = self.fr
        return c

    def ev_JoinedStr(self, e, st):
        parts = []
        exprs = []
        for v in e.values:
            if isinstance(v, ast.Constant):
                parts.append(v.value)
            else:
                if v.format_spec is not None or v.conversion != -1:
                    raise Unsupported("f-string format spec")
                parts.append(None)
                exprs.append(v.value)
        out = []
        for s, vs in self.evs(exprs, st):
            if s.ctl:
                out.append((s, None))
                continue
            it = iter(vs)
            items = [p if p is not None else self.lib.to_str(self, s, next(it)) for p in parts]
            out.append((s, self.lib.str_concat(items)))
        return out

    def ev_ListComp(self, e, st):
        return self.lib.comprehension(self, st, e, "list")

    def ev_GeneratorExp(self, e, st):
        return self.lib.comprehension(self, st, e, "gen")

    def ev_SetComp(self, e, st):
        return self.lib.comprehension(self, st, e, "set")

    def ev_DictComp(self, e, st):
        return self.lib.comprehension(self, st, e, "dict")

    def ev_Starred(self, e, st):
        raise Unsupported("starred expression")

    def ev_Call(self, e, st):
        # special forms of the spec language
        if isinstance(e.func, ast.Name) and e.func.id in self.lib.SPECIAL_FORMS and e.func.id not in st.env:
            return self.lib.SPECIAL_FORMS[e.func.id](self, st, e)
        if isinstance(e.func, ast.Name) and e.func.id == "super" and not e.args and "super" not in st.env:
            # zero-argument super() inside a method: the receiver, seen from the defining class's parents
            fr = next((f for f in reversed(self.frames) if f.node is not None and f.key != "spec"), None)
            if fr is None or not fr.cls or not fr.node.args.args:
                raise Unsupported("super() outside a method")
            return [(st, SuperProxy(st.env[fr.node.args.args[0].arg], fr.cls))]
        if self.spec_depth and isinstance(e.func, ast.Name) and e.func.id in dsl.OPAQUE_FUNS:
            arg = st.get(self.ev1(e.args[0], st))
            if not isinstance(arg, Vec):
                raise SpecError("%s(...) needs a vector" % e.func.id)
            return [(st, st.alloc(OpaqueVecApp(e.func.id, arg)))]
        out = []
        for s, f in self.ev(e.func, st):
            if s.ctl:
                out.append((s, None))
                continue
            argexprs = []
            star = False
            for a in e.args:
                if isinstance(a, ast.Starred):
                    star = True
                argexprs.append(a.value if isinstance(a, ast.Starred) else a)
            kwexprs = [k.value for k in e.keywords]
            for s2, vs in self.evs(argexprs + kwexprs, s):
                if s2.ctl:
                    out.append((s2, None))
                    continue
                args = []
                for a, v in zip(e.args, vs[:len(argexprs)]):
                    if isinstance(a, ast.Starred):
                        sv = s2.get(v)
                        if isinstance(sv, ListV):
                            args += list(sv.items)
                        elif isinstance(sv, tuple):
                            args += list(sv)
                        else:
                            raise Unsupported("*args of symbolic length")
                    else:
                        args.append(v)
                kwargs = {}
                for k, v in zip(e.keywords, vs[len(argexprs):]):
                    if k.arg is None:
                        dv = s2.get(v)
                        if not isinstance(dv, DictV):
                            raise Unsupported("**kwargs of unknown dict")
                        kwargs.update(dv.d)
                    else:
                        kwargs[k.arg] = v
                out += self.call(f, args, kwargs, s2, e)
        return out

    # ------------------------------------------------------------------ calls
    def call(self, f, args, kwargs, st, node=None):
        f = st.get(f)
        if isinstance(f, Func):
            if f.kind == "builtin":
                fn = self.lib.BUILTINS.get(f.target)
                if fn is None:
                    raise Unsupported("library function %s" % f.target)
                if f.bound is not None:
                    args = [f.bound] + list(args)
                r = fn(self, st, args, kwargs, node)
                return r if isinstance(r, list) else [(st, r)]
            if f.kind == "method":
                r = f.target(self, st, args, kwargs, node)
                return r if isinstance(r, list) else [(st, r)]
            if f.kind == "uf":
                return [(st, f.target(*[to_z3(st.get(a)) if not isinstance(a, NF) else a.val for a in args]))]
            if f.kind == "ext":
                c = dsl.CONTRACTS[f.target]
                return self.apply_contract(c, None, [f.bound] + list(args), kwargs, st, node)
            if f.kind == "vecfun":
                if len(args) != 1 or kwargs:
                    raise Unsupported("opaque functional %s called with other than one argument" % f.target)
                return [(st, self.lib.vec_functional(self, st, f.target, st.get(args[0])))]
            if f.kind == "spec":
                return self.call_spec(f.target, args, kwargs, st)
            if f.kind == "repo":
                if f.bound is not None:
                    args = [f.bound] + list(args)
                return self.call_repo(f.target, args, kwargs, st, node)
            if f.kind in ("lambda", "def"):
                return self.call_closure(f, args, kwargs, st)
        if isinstance(f, ClassV):
            return self.lib.construct(self, st, f, args, kwargs, node)
        raise Unsupported("call of %r" % (f,))

    def bind_args(self, fnode, args, kwargs, st, defaults_frame=None):
        """Python argument binding for a FunctionDef/Lambda.  Returns env dict."""
        a = fnode.args
        if a.posonlyargs:
            raise Unsupported("positional-only parameters in signature")
        names = [x.arg for x in a.args]
        env = {}
        args = list(args)
        if len(args) > len(names):
            if a.vararg:
                env[a.vararg.arg] = tuple(args[len(names):])
                args = args[:len(names)]
            else:
                raise Unsupported("too many positional arguments")
        elif a.vararg:
            env[a.vararg.arg] = ()
        for n, v in zip(names, args):
            env[n] = v
        extra_kw = {}
        for k, v in kwargs.items():
            if k in env:
                raise Unsupported("duplicate argument " + k)
            if k not in names and k not in [x.arg for x in a.kwonlyargs]:
                if a.kwarg:
                    extra_kw[k] = v          # **kwargs collects the keywords no parameter takes
                    continue
                raise Unsupported("unexpected keyword " + k)
            env[k] = v
        if a.kwarg:
            env[a.kwarg.arg] = st.alloc(DictV(extra_kw))
        ndef = len(a.defaults)
        for i, n in enumerate(names):
            if n not in env:
                j = i - (len(names) - ndef)
                if j < 0:
                    raise Unsupported("missing argument " + n)
                env[n] = self.default_value(a.defaults[j], st)
        for n, d in zip(a.kwonlyargs, a.kw_defaults):
            if n.arg not in env:
                if d is None:
                    raise Unsupported("missing kw-only argument " + n.arg)
                env[n.arg] = self.default_value(d, st)
        return env

    def default_value(self, d, st):
        # defaults are evaluated in the defining module's global scope
        s = State(pc=st.pc, heap=st.heap)
        v = self.ev1(d, s)
        st.heap.update(s.heap)
        return v

    def call_closure(self, f, args, kwargs, st):
        node = f.target
        env = self.bind_args(node, args, kwargs, st)
        if isinstance(f.env, _LiveEnv) and f.env["__frame__"] is self.fr:
            # called from its defining function: free variables see that function's current bindings
            f.env._env = st.env
        parent_frame = f.env.get("__frame__") if f.env else self.fr
        fr = Frame(parent_frame.key, parent_frame.mod, parent_frame.cls, node if isinstance(node, ast.FunctionDef) else None,
                   parent_frame.contract, closure=f.env)
        if isinstance(node, ast.Lambda):
            fr.loops = {}
        self.frames.append(fr)
        try:
            saved = st.env
            st.env = env
            outs = []
            if isinstance(node, ast.Lambda):
                for s, v in self.ev(node.body, st):
                    outs.append((s, v))
            else:
                if any(isinstance(n, (ast.Yield, ast.YieldFrom)) for n in ast.walk(node)):
                    raise Unsupported("nested generator def")
                for s in self.block(node.body, [st]):
                    v = s.ret if s.ctl == "return" else None
                    if s.ctl == "return":
                        s.ctl, s.ret = None, None
                    outs.append((s, v))
            for s, v in outs:
                s.env = dict(saved)
            return outs
        finally:
            self.frames.pop()

    def call_repo(self, key, args, kwargs, st, node=None):
        c = dsl.CONTRACTS.get(key)
        fnode, mod, cls = front.find_def(key)
        decos = [ast.unparse(d) for d in fnode.decorator_list]
        decos = [d for d in decos if d not in ("staticmethod", "classmethod", "property")
                 and not d.endswith(".setter")]
        is_gen = any(isinstance(n, (ast.Yield, ast.YieldFrom)) for n in ast.walk(fnode))
        if c is not None and not c.inline and not (self.map_depth and not is_gen and not c.trusted and not c.loops) \
                and not (self.ctx.bounded is not None and not is_gen and not c.trusted and not fnode.decorator_list):
            if decos and not c.trusted and not c.ghost.get("decorated"):
                # a contract verified against the body of a decorated function says nothing about the decorated function
                # unless it states (ghost `decorated`) why the decorator is the identity under its precondition
                raise Unsupported("contract of decorated function %s (%s) lacks a `decorated` justification" % (key, decos))
            return self.apply_contract(c, fnode, args, kwargs, st, node)
        if decos:
            raise Unsupported("inlining decorated function %s (%s) needs a contract" % (key, decos))
        if any(fr.key == key and fr.node is fnode for fr in self.frames):
            raise Unsupported("recursion into %s" % key)
        if len(self.frames) > 12:
            raise Unsupported("inline depth")
        if any(isinstance(n, (ast.Yield, ast.YieldFrom)) for n in ast.walk(fnode)
               if not isinstance(n, (ast.Lambda,))):
            # generator: needs a contract
            raise Unsupported("generator %s needs a contract" % key)
        self.ctx.used_inline.add(key)
        env = self.bind_args(fnode, args, kwargs, st)
        fr = Frame(key, mod, cls, fnode, c)
        self.frames.append(fr)
        try:
            saved = st.env
            st.env = env
            outs = []
            for s in self.block(fnode.body, [st]):
                v = s.ret if s.ctl == "return" else None
                if s.ctl == "return":
                    s.ctl, s.ret = None, None
                s.env = dict(saved)
                outs.append((s, v))
            return outs
        finally:
            self.frames.pop()

    def call_spec(self, name, args, kwargs, st):
        fn = dsl.SPECS[name]
        node, mod = self.lib.spec_ast(fn)
        env = self.bind_args(node, args, kwargs, st)
        r = self.call_spec_opaque(name, node, env, st)
        if r is not None:
            return [(st, r)]
        return self.call_spec_inline(name, node, env, st)

    def call_spec_opaque(self, name, node, env, st):
        """Scalar spec functions are kept as function symbols with a definitional axiom
        (forall args. f(args) == body), so that equal applications match by congruence and
        nonlinear bodies are only unfolded on demand."""
        if self.ctx.inline_specs:
            return None
        vals = [st.get(v) for v in env.values()]
        if not vals or not all((is_conc(v) and v is not None) or is_z3(v) for v in vals):
            return None
        if not any(is_z3(v) for v in vals):
            return None
        zs = [to_z3(v) for v in vals]
        if any(z.sort() == S for z in zs):
            return None   # string arguments may be compared with name atoms: keep the body visible
        key = (name, tuple(str(z.sort()) for z in zs), self.ctx.nl)
        defs = self.ctx.spec_defs
        if key not in defs:
            defs[key] = None   # recursion guard: recursive spec functions are inlined
            params = [fresh(z.sort(), "p_" + n) for n, z in zip(env, zs)]
            s2 = State(env=dict(zip(env, params)))
            try:
                r = self.call_spec_inline(name, node, dict(zip(env, params)), s2)
            except Unsupported:
                del defs[key]
                return None
            body = r[0][1]
            if s2.pc or not (is_z3(body) or (is_conc(body) and body is not None)):
                del defs[key]
                defs[key] = False
                return None
            body = to_z3(body)
            if body.sort() == S:
                defs[key] = False      # string-valued spec functions stay inlined (name-atom comparisons)
                return None
            f = z3.Function("%s!%s%s" % (name, "_".join(k[:1] for k in key[1]), "_nl" if self.ctx.nl else ""), *([z.sort() for z in zs] + [body.sort()]))
            ax = z3.ForAll(params, f(*params) == body, patterns=[f(*params)])
            defs[key] = (f, ax)
        d = defs[key]
        if not d:
            return None
        return d[0](*zs)

    def call_spec_inline(self, name, node, env, st):
        fr = Frame("spec::" + name, None, None, node, None)
        self.frames.append(fr)
        try:
            saved = st.env
            st.env = env
            outs = self.block(node.body, [st])
            # merge return paths into one value (spec functions are total and pure)
            rets = []
            for s in outs:
                if s.ctl != "return":
                    raise SpecError("spec function %s does not return on every path" % name)
                rets.append((s.pc[len(st.pc):], s.ret))
            val = rets[-1][1]
            for cond, v in reversed(rets[:-1]):
                c = z3.And(cond) if cond else z3.BoolVal(True)
                val = merge_val(c, v, val)
            st.env = saved
            st.ctl = None
            return [(st, val)]
        finally:
            self.frames.pop()

    def apply_contract(self, c, fnode, args, kwargs, st, node=None):
        """Modular call: check requires, havoc result/modifies, assume ensures."""
        self.ctx.used_contracts.add(c.key)
        if c.trusted:
            self.ctx.used_trusted.add(c.key)
        if fnode is None:
            # method of a class outside the repository (key ext::Class.method): bind by the contract's parameter list
            names = list(c.params)
            env = dict(zip(names, args))
            for k, v in kwargs.items():
                if k not in names or k in env:
                    raise Unsupported("argument %s of external %s" % (k, c.key))
                env[k] = v
            missing = [n for n in names if n not in env]
            if missing:
                raise Unsupported("external %s called without %s" % (c.key, missing))
        else:
            env = self.bind_args(fnode, args, kwargs, st)
        line = getattr(node, "lineno", None)
        pre_st = st.fork()
        spec_env = dict(env)
        # literal/optional parameters: the actual argument decides; nothing to split
        for i, r in enumerate(c.requires):
            g = self.spec_formula(r, spec_env, st, old_st=pre_st)
            self.oblig("call_pre", "%s#%d@L%s" % (c.key.split("::")[1], i, line), st, g, line=line)
        outs = []
        # exceptional behaviour
        if c.raises:
            w = self.spec_formula(c.raises["when"], spec_env, st, old_st=pre_st)
            if w is not False and not (is_z3(w) and z3.is_false(w)):
                sr = st.fork("x")
                sr.assume(_b(w))
                if self.feasible(sr):
                    sr.ctl, sr.exc = "raise", c.raises.get("exc", "Exception")
                    outs.append((sr, None))
                st.assume(z3.Not(_b(w)))
        for mname in c.modifies:
            ref = env.get(mname)
            if isinstance(ref, Ref):
                st.put(ref, self.havoc_like(st.get(ref), mname, st))
        rt = c.yields if c.yields is not None else c.returns
        rif = c.ghost.get("result_is_field")
        if rif and isinstance(st.get(env.get(rif[0])), Obj) and rif[1] in st.get(env[rif[0]]).f:
            # the result is a ghost field of the receiver when the caller's object model has one (else: fresh)
            res = st.get(env[rif[0]]).f[rif[1]]
            if c.yields is not None:
                spec_env["src_"] = Seq(st.get(res).n, self.fresh_elems(dsl.TupT(dsl.Int, dsl.Int, dsl.Int), "src", st))
        elif c.ghost.get("result_is"):
            # the result is the value of a spec expression over the arguments (e.g. a ghost field of the receiver)
            res = self.spec_value(c.ghost["result_is"], spec_env, st, old_st=pre_st)
        elif c.yields is not None:
            res = self.fresh_value(dsl.SeqT(c.yields), "res", st)
            # the callee's clauses may speak of where each value was yielded (src_): some such sequence exists
            spec_env["src_"] = Seq(res.n, self.fresh_elems(dsl.TupT(dsl.Int, dsl.Int, dsl.Int), "src", st))
        elif rt is None:
            res = None
        else:
            res = self.fresh_result(rt, env, st)
        spec_env["result"] = res
        for gname, gtext in (c.ghost.get("defs") or {}).items():
            # the callee's ghost definitions (spec values over its parameters), evaluated on the arguments as they were at entry
            if gname not in spec_env:
                spec_env[gname] = self.spec_value(gtext, dict(spec_env), st, old_st=pre_st)
        if c.ghost.get("introduces_groups"):
            # the callee's clauses speak of ghost run boundaries (group_lo / n_groups): some such exist after the call
            gG = fresh(I, "n_groups")
            st.assume(gG >= 0)
            st.ghost = dict(st.ghost)
            st.ghost["view_groups"] = (gG, z3.Function(fresh_name("grp_lo"), I, I))
        self.assume_mode += 1      # use(...) hints of the callee's clauses are dropped (they are valid formulas)
        try:
            top = self.frames[0].contract if self.frames else None
            keep = (top.ghost.get("callee_clauses") or {}).get(c.key) if top is not None else None
            for lab, ens in c.ensures:
                if "local_" in ens:
                    continue       # stepping-stone clauses about the callee's locals are not part of its interface
                if keep is not None and lab not in keep:
                    continue       # the caller's contract says which of the callee's clauses its proof uses (fewer is sound)
                f = self.spec_formula(ens, spec_env, st, old_st=pre_st)
                fb = _b(f)
                st.assume(fb)
                if is_z3(fb):
                    # tagged with its label, so that a clause of the caller can name the callee clauses it needs
                    st.ghost = dict(st.ghost)
                    tags = dict(st.ghost.get("inv_tags", {}))
                    tags[fb.get_id()] = (lab, fb, "callee")
                    st.ghost["inv_tags"] = tags
        finally:
            self.assume_mode -= 1
        outs.append((st, res))
        return outs

    def fresh_result(self, rt, env, st):
        if isinstance(rt, dsl.Opt):
            raise Unsupported("Opt result type in a callee contract")
        if isinstance(rt, dsl.FunResT):
            arg = st.get(env[rt.arg]) if rt.arg in env else st.get(self.spec_value(rt.arg, dict(env), st))
            if not isinstance(arg, Vec):
                raise Unsupported("opaque function result of a non-vector argument")
            return st.alloc(OpaqueVecApp(rt.name, arg))
        r = self.fresh_value(rt, "res", st)
        like = getattr(rt, "like", None)
        if like is not None:
            tok, n = self.index_of(env.get(like), st)
            v = st.get(r)
            st.put(r, v.with_(idx=tok, n=n))
        return r

    def index_of(self, v, st):
        """(index token, length) of a Series / DataFrame / array object value."""
        v = st.get(v)
        if isinstance(v, Obj):
            v = st.get(v.f.get("data"))
        if isinstance(v, (Vec, Tab)) and v.idx is not None:
            return v.idx, v.n
        raise Unsupported("`like` parameter has no index")

    def havoc_like(self, v, hint, st, t=None):
        if t is not None:
            nv = self.fresh_value(t, hint, st)
            return st.get(nv) if isinstance(nv, Ref) else nv
        if isinstance(v, Ref):
            v = st.get(v)
        if isinstance(v, bool):
            return fresh(B, hint)
        if isinstance(v, int):
            return fresh(I, hint)
        if isinstance(v, float):
            return fresh(R, hint)
        if isinstance(v, NF):
            return NF(fresh(B, hint + "_null"), fresh(R, hint))
        if is_z3(v):
            return fresh(v.sort(), hint)
        if isinstance(v, Vec):
            probe = v.at(z3.IntVal(0)) if v.elt is None else None
            elt = v.elt
            if elt is None:
                if isinstance(probe, NF):
                    elt = dsl.NReal
                elif is_z3(probe) or is_conc(probe):
                    so = to_z3(probe).sort()
                    elt = {I: dsl.Int, R: dsl.Real, B: dsl.Bool, S: dsl.Str}.get(so)
                    if elt is None:
                        A = z3.Function(fresh_name(hint), I, so)
                        return v.with_(at=lambda k, A=A: A(to_z3(k)))
                else:
                    raise Unsupported("havoc of vector with structured elements: declare its type")
            return v.with_(at=self.fresh_elems(elt, hint, st), elt=elt)
        if isinstance(v, Tab):
            cols = {c: self.fresh_elems(v.elts[c], hint + "_" + c, st) for c in v.cols}
            return Tab(v.n, cols, v.idx, v.elts)
        if isinstance(v, tuple):
            return tuple(self.havoc_like(x, hint, st) for x in v)
        if isinstance(v, Rec):
            return Rec({k: self.havoc_like(x, hint + "_" + k, st) for k, x in v.f.items()}, v.name)
        raise Unsupported("cannot havoc %r (declare its type in the loop spec)" % (v,))

    # ------------------------------------------------------------------ spec expressions
    def spec_expr(self, text):
        hit = _SPEC_EXPR.get(text)
        if hit is not None:
            return hit
        try:
            r = ast.parse(text.strip(), mode="eval").body
            _SPEC_EXPR[text] = r
            return r
        except SyntaxError as exc:
            raise SpecError("bad spec expression %r: %s" % (text, exc))

    def spec_value(self, text, env, st, old_st=None):
        s = State(env=env, pc=st.pc, heap=st.heap, ghost=st.ghost)
        s.ghost = dict(st.ghost)
        s.ghost["__old__"] = old_st
        fr = Frame("spec", None, None, None, self.frames[-1].contract if self.frames else None)
        self.frames.append(fr)
        self.spec_depth += 1
        try:
            v = self.ev1(self.spec_expr(text), s)
        finally:
            self.spec_depth -= 1
            self.frames.pop()
        # spec evaluation may allocate (list literals) and add definitional facts
        st.heap.update({k: v2 for k, v2 in s.heap.items() if k not in st.heap})
        for f in s.pc[len(st.pc):]:
            st.pc.append(f)
        # ... and memoised ghost definitions (prefix-sum functions, selections), whose defining facts were just kept
        for gk, gv in s.ghost.items():
            if gk == "sums" or gk.startswith(("psumdef:", "sum:", "vf:")):
                st.ghost[gk] = gv
        return v

    def spec_formula(self, text, env, st, old_st=None):
        v = self.spec_value(text, env, st, old_st)
        t = self.truth(v, st)
        return t

    # ------------------------------------------------------------------ statements
    def block(self, stmts, sts):
        for n in stmts:
            nxt = []
            for st in sts:
                if st.ctl:
                    nxt.append(st)
                else:
                    nxt += self.stmt(n, st)
            sts = nxt
            if len(sts) > 4000:
                raise Unsupported("path explosion")
        return sts

    def stmt(self, n, st):
        m = getattr(self, "st_" + type(n).__name__, None)
        if m is None:
            raise Unsupported("statement " + type(n).__name__)
        return m(n, st)

    def st_Pass(self, n, st):
        return [st]

    def st_Import(self, n, st):
        return [st]

    def st_ImportFrom(self, n, st):
        return [st]

    def st_Expr(self, n, st):
        v = n.value
        if isinstance(v, ast.Constant):
            return [st]   # docstring
        if isinstance(v, ast.Call) and ast.unparse(v.func).startswith(("logging.", "warnings.warn", "warnings.simplefilter")):
            self.ctx.dropped.append("%s:%d logging call" % (self.fr.key, n.lineno))
            return [st]
        if isinstance(v, ast.Yield):
            return self.do_yield(v, st)
        if isinstance(v, ast.YieldFrom):
            raise Unsupported("yield from")
        return [s for s, _ in self.ev(v, st)]

    def do_yield(self, y, st):
        out = []
        for s, v in self.ev(y.value, st):
            if s.ctl:
                out.append(s)
                continue
            g = s.ghost.get("out")
            if g is None:
                raise Unsupported("yield outside a generator under contract")
            v = self.snapshot(v, s)      # the yielded value as it is now (later mutation of the object is not seen)
            n, at = g
            view_upd = self.fr.contract.views if self.fr.contract else {}
            s.ghost = dict(s.ghost)
            s.ghost["out"] = (n + 1, memo_at(lambda k, n=n, at=at, v=v, s=s: v if (isinstance(k, int) and isinstance(n, int) and k == n)
                                      else self.merge_struct(to_z3(k) == to_z3(n), v, at(k), s)))
            # ghost: where each value was yielded = the indices of the enclosing for-loops at that moment (outermost
            # first, padded with -1 to depth 3); readable in specs as src_[j][d]
            lidx = tuple(s.ghost.get("lidx", ()))[:3]
            here = tuple(lidx) + (-1,) * (3 - len(lidx))
            sat = s.ghost.get("out_src") or (lambda k: (-1, -1, -1))
            s.ghost["out_src"] = (lambda k, n=n, sat=sat, here=here: here if (isinstance(k, int) and isinstance(n, int) and k == n)
                                  else tuple(merge_val(to_z3(k) == to_z3(n), a, b) for a, b in zip(here, sat(k))))
            for vname, upd in view_upd.items():
                # view update: functional;  upd is a python callable (old_view, yielded value, state) -> new_view
                s.ghost["view_" + vname] = upd(self, s, s.ghost.get("view_" + vname), v)
            out.append(s)
        return out

    def merge_struct(self, cond, a, b, st):
        """ite over values that may be heap objects (yielded objects): objects/tables are merged field by field into a
        new (lazily allocated) object"""
        if isinstance(a, tuple) and isinstance(b, tuple) and len(a) == len(b):
            return tuple(self.merge_struct(cond, x, y, st) for x, y in zip(a, b))
        if isinstance(a, Ref) and isinstance(b, Ref):
            if a.addr == b.addr:
                return a
            va, vb = st.get(a), st.get(b)
            if isinstance(va, Obj) and isinstance(vb, Obj) and va.cls == vb.cls and list(va.f) == list(vb.f):
                mv = Obj(va.cls, {k: self.merge_struct(cond, va.f[k], vb.f[k], st) for k in va.f})
            elif isinstance(va, Tab) and isinstance(vb, Tab) and list(va.cols) == list(vb.cols):
                la = va.idx.labels if va.idx is not None else None
                lb = vb.idx.labels if vb.idx is not None else None
                labels = (lambda k: merge_val(cond, la(k), lb(k))) if la and lb else None
                mv = Tab(z3.If(cond, to_z3(va.n), to_z3(vb.n)),
                         {c: (lambda k, fa=va.cols[c], fb=vb.cols[c]: merge_val(cond, fa(k), fb(k))) for c in va.cols},
                         Idx("merged", labels=labels), dict(va.elts))
            elif isinstance(va, DictV) and isinstance(vb, DictV) and not va.d and not vb.d:
                mv = DictV({})
            else:
                raise Unsupported("merge of structured values %r / %r" % (va, vb))
            addr = fresh_name("a")
            LAZY_HEAP[addr] = mv
            return Ref(addr)
        return merge_val(cond, a, b)

    def snapshot(self, v, st):
        if isinstance(v, Ref):
            hv = st.get(v)
            if isinstance(hv, (Vec, Tab)):
                return hv
            if isinstance(hv, ListV):
                return tuple(self.snapshot(x, st) for x in hv.items)
            return v
        if isinstance(v, tuple):
            return tuple(self.snapshot(x, st) for x in v)
        if isinstance(v, Rec):
            return Rec({k: self.snapshot(x, st) for k, x in v.f.items()}, v.name)
        return v

    def st_Assign(self, n, st):
        out = []
        for s, v in self.ev(n.value, st):
            if s.ctl:
                out.append(s)
                continue
            sts = [s]
            for t in n.targets:
                nxt = []
                for s2 in sts:
                    nxt += self.assign(t, v, s2)
                sts = nxt
            out += sts
        return out

    def st_AnnAssign(self, n, st):
        if n.value is None:
            return [st]
        out = []
        for s, v in self.ev(n.value, st):
            out += self.assign(n.target, v, s) if not s.ctl else [s]
        return out

    def assign(self, t, v, st):
        if isinstance(t, ast.Name):
            st.env[t.id] = v
            return [st]
        if isinstance(t, (ast.Tuple, ast.List)):
            vv = st.get(v)
            if isinstance(vv, ListV):
                items = vv.items
            elif isinstance(vv, tuple):
                items = vv
            elif isinstance(vv, Rec):
                items = tuple(vv.f.values())
            elif isinstance(vv, Vec) and isinstance(vv.n, int):
                items = tuple(vv.at(k) for k in range(vv.n))
            elif isinstance(vv, Vec) and not any(isinstance(e, ast.Starred) for e in t.elts):
                # a vector of symbolic length unpacked into m names: Python raises ValueError unless it has exactly m elements
                m = len(t.elts)
                self.oblig("unpack_length", "L%s" % getattr(t, "lineno", "?"), st, to_z3(vv.n) == m, line=getattr(t, "lineno", None))
                st.assume(to_z3(vv.n) == m)
                items = tuple(vv.at(k) for k in range(m))
            else:
                raise Unsupported("unpacking %r" % (vv,))
            if len(items) != len(t.elts):
                raise Unsupported("unpack length mismatch")
            sts = [st]
            for tt, x in zip(t.elts, items):
                nxt = []
                for s in sts:
                    nxt += self.assign(tt, x, s)
                sts = nxt
            return sts
        if isinstance(t, ast.Attribute):
            out = []
            for s, o in self.ev(t.value, st):
                out += self.lib.set_attr(self, s, o, t.attr, v, t)
            return out
        if isinstance(t, ast.Subscript):
            out = []
            for s, o in self.ev(t.value, st):
                for s2, i in self.ev_index(t.slice, s):
                    ov = s2.get(o)
                    key = s2.get(i) if isinstance(i, Ref) else i
                    if isinstance(ov, Rec) and not isinstance(o, Ref) and isinstance(t.value, ast.Name) and isinstance(key, str):
                        # row["field"] = value on a row held in a local variable (a private copy: rows are values here):
                        # the variable is rebound to the row with that field set (a new field is appended, as in pandas)
                        f = dict(ov.f)
                        f[key] = v
                        s2.env[t.value.id] = Rec(f, ov.name)
                        out.append(s2)
                        continue
                    out += self.lib.set_item(self, s2, o, i, v, t)
            return out
        raise Unsupported("assignment target " + type(t).__name__)

    def st_AugAssign(self, n, st):
        # x op= v : numpy/pandas in-place ops mutate the object; scalars rebind
        out = []
        t = n.target
        load = _as_load(t)
        if isinstance(t, ast.Subscript) and not isinstance(t.slice, (ast.Slice, ast.Tuple, ast.Constant)):
            r = self.lib.aug_masked(self, st, n)
            if r is not None:
                return r
        for s, (cur, v) in self.evs([load, n.value], st):
            if s.ctl:
                out.append(s)
                continue
            new = self.lib.binop(self, s, type(n.op).__name__, cur, v, n, inplace=True)
            if isinstance(cur, Ref) and isinstance(s.get(cur), (Vec, Tab)) and isinstance(t, ast.Name):
                # in-place on the object (aliases see it)
                nv = s.get(new) if isinstance(new, Ref) else new
                curv = s.get(cur)
                if isinstance(curv, Vec) and curv.ro:
                    raise Unsupported("in-place write through a read-only view")
                if isinstance(curv, Vec) and isinstance(nv, Vec):
                    nv = nv.with_(idx=curv.idx, kind=curv.kind)
                s.put(cur, nv)
                out.append(s)
            elif isinstance(cur, Ref) and isinstance(s.get(cur), ListV) and isinstance(t, ast.Name) \
                    and isinstance(n.op, ast.Add):
                # list += iterable  mutates the list object in place
                nv = s.get(new) if isinstance(new, Ref) else new
                s.put(cur, nv)
                out.append(s)
            else:
                out += self.assign(t, new, s)
        return out

    def st_Return(self, n, st):
        if n.value is None:
            st.ctl, st.ret = "return", None
            return [st]
        out = []
        for s, v in self.ev(n.value, st):
            if not s.ctl:
                s.ctl, s.ret = "return", v
            out.append(s)
        return out

    def st_Break(self, n, st):
        st.ctl = "break"
        return [st]

    def st_Continue(self, n, st):
        st.ctl = "continue"
        return [st]

    def st_Raise(self, n, st):
        st.ctl = "raise"
        exc = "Exception"
        if n.exc is not None:
            e = n.exc
            if isinstance(e, ast.Call):
                e = e.func
            exc = ast.unparse(e)
        st.exc = exc
        st.ret = n.lineno
        return [st]

    def st_Assert(self, n, st):
        out = []
        for s, v in self.ev(n.test, st):
            if s.ctl:
                out.append(s)
                continue
            t = self.truth(v, s)
            self.oblig("assert", "L%d" % n.lineno, s, t if not isinstance(t, bool) else z3.BoolVal(t), line=n.lineno)
            s.assume(_b(t))
            out.append(s)
        return out

    def st_If(self, n, st):
        out = []
        for s, c in self.ev(n.test, st):
            if s.ctl:
                out.append(s)
                continue
            t = self.truth(c, s)
            if isinstance(t, bool):
                out += self.block(n.body if t else n.orelse, [s])
                continue
            t = z3.simplify(t)
            if z3.is_true(t):
                out += self.block(n.body, [s])
                continue
            if z3.is_false(t):
                out += self.block(n.orelse, [s])
                continue
            a = s.fork("t")
            a.assume(t)
            b = s.fork("f")
            b.assume(z3.Not(t))
            if self.feasible(a):
                out += self.block(n.body, [a])
            if self.feasible(b):
                out += self.block(n.orelse, [b])
        return out

    def st_FunctionDef(self, n, st):
        st.env[n.name] = Func("def", n, env=self.capture(st), mod=self.fr.mod)
        # later assignments in the enclosing scope must be visible: share env by reference
        st.env[n.name].env = _LiveEnv(st, self.fr)
        return [st]

    def st_With(self, n, st):
        return self.lib.with_stmt(self, st, n)

    def st_Try(self, n, st):
        return self.lib.try_stmt(self, st, n)

    def st_Delete(self, n, st):
        # del frame["column"]
        outs = [st]
        for tgt in n.targets:
            if not isinstance(tgt, ast.Subscript):
                raise Unsupported("del of a non-subscript")
            nxt = []
            for s in outs:
                for s2, (ov, kv) in [(a, b) for a, b in self.evs([tgt.value, tgt.slice], s)]:
                    t = s2.get(ov)
                    key = s2.get(kv)
                    if isinstance(t, Tab) and isinstance(key, str) and isinstance(ov, Ref):
                        if key not in t.cols:
                            raise Unsupported("del of a missing column")
                        s2.put(ov, Tab(t.n, {c: f for c, f in t.cols.items() if c != key}, t.idx,
                                       {c: e for c, e in t.elts.items() if c != key}))
                        nxt.append(s2)
                    else:
                        raise Unsupported("del")
            outs = nxt
        return outs

    def st_Global(self, n, st):
        raise Unsupported("global")

    # ------------------------------------------------------------------ loops
    def loop_spec(self, n):
        k = self.fr.loops.get(id(n))
        c = self.fr.contract
        if c is None or k is None:
            return k, None
        return k, c.loops.get(k)

    def iter_desc(self, v, st):
        """Describe an iterable: (N, elem(i)) with N int or z3 Int."""
        v0 = v
        v = st.get(v)
        if isinstance(v, ListV):
            return len(v.items), (lambda i, v=v: _pick(v.items, i))
        if isinstance(v, tuple):
            return len(v), (lambda i, v=v: _pick(v, i))
        if isinstance(v, Vec):
            return v.n, v.at
        if isinstance(v, Seq):
            return v.n, v.at
        if isinstance(v, IterV):
            return v.n, v.at
        if isinstance(v, self.lib.IterState) and not isinstance(v.pos, int):
            raise Unsupported("iterator used again after a for-loop consumed it")
        if isinstance(v, self.lib.IterState):
            # the remaining items (iterating consumes them; the iterator is not used again by the modelled code)
            p0 = v.pos
            rest = (v.n - p0) if isinstance(v.n, int) else (v.n - p0 if p0 else v.n)
            return rest, (lambda i, v=v, p0=p0: v.at((i + p0) if p0 else i))
        if isinstance(v, DictV):
            ks = tuple(v.d)
            return len(ks), (lambda i, ks=ks: _pick(ks, i))
        if type(v).__name__ == "UniqueOf" and getattr(v, "at", None) is not None:
            return v.n, v.at
        if isinstance(v, Obj):
            r = self.lib.obj_iter(self, st, v)
            return self.iter_desc(r, st)
        if isinstance(v, Tab):
            raise Unsupported("iterating a DataFrame (column names)")
        raise Unsupported("iteration over %r" % (v,))

    def st_For(self, n, st):
        out = []
        for s, itv in self.ev(n.iter, st):
            if s.ctl:
                out.append(s)
                continue
            out += self.for_loop(n, itv, s)
        return out

    def for_loop(self, n, itv, st):
        k, spec = self.loop_spec(n)
        N, elem = self.iter_desc(itv, st)
        if isinstance(itv, Ref) and isinstance(st.get(itv), self.lib.IterState):
            # the loop consumes the iterator: any later use of it is outside the model
            st.put(itv, self.lib.IterState(N, None, "consumed-by-a-for-loop"))
        if isinstance(N, int) and (spec is None or self.ctx.bounded is not None):
            if N <= 12:
                return self.unroll(n, N, elem, st)
        if spec is None:
            raise Unsupported("loop %s at line %d has no invariant" % (k, n.lineno))
        return self.cut_loop(n, k, spec, st, N=N, elem=elem)

    def unroll(self, n, N, elem, st):
        sts = [st]
        done = []
        for i in range(N):
            nxt = []
            for s in sts:
                for s2 in self.assign(n.target, elem(i), s):
                    outer = tuple(s2.ghost.get("lidx", ()))
                    s2.ghost = dict(s2.ghost)
                    s2.ghost["lidx"] = outer + (i,)
                    for o in self.block(n.body, [s2]):
                        o.ghost = dict(o.ghost)
                        o.ghost["lidx"] = outer
                        if o.ctl == "continue":
                            o.ctl = None
                            nxt.append(o)
                        elif o.ctl == "break":
                            o.ctl = None
                            o.ghost = dict(o.ghost)
                            o.ghost["__broke__"] = True
                            done.append(o)
                        elif o.ctl:
                            done.append(o)
                        else:
                            nxt.append(o)
            sts = nxt
        res = []
        for s in sts:
            res += self.block(n.orelse, [s]) if n.orelse else [s]
        for s in done:
            if s.ghost.pop("__broke__", None):
                pass
            res.append(s)
        return res

    def modified_in(self, body, extra=()):
        names, objs = set(extra), set()
        for stmt in body:
            for x in ast.walk(stmt):
                if isinstance(x, (ast.FunctionDef, ast.Lambda)):
                    continue
                if isinstance(x, ast.Name) and isinstance(x.ctx, ast.Store):
                    names.add(x.id)
                if isinstance(x, (ast.Subscript, ast.Attribute)) and isinstance(x.ctx, ast.Store):
                    b = x.value
                    while isinstance(b, (ast.Subscript, ast.Attribute)):
                        b = b.value
                    if isinstance(b, ast.Name):
                        objs.add(b.id)
                if isinstance(x, ast.AugAssign) and isinstance(x.target, ast.Name):
                    objs.add(x.target.id)
                if isinstance(x, ast.Call) and isinstance(x.func, ast.Attribute) and \
                        x.func.attr in ("append", "extend", "remove", "update", "add", "pop", "insert", "sort", "clear"):
                    b = x.func.value
                    if isinstance(b, ast.Name):
                        objs.add(b.id)
        return names, objs

    def eval_invs(self, spec, st, i_val, old_st, iterable=None):
        env = dict(st.env)
        if i_val is not None:
            env["i_"] = i_val
        if iterable is not None and iterable[1] is not None:
            env["iter_"] = Seq(iterable[0], iterable[1])      # what the loop iterates over (as a sequence)
        for d, v in enumerate(st.ghost.get("lidx", ())):
            env["i%d_" % d] = v          # indices of the enclosing for-loops (outermost = i0_)
        g = st.ghost.get("out")
        if g is not None:
            env["out_"] = Seq(g[0], g[1])
            env["src_"] = Seq(g[0], st.ghost.get("out_src") or (lambda k: (-1, -1, -1)))
        for kname, v in st.ghost.items():
            if kname.startswith("view_"):
                env[kname] = v
            elif kname.startswith("loopiter_"):
                env["iter%s_" % kname[9:]] = Seq(v[0], v[1])     # what for-loop number k iterates over (k = its ordinal)
        # parameters and closure variables stay visible through lookup()
        res = []
        for ent in spec.get("inv", []):
            lab, text = ent[0], ent[1]
            res.append((lab, self.spec_formula(text, env, st, old_st=old_st)))
        return res

    @staticmethod
    def inv_needs(spec):
        """label -> set of invariant labels its preservation proof may use (None = all)"""
        out = {}
        for ent in spec.get("inv", []):
            out[ent[0]] = (set(ent[2]) | {ent[0]}) if len(ent) > 2 and ent[2] is not None else None
        return out

    def cut_loop(self, n, k, spec, st, N=None, elem=None):
        line = n.lineno
        entry = st.fork()
        old_st = self.frames[0].entry_state if hasattr(self.frames[0], "entry_state") else None
        is_for = isinstance(n, ast.For)
        # 1. invariant holds on entry
        st.ghost = dict(st.ghost)
        st.ghost["__entry_%d" % k] = entry
        if is_for and N is not None:
            st.ghost["loopiter_%d" % k] = (N, elem)      # readable in postconditions as iter<k>_ (outermost loops only make sense there)
        for lab, f in self.eval_invs(spec, st, 0 if is_for else None, old_st, (N, elem)):
            self.oblig("inv_init", "loop%d:%s" % (k, lab), st, f, line=line)
        # 2. havoc
        tnames = set()
        if is_for:
            for x in ast.walk(n.target):
                if isinstance(x, ast.Name):
                    tnames.add(x.id)
        names, objs = self.modified_in(n.body)
        h = st.fork("L%d" % k)
        vars_t = spec.get("vars", {})
        for nm in sorted(names):
            if nm in tnames:
                continue
            if nm in vars_t:
                h.ghost = dict(h.ghost)
                h.ghost["__in_loop_havoc"] = True
                h.env[nm] = self.fresh_value(vars_t[nm], nm, h)
                h.ghost.pop("__in_loop_havoc", None)
            elif nm in h.env:
                cur = h.env[nm]
                if isinstance(cur, Ref):
                    # rebinding of a name holding an object: fresh object like the old one
                    h.env[nm] = h.alloc(self.havoc_like(cur, nm, h))
                else:
                    h.env[nm] = self.havoc_like(cur, nm, h)
            # names first assigned inside the body and not live at the head need no havoc
        for nm in sorted(objs):
            if nm in names and nm not in h.env:
                continue
            if nm not in h.env:
                continue
            cur = h.env[nm]
            if isinstance(cur, Ref):
                if nm in vars_t:
                    nv = self.fresh_value(vars_t[nm], nm, h)
                    h.put(cur, h.get(nv))
                else:
                    h.put(cur, self.havoc_like(cur, nm, h))
        if "out" in h.ghost:
            c = self.frames[0].contract
            yt = c.yields if c else None
            if yt is None:
                raise Unsupported("generator without `yields` type")
            on = fresh(I, "out_n")
            h.assume(on >= 0)
            h.ghost["out"] = (on, self.fresh_elems(yt, "out", h))
            h.ghost["out_src"] = self.fresh_elems(dsl.TupT(dsl.Int, dsl.Int, dsl.Int), "src", h)
        for kname in list(h.ghost):
            if kname.startswith("view_"):
                mk = self.frames[0].contract.ghost.get(kname[5:])
                h.ghost[kname] = mk(self, h)   # fresh view
        i = None
        if is_for:
            i = fresh(I, "i")
            h.assume(i >= 0)
            h.assume(to_z3(i) <= to_z3(N))
        tags = dict(h.ghost.get("inv_tags", {}))
        for lab, f in self.eval_invs(spec, h, i, old_st, (N, elem)):
            fb = _b(f)
            h.assume(fb)
            if is_z3(fb):
                tags[fb.get_id()] = (lab, fb)
        h.ghost = dict(h.ghost)
        h.ghost["inv_tags"] = tags
        needs = self.inv_needs(spec)
        outs = []
        # 3. one arbitrary iteration
        if is_for:
            b = h.fork("b")
            b.assume(to_z3(i) < to_z3(N))
            b.ghost = dict(b.ghost)
            b.ghost["lidx"] = tuple(h.ghost.get("lidx", ())) + (i,)
            bodies = self.assign(n.target, elem(i), b)
            guard_exit = [(self._assume(h.fork("e"), to_z3(i) == to_z3(N)))]
        else:
            bodies, guard_exit = [], []
            for s, c in self.ev(n.test, h.fork()):
                t = self.truth(c, s)
                bt = s.fork("b")
                bt.assume(_b(t))
                bodies.append(bt)
                ex = s.fork("e")
                ex.assume(z3.Not(_b(t)))
                guard_exit.append(ex)
        if "decreases" in spec and not is_for:
            for b in bodies:
                env = dict(b.env)
                b.ghost = dict(b.ghost)
                b.ghost["__measure"] = self.spec_value(spec["decreases"], env, b)
        for b in bodies:
            if not self.feasible(b):
                continue
            # while the body runs, the index of a for-loop is a binder: a sum computed in the body is a function of it
            # (the same function symbol as the sum a clause writes under `forall q` over the same elements)
            with binding(*([i] if is_for and is_z3(i) else [])):
                body_outs = self.block(n.body, [b])
            for o in body_outs:
                if is_for:
                    o.ghost = dict(o.ghost)
                    o.ghost["lidx"] = tuple(h.ghost.get("lidx", ()))
                if o.ctl in (None, "continue"):
                    o.ctl = None
                    for lab, f in self.eval_invs(spec, o, (i + 1) if is_for else None, old_st, (N, elem)):
                        self.oblig("inv_pres", "loop%d:%s" % (k, lab), o, f, line=line,
                                   info=dict(split_on=i) if is_for else None, keep_invs=needs.get(lab))
                    if "__measure" in o.ghost:
                        m0 = o.ghost["__measure"]
                        m1 = self.spec_value(spec["decreases"], dict(o.env), o)
                        self.oblig("decreases", "loop%d" % k, o, z3.And(to_z3(m1) < to_z3(m0), to_z3(m0) >= 0), line=line)
                elif o.ctl == "break":
                    o.ctl = None
                    outs.append(o)
                else:
                    outs.append(o)
        # 4. exit
        for e in guard_exit:
            if not self.feasible(e):
                continue
            for nm in tnames:
                if nm in st.env:
                    try:
                        e.env[nm] = self.havoc_like(st.env[nm], nm, e)
                    except Unsupported:
                        e.env.pop(nm, None)
                else:
                    e.env.pop(nm, None)
            outs += self.block(n.orelse, [e]) if n.orelse else [e]
        return outs

    def st_While(self, n, st):
        k, spec = self.loop_spec(n)
        if spec is None:
            raise Unsupported("while loop %s at line %d has no invariant" % (k, n.lineno))
        return self.cut_loop(n, k, spec, st)


_HQ = {}


def has_quant(f):
    if not is_z3(f):
        return False
    i = f.get_id()
    r = _HQ.get(i)
    if r is not None:
        return r[1]
    todo, seen, res = [f], set(), False
    while todo:
        t = todo.pop()
        if t.get_id() in seen:
            continue
        seen.add(t.get_id())
        if z3.is_quantifier(t):
            res = True
            break
        todo += t.children()
    _HQ[i] = (f, res)
    return res


_MARK = {}


def func_syms(t, _cache={}):
    """names of the uninterpreted function symbols (arity > 0) occurring in t, except the arithmetic stand-ins"""
    i = t.get_id()
    hit = _cache.get(i)
    if hit is not None and hit[0].eq(t):
        return hit[1]
    out, seen, todo = set(), set(), [t]
    while todo:
        x = todo.pop()
        xi = x.get_id()
        if xi in seen:
            continue
        seen.add(xi)
        if z3.is_quantifier(x):
            todo.append(x.body())
        elif z3.is_app(x):
            if x.num_args() > 0 and x.decl().kind() == z3.Z3_OP_UNINTERPRETED:
                nm = x.decl().name()
                if nm not in ("mulR", "mulI", "divR"):
                    out.add(nm)
            todo += x.children()
    _cache[i] = (t, out)
    return out


def ground_markers(goal, limit=24):
    out, seen = [], set()

    def has_var(t, memo={}):
        i = t.get_id()
        if i in memo and memo[i][0].eq(t):
            return memo[i][1]
        r = z3.is_var(t) or (z3.is_quantifier(t)) or any(has_var(c) for c in t.children())
        memo[i] = (t, r)
        return r

    def walk(t, inside):
        if len(out) >= limit or t.get_id() in seen:
            return
        seen.add(t.get_id())
        if z3.is_quantifier(t):
            walk(t.body(), True)
            return
        if z3.is_app(t):
            if inside and t.num_args() > 0 and t.decl().kind() == z3.Z3_OP_UNINTERPRETED and not has_var(t):
                so = t.sort()
                key = so.name()
                if key not in _MARK:
                    _MARK[key] = z3.Function("ground_marker_" + key, so, z3.BoolSort())
                out.append(_MARK[key](t))
            for c in t.children():
                walk(c, inside)
    walk(goal, False)
    return out


def skolemize(goal):
    """Top-level universal quantifiers of a goal become fresh constants; antecedents become
    hypotheses.  (hyps |- forall k. A(k) => G(k))  iff  (hyps, A(k0) |- G(k0)) for fresh k0."""
    extra, consts = [], []
    for _ in range(8):
        if z3.is_quantifier(goal) and goal.is_forall():
            n = goal.num_vars()
            cs = [fresh(goal.var_sort(i), "sk_" + goal.var_name(i).split("!")[0]) for i in range(n)]
            goal = z3.substitute_vars(goal.body(), *reversed(cs))
            consts += cs
        elif z3.is_implies(goal) and (z3.is_quantifier(goal.arg(1)) or z3.is_implies(goal.arg(1)) or consts):
            extra.append(goal.arg(0))
            goal = goal.arg(1)
        else:
            break
    return extra, goal, consts


class _LiveEnv(dict):
    """Closure environment of a nested def: looks names up in the defining state lazily
    (so helpers defined before later assignments see them, as in Python)."""

    def __init__(self, st, frame):
        dict.__init__(self)
        self._env = st.env        # the dict object (assignments mutate it in place)
        self["__parent__"] = frame.closure
        self["__frame__"] = frame

    def __contains__(self, k):
        return dict.__contains__(self, k) or k in self._env

    def __getitem__(self, k):
        if dict.__contains__(self, k):
            return dict.__getitem__(self, k)
        return self._env[k]

    def get(self, k, d=None):
        return self[k] if k in self else d


class ClassV:
    def __init__(self, mod, name):
        self.mod, self.name = mod, name

    def __repr__(self):
        return "Class(%s)" % self.name


class RegexV:
    def __init__(self, pat):
        self.pat = pat


class IterV:
    """Lazy iterable (zip/enumerate/range/map result)."""

    def __init__(self, n, at):
        self.n, self.at = n, at


def _pick(items, i):
    if isinstance(i, int):
        return items[i]
    if not len(items):
        # a symbolic position of an empty sequence: out of bounds whatever it is (real accesses carry an index_bounds
        # obligation; in a clause the access is guarded by a length test) -- an arbitrary value
        return fresh(I, "oob")
    val = items[-1]
    for j in range(len(items) - 2, -1, -1):
        val = merge_val(i == j, items[j], val)
    return val


def _b(t):
    if isinstance(t, bool):
        return z3.BoolVal(t)
    return t


def _as_load(t):
    import copy
    t2 = copy.deepcopy(t)
    for x in ast.walk(t2):
        if hasattr(x, "ctx"):
            x.ctx = ast.Load()
    return t2

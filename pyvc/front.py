"""Source acquisition: the verified text is re-read from $VERIF_REPO on every run."""
import ast
import hashlib
import os

from .values import Unsupported

REPO = os.environ.get("VERIF_REPO", "/repo")


class ClassInfo:
    def __init__(self, name, node, mod, bases):
        self.name, self.node, self.mod, self.bases = name, node, mod, bases
        self.methods = {}
        self.attrs = {}
        for n in node.body:
            if isinstance(n, ast.FunctionDef):
                self.methods.setdefault(n.name, []).append(n)
            elif isinstance(n, ast.Assign) and len(n.targets) == 1 and isinstance(n.targets[0], ast.Name):
                self.attrs[n.targets[0].id] = n.value


class ModuleSrc:
    def __init__(self, rel, text):
        self.rel = rel
        self.text = text
        self.tree = ast.parse(text)
        self.pkg = os.path.dirname(rel)
        self.funcs = {}
        self.classes = {}
        self.imports = {}    # local name -> ('module', dotted) | ('from', dotted, name)
        self.consts = {}     # name -> ast expr
        for n in self.tree.body:
            if isinstance(n, ast.FunctionDef):
                self.funcs[n.name] = n
            elif isinstance(n, ast.ClassDef):
                self.classes[n.name] = ClassInfo(n.name, n, rel, [ast.unparse(b) for b in n.bases])
            elif isinstance(n, ast.Import):
                for a in n.names:
                    self.imports[a.asname or a.name.split(".")[0]] = ("module", a.name if a.asname else a.name.split(".")[0])
            elif isinstance(n, ast.ImportFrom):
                base = self._resolve_from(n)
                for a in n.names:
                    self.imports[a.asname or a.name] = ("from", base, a.name)
            elif isinstance(n, ast.Assign) and len(n.targets) == 1 and isinstance(n.targets[0], ast.Name):
                self.consts[n.targets[0].id] = n.value

    def _resolve_from(self, n):
        if n.level == 0:
            return n.module or ""
        parts = self.pkg.split("/") if self.pkg else []
        if n.level > 1:
            parts = parts[: len(parts) - (n.level - 1)]
        base = ".".join(parts)
        if n.module:
            base = (base + "." if base else "") + n.module
        return base


_cache = {}
_overrides = {}   # rel -> text (in-memory mutation for canaries)


def set_override(rel, text):
    _overrides[rel] = text
    _cache.pop(rel, None)


def clear_overrides():
    for r in list(_overrides):
        _cache.pop(r, None)
    _overrides.clear()


def repo_path(rel):
    return os.path.join(REPO, rel)


def dotted_to_rel(dotted):
    """'cnvlib.segfilters' -> 'cnvlib/segfilters.py' if it is a repository module."""
    p = dotted.replace(".", "/")
    if os.path.isfile(repo_path(p + ".py")):
        return p + ".py"
    if os.path.isfile(repo_path(p + "/__init__.py")):
        return p + "/__init__.py"
    return None


def load(rel):
    if rel in _cache:
        return _cache[rel]
    if rel in _overrides:
        text = _overrides[rel]
    else:
        with open(repo_path(rel)) as fh:
            text = fh.read()
    m = ModuleSrc(rel, text)
    _cache[rel] = m
    return m


def reset():
    _cache.clear()


def split_key(key):
    rel, qual = key.split("::")
    return rel, qual.split("#")[0]     # "file::qual#body" = contract on the body of a decorated function (see DESIGN 14.2)


def find_def(key):
    """Return (FunctionDef node, ModuleSrc, ClassInfo|None) for 'file.py::Qual.name'."""
    rel, qual = split_key(key)
    m = load(rel)
    parts = qual.split(".")
    cls = None
    if parts[0] in m.classes:
        cls = m.classes[parts[0]]
        cands = cls.methods.get(parts[1], [])
        if not cands:
            raise Unsupported("no method %s" % key)
        node = cands[0]
        # property getter is the first def; a setter carries @x.setter
        for c in cands:
            decos = [ast.unparse(d) for d in c.decorator_list]
            if not any(d.endswith(".setter") for d in decos):
                node = c
                break
        rest = parts[2:]
    else:
        if parts[0] not in m.funcs:
            raise Unsupported("no function %s" % key)
        node = m.funcs[parts[0]]
        rest = parts[1:]
    for p in rest:
        for n in ast.walk(node):
            if isinstance(n, ast.FunctionDef) and n.name == p and n is not node:
                node = n
                break
        else:
            raise Unsupported("no nested def %s in %s" % (p, key))
    return node, m, cls


def func_sha(key):
    node, m, _ = find_def(key)
    seg = ast.get_source_segment(m.text, node) or ast.unparse(node)
    return hashlib.sha256(seg.encode()).hexdigest()


def func_source(key):
    node, m, _ = find_def(key)
    return ast.get_source_segment(m.text, node) or ast.unparse(node)


def mutate(key, old, new, count=1):
    """In-memory mutation: replace `old` by `new` inside the source segment of `key`.
    Returns True when the text changed and still parses."""
    rel, _ = split_key(key)
    node, m, _ = find_def(key)
    seg = ast.get_source_segment(m.text, node)
    if seg is None or old not in seg:
        return False
    new_seg = seg.replace(old, new, count)
    lines = m.text.splitlines(keepends=True)
    # locate the segment by line/col offsets
    start = sum(len(l) for l in lines[: node.lineno - 1]) + node.col_offset
    text = m.text[:start] + new_seg + m.text[start + len(seg):]
    ast.parse(text)
    set_override(rel, text)
    return True


def literal_const(rel, name):
    """Literal evaluation of a module-level constant (params.py etc.)."""
    m = load(rel)
    if name not in m.consts:
        raise Unsupported("no constant %s in %s" % (name, rel))
    expr = m.consts[name]
    try:
        return ast.literal_eval(expr)
    except Exception:
        # allow references to earlier literal constants, tuple concatenation, .keys()
        env = {}
        for k, v in m.consts.items():
            try:
                env[k] = ast.literal_eval(v)
            except Exception:
                try:
                    env[k] = eval(compile(ast.Expression(v), rel, "eval"), {"__builtins__": {}}, dict(env))
                except Exception:
                    pass
            if k == name and k in env:
                return env[k]
        raise Unsupported("constant %s in %s is not a literal" % (name, rel))


def loops_of(node):
    """Loop statements of a function in ast.walk (BFS) order, nested defs excluded."""
    out = []
    todo = [node]
    while todo:
        cur = todo.pop(0)
        for ch in ast.iter_child_nodes(cur):
            if isinstance(ch, (ast.FunctionDef, ast.Lambda, ast.ClassDef)) and ch is not node:
                continue
            if isinstance(ch, (ast.For, ast.While)):
                out.append(ch)
            todo.append(ch)
    return out

"""Library models: Python builtins, numpy, pandas (assumed contracts, section 7 of DESIGN)
and the special forms of the spec language."""
import ast
import os
import inspect
import textwrap

import z3

from .values import *   # noqa
from .engine import ClassV, RegexV, OptV, IterV, _b, _pick, State, Frame
from contracts import dsl

BUILTINS = {}
SPECIAL_FORMS = {}


def builtin(*names):
    def deco(fn):
        for n in names:
            BUILTINS[n] = fn
        return fn
    return deco


def special(name):
    def deco(fn):
        SPECIAL_FORMS[name] = fn
        return fn
    return deco


def used(ex, name):
    ex.ctx.used_lib.add(name)


# =============================================================================== scalars
def is_num(v):
    return isinstance(v, (int, float)) and not isinstance(v, bool) or (is_z3(v) and v.sort() in (I, R))


def is_real(v):
    return isinstance(v, float) or (is_z3(v) and v.sort() == R)


def is_intlike(v):
    return (isinstance(v, (int, bool)) and not is_z3(v)) or (is_z3(v) and v.sort() in (I, B))


def EXP2(ex):
    return ex.ctx.uf("exp2", R, R)


def LOG2(ex):
    return ex.ctx.uf("log2", R, R)


def SQRT(ex):
    return ex.ctx.uf("sqrt", R, R)


def floor_div_int(a, b):
    if isinstance(b, int) and not isinstance(b, bool) and b > 0:
        return to_int(a) / b
    a, b = to_int(a), to_int(b)
    return z3.If(b > 0, a / b, (-a) / (-b))


def floor_real(x):
    return z3.ToInt(to_real(x))


def trunc_real(x):
    x = to_real(x)
    return z3.If(x >= 0, z3.ToInt(x), -z3.ToInt(-x))


def round_half_even(x):
    """Python 3 round() / numpy .round(): nearest integer, ties to even (exact, linear)."""
    x = to_real(x)
    f = z3.ToInt(x)
    d = x - z3.ToReal(f)
    return z3.If(d < z3.RealVal("1/2"), f,
                 z3.If(d > z3.RealVal("1/2"), f + 1,
                       z3.If(f % 2 == 0, f, f + 1)))


def ceil_real(x):
    return -z3.ToInt(-to_real(x))


def scalar_binop(ex, st, op, a, b, node=None):
    """Arithmetic on scalars (concrete, z3, NF)."""
    if isinstance(a, OptV) or isinstance(b, OptV):
        raise Unsupported("arithmetic on optional value")
    if isinstance(a, NF) or isinstance(b, NF) or (isinstance(a, float) and a != a) or (isinstance(b, float) and b != b):
        a, b = as_nf(a), as_nf(b)
        v = scalar_binop(ex, st, op, a.val, b.val, node)
        return NF(z3.Or(a.null, b.null), v)
    if is_conc(a) and is_conc(b) and not (a is None or b is None):
        try:
            if op == "Add":
                return a + b
            if op == "Sub":
                return a - b
            if op == "Mult":
                return a * b
            if op == "Div":
                return a / b if isinstance(a / b, float) and (a / b) != int(a / b) else (float(a / b))
            if op == "FloorDiv":
                return a // b
            if op == "Mod":
                return a % b
            if op == "Pow":
                if isinstance(a, int) and isinstance(b, int) and b >= 0:
                    return a ** b
        except ZeroDivisionError:
            raise Unsupported("constant division by zero (line %s, path %s): %r / %r" % (getattr(node, "lineno", "?"), st.pathid, a, b))
        if op not in ("Pow",):
            raise Unsupported("binop %s on constants" % op)
    if isinstance(a, str) or isinstance(b, str) or (is_z3(a) and a.sort() == S) or (is_z3(b) and b.sort() == S):
        if op == "Add":
            return str_concat([a, b])
        if op == "Mod":
            return str_percent(ex, st, a, b)
        raise Unsupported("string op " + op)
    if a is None or b is None:
        raise Unsupported("arithmetic on None")
    if op == "Add":
        return _arith(a, b, lambda x, y: x + y)
    if op == "Sub":
        return _arith(a, b, lambda x, y: x - y)
    if op == "Mult":
        if not ex.ctx.nl and not _is_numeral(a) and not _is_numeral(b):
            return _arith(a, b, lambda x, y: sym_mul(ex, x, y))
        return _arith(a, b, lambda x, y: x * y)
    if op == "Div":
        d = to_real(b)
        if node is not None and not isinstance(b, (int, float)):
            ex.oblig("div_nonzero", "L%s" % getattr(node, "lineno", "?"), st, d != 0, line=getattr(node, "lineno", None))
        elif isinstance(b, (int, float)) and b == 0:
            raise Unsupported("division by constant zero")
        if not ex.ctx.nl and not _is_numeral(b):
            return sym_div(ex, to_real(a), d)
        return to_real(a) / d
    if op == "FloorDiv":
        if is_intlike(a) and is_intlike(b):
            if not isinstance(b, int):
                ex.oblig("div_nonzero", "L%s" % getattr(node, "lineno", "?"), st, to_int(b) != 0, line=getattr(node, "lineno", None))
            return floor_div_int(a, b)
        return z3.ToReal(z3.ToInt(to_real(a) / to_real(b)))
    if op == "Mod":
        if is_intlike(a) and is_intlike(b):
            return to_int(a) - to_int(b) * floor_div_int(a, b)
        raise Unsupported("real modulo")
    if op == "Pow":
        if (isinstance(a, (int, float)) and a == 2) or (is_z3(a) and _is_numeral(a) and z3.simplify(to_real(a) == 2).eq(z3.BoolVal(True))):
            return exp2(ex, b)
        if is_z3(b) and _is_numeral(b):
            bv = z3.simplify(b)
            if z3.is_int_value(bv) or (z3.is_rational_value(bv) and bv.denominator_as_long() == 1):
                b = bv.as_long() if z3.is_int_value(bv) else bv.numerator_as_long()
        if isinstance(b, int) and 0 <= b <= 4:
            r = to_z3(a) if b else z3.IntVal(1)
            for _ in range(b - 1):
                r = r * to_z3(a)
            return r
        raise Unsupported("power %r ** %r" % (a, b))
    if op in ("BitAnd", "BitOr", "BitXor"):
        ta, tb = _asbool(a), _asbool(b)
        return {"BitAnd": z3.And, "BitOr": z3.Or, "BitXor": z3.Xor}[op](ta, tb)
    raise Unsupported("binop " + op)


def _is_numeral(v):
    if is_conc(v):
        return True
    v = z3.simplify(v) if is_z3(v) else v
    return z3.is_int_value(v) or z3.is_rational_value(v) or z3.is_algebraic_value(v)


def sym_mul(ex, x, y):
    """Product of two symbolic factors as an uninterpreted application (linear mode)."""
    used(ex, "symbolic products/quotients abstracted to uninterpreted mul/div (commutative; congruence only) "
             "unless the contract sets nonlinear=True")
    if x.sort() == R:
        return ex.ctx.uf("mulR", R, R, R)(x, y)
    return ex.ctx.uf("mulI", I, I, I)(x, y)


def sym_div(ex, x, y):
    used(ex, "symbolic products/quotients abstracted to uninterpreted mul/div (commutative; congruence only) "
             "unless the contract sets nonlinear=True")
    return ex.ctx.uf("divR", R, R, R)(x, y)


def _asbool(v):
    if isinstance(v, bool):
        return z3.BoolVal(v)
    if is_z3(v) and v.sort() == B:
        return v
    raise Unsupported("bitwise op on non-bool")


def _arith(a, b, f):
    if is_real(a) or is_real(b):
        return f(to_real(a), to_real(b))
    za, zb = to_z3(a), to_z3(b)
    if za.sort() == B:
        za = to_int(za)
    if zb.sort() == B:
        zb = to_int(zb)
    if za.sort() != zb.sort():
        za, zb = to_real(za), to_real(zb)
    return f(za, zb)


def exp2(ex, x):
    used(ex, "exp2/log2 abstract with axioms (positivity, monotone, inverse, fixed points)")
    if isinstance(x, int) and -64 <= x <= 64:
        return z3.RealVal(2) ** x if x >= 0 else 1 / (z3.RealVal(2) ** (-x))
    if isinstance(x, NF):
        return NF(x.null, EXP2(ex)(x.val))
    return EXP2(ex)(to_real(x))


def log2(ex, x):
    used(ex, "exp2/log2 abstract with axioms (positivity, monotone, inverse, fixed points)")
    if isinstance(x, NF):
        return NF(x.null, LOG2(ex)(x.val))
    return LOG2(ex)(to_real(x))


def transcendental_axioms(ctx):
    """Axioms added to every obligation that mentions exp2/log2/sqrt."""
    ax = {}
    if "exp2" in ctx.ufs or "log2" in ctx.ufs:
        e = ctx.uf("exp2", R, R)
        l = ctx.uf("log2", R, R)
        a, b = z3.Reals("ax_a ax_b")
        ax["exp2"] = [
            z3.ForAll([a], e(a) > 0, patterns=[e(a)]),
            z3.ForAll([a, b], z3.Implies(a < b, e(a) < e(b)), patterns=[z3.MultiPattern(e(a), e(b))]),
            e(0) == 1, e(1) == 2, e(-1) == z3.RealVal("1/2"), e(2) == 4,
            z3.ForAll([a], l(e(a)) == a, patterns=[e(a)]),
            z3.ForAll([a], z3.Implies(a > 0, e(l(a)) == a), patterns=[l(a)]),
            z3.ForAll([a, b], z3.Implies(z3.And(0 < a, a < b), l(a) < l(b)), patterns=[z3.MultiPattern(l(a), l(b))]),
        ]
    for nm, so in (("mulR", R), ("mulI", I)):
        if nm in ctx.ufs:
            f = ctx.ufs[nm]
            a, b = z3.Consts("ax_m1 ax_m2", so)
            ax[nm] = [z3.ForAll([a, b], f(a, b) == f(b, a), patterns=[f(a, b)]),
                      z3.ForAll([a, b], z3.Implies(z3.And(a >= 0, b >= 0), f(a, b) >= 0), patterns=[f(a, b)]),
                      z3.ForAll([a, b], z3.Implies(z3.And(a > 0, b > 0), f(a, b) > 0), patterns=[f(a, b)]),
                      z3.ForAll([a, b], z3.Implies(z3.Or(a == 0, b == 0), f(a, b) == 0), patterns=[f(a, b)]),
                      z3.ForAll([a, b], z3.Implies(b == 1, f(a, b) == a), patterns=[f(a, b)])]
    if "divR" in ctx.ufs:
        f = ctx.ufs["divR"]
        a, b = z3.Reals("ax_d1 ax_d2")
        ax["divR"] = [z3.ForAll([a, b], z3.Implies(z3.And(a >= 0, b > 0), f(a, b) >= 0), patterns=[f(a, b)]),
                      z3.ForAll([a, b], z3.Implies(z3.And(a > 0, b > 0), f(a, b) > 0), patterns=[f(a, b)]),
                      z3.ForAll([a, b], z3.Implies(z3.And(a == 0, b != 0), f(a, b) == 0), patterns=[f(a, b)]),
                      z3.ForAll([a, b], z3.Implies(b == 1, f(a, b) == a), patterns=[f(a, b)])]
    if "sqrt" in ctx.ufs:
        s = ctx.uf("sqrt", R, R)
        a, b = z3.Reals("ax_c ax_d")
        ax["sqrt"] = [
            z3.ForAll([a], z3.Implies(a >= 0, z3.And(s(a) >= 0, s(a) * s(a) == a))),
            z3.ForAll([a, b], z3.Implies(z3.And(0 <= a, a <= b), s(a) <= s(b))),
            s(0) == 0, s(1) == 1,
        ]
    return ax


def neg(ex, st, v):
    v0 = st.get(v)
    if isinstance(v0, Vec):
        return vec_map(ex, st, v0, lambda x: neg(ex, st, x))
    if isinstance(v0, NF):
        return NF(v0.null, -v0.val)
    if is_conc(v0):
        return -v0
    return -to_z3(v0) if to_z3(v0).sort() != B else -to_int(v0)


def invert(ex, st, v):
    v0 = st.get(v)
    if isinstance(v0, Vec):
        return vec_map(ex, st, v0, lambda x: invert(ex, st, x))
    if isinstance(v0, bool):
        return not v0
    if is_z3(v0) and v0.sort() == B:
        return z3.Not(v0)
    raise Unsupported("~ on non-boolean")


def binop(ex, st, op, a, b, node=None, inplace=False):
    a0, b0 = st.get(a), st.get(b)
    if isinstance(a0, (Vec,)) or isinstance(b0, Vec):
        if isinstance(a0, Vec) and a0.kind == "list" or isinstance(b0, Vec) and b0.kind == "list":
            raise Unsupported("list arithmetic on symbolic lists")
        return vec_binop(ex, st, op, a0, b0, node)
    if isinstance(a0, ListV) or isinstance(b0, ListV) or isinstance(a0, tuple) or isinstance(b0, tuple):
        return seq_binop(ex, st, op, a0, b0)
    return scalar_binop(ex, st, op, a0, b0, node)


def seq_binop(ex, st, op, a, b):
    if op == "Mod" and (isinstance(a, str) or (is_z3(a) and a.sort() == S)):
        return str_percent(ex, st, a, b)

    def items(x):
        return list(x.items) if isinstance(x, ListV) else list(x)
    if op == "Add" and isinstance(a, (ListV, tuple)) and isinstance(b, (ListV, tuple)):
        if isinstance(a, tuple) and isinstance(b, tuple):
            return tuple(items(a) + items(b))
        if isinstance(a, ListV) and isinstance(b, (ListV, tuple)):
            # list + tuple raises TypeError in Python; list += tuple is fine (handled by AugAssign)
            return st.alloc(ListV(items(a) + items(b)))
        raise Unsupported("tuple + list")
    if op == "Mult":
        if isinstance(b, int) and isinstance(a, (ListV, tuple)):
            r = items(a) * b
            return tuple(r) if isinstance(a, tuple) else st.alloc(ListV(r))
        if isinstance(a, ListV) and len(a.items) == 1 and is_z3(b):
            x = a.items[0]
            return st.alloc(Vec(b, lambda k, x=x: x, kind="list"))
    raise Unsupported("sequence op " + op)


def compare(ex, st, op, a, b, node=None):
    a0, b0 = st.get(a), st.get(b)
    if op in ("In", "NotIn"):
        r = contains(ex, st, b0, a0)
        if op == "NotIn":
            return (not r) if isinstance(r, bool) else z3.Not(r)
        return r
    if op in ("Is", "IsNot"):
        if isinstance(a0, OptV) and b0 is None:
            r = a0.none
        elif isinstance(b0, OptV) and a0 is None:
            r = b0.none
        elif a0 is None or b0 is None:
            r = a0 is b0
        elif isinstance(a, Ref) and isinstance(b, Ref):
            r = a.addr == b.addr
        elif isinstance(a0, bool) and isinstance(b0, bool):
            r = a0 is b0
        elif is_z3(a0) and isinstance(b0, bool) and a0.sort() == B:
            r = a0 == z3.BoolVal(b0)
        elif (is_z3(a0) or is_z3(b0) or isinstance(a0, NF) or isinstance(b0, NF)):
            # a symbolic scalar is never the None singleton; identity between scalars is not modelled
            raise Unsupported("`is` between symbolic scalars")
        else:
            r = a0 is b0
        if op == "IsNot":
            return (not r) if isinstance(r, bool) else z3.Not(r)
        return r
    if op in ("Eq", "NotEq") and ((isinstance(a0, OpaqueVecApp) and isinstance(b0, Vec)) or
                                  (isinstance(b0, OpaqueVecApp) and isinstance(a0, Vec))):
        # an opaque function result against a plain vector: element by element
        va = opaque_elems(ex, a0) if isinstance(a0, OpaqueVecApp) else a0
        vb = opaque_elems(ex, b0) if isinstance(b0, OpaqueVecApp) else b0
        k = fresh(I, "k")
        with binding(k):
            r = z3.And(to_z3(va.n) == to_z3(vb.n),
                       z3.ForAll([k], z3.Implies(z3.And(0 <= k, k < to_z3(va.n)), z3eq(va.at(k), vb.at(k)))))
        return z3.Not(r) if op == "NotEq" else r
    if isinstance(a0, OpaqueVecApp) or isinstance(b0, OpaqueVecApp):
        if op not in ("Eq", "NotEq") or not (isinstance(a0, OpaqueVecApp) and isinstance(b0, OpaqueVecApp)) or a0.name != b0.name:
            raise Unsupported("comparison involving an opaque function result")
        used(ex, "opaque function %s: equal arguments (element by element) give equal results" % a0.name)
        k = fresh(I, "k")
        r = z3.And(to_z3(a0.arg.n) == to_z3(b0.arg.n),
                   z3.ForAll([k], z3.Implies(z3.And(0 <= k, k < to_z3(a0.arg.n)), z3eq(a0.arg.at(k), b0.arg.at(k)))))
        return z3.Not(r) if op == "NotEq" else r
    if type(a0).__name__ == "DTypeV" and type(b0).__name__ == "DTypeV":
        if op not in ("Eq", "NotEq"):
            raise Unsupported("ordering of dtypes")
        if a0.kind is None or b0.kind is None or "str" in (a0.kind, b0.kind) and a0.kind == b0.kind:
            # object vs str dtype of string columns (and unknown kinds) is not modelled: arbitrary outcome -- one outcome
            # per kind pair and path (the model's values do not depend on it: astype(str) of a string column is the
            # identity there), so that a function building several tables does not fork at every constructor
            gk = "dtype_eq:%s:%s" % tuple(sorted((str(a0.kind), str(b0.kind))))
            r = st.ghost.get(gk)
            if r is None:
                r = fresh(B, "dtype_eq")
                st.ghost = dict(st.ghost)
                st.ghost[gk] = r
                used(ex, "object-vs-str dtype of string columns: arbitrary, the same for all tables of one path")
        else:
            r = a0.kind == b0.kind
        if op == "NotEq":
            return (not r) if isinstance(r, bool) else z3.Not(r)
        return r
    if isinstance(a0, Vec) or isinstance(b0, Vec):
        if (isinstance(a0, Vec) and a0.kind == "list") or (isinstance(b0, Vec) and b0.kind == "list"):
            raise Unsupported("comparison of symbolic lists")
        return vec_binop(ex, st, op, a0, b0, node)
    return scalar_compare(ex, st, op, a0, b0)


def unwrap_opt(ex, st, v, what="value"):
    """An optional value used where a number is needed: Python would raise TypeError on None, so None must be
    excluded here (obligation), then the payload is used."""
    if isinstance(v, OptV):
        ex.oblig("not_none", what, st, z3.Not(v.none))
        return v.val
    return v


def scalar_compare(ex, st, op, a, b):
    if isinstance(a, OptV) or isinstance(b, OptV):
        if op in ("Eq", "NotEq"):
            raise Unsupported("equality of optional value")
        a, b = unwrap_opt(ex, st, a, "compare"), unwrap_opt(ex, st, b, "compare")
    if op == "Eq":
        r = z3eq(a, b)
        return _simpb(r)
    if op == "NotEq":
        if isinstance(a, NF) or isinstance(b, NF):
            a, b = as_nf(a), as_nf(b)
            return z3.Or(a.null, b.null, a.val != b.val)
        return _simpb(z3.Not(z3eq(a, b)))
    if isinstance(a, NF) or isinstance(b, NF):
        a, b = as_nf(a), as_nf(b)
        r = scalar_compare(ex, st, op, a.val, b.val)
        return z3.And(z3.Not(a.null), z3.Not(b.null), _b(r))
    if isinstance(a, (tuple, ListV)) and isinstance(b, (tuple, ListV)):
        return lex_compare(ex, st, op, a, b)
    if is_conc(a) and is_conc(b):
        return {"Lt": a < b, "LtE": a <= b, "Gt": a > b, "GtE": a >= b}[op]
    if (isinstance(a, str) or (is_z3(a) and a.sort() == S)):
        za, zb = to_z3(a), to_z3(b)
        return {"Lt": za < zb, "LtE": za <= zb, "Gt": zb < za, "GtE": zb <= za}[op]
    if is_real(a) or is_real(b):
        za, zb = to_real(a), to_real(b)
    else:
        za, zb = to_z3(a), to_z3(b)
        if za.sort() == B:
            za = to_int(za)
        if zb.sort() == B:
            zb = to_int(zb)
        if za.sort() != zb.sort():
            za, zb = to_real(za), to_real(zb)
    return {"Lt": za < zb, "LtE": za <= zb, "Gt": za > zb, "GtE": za >= zb}[op]


def lex_compare(ex, st, op, a, b):
    ia = list(a.items) if isinstance(a, ListV) else list(a)
    ib = list(b.items) if isinstance(b, ListV) else list(b)
    if len(ia) != len(ib):
        raise Unsupported("lexicographic comparison of different lengths")
    strict = op in ("Lt", "Gt")
    lt = "Lt" if op in ("Lt", "LtE") else "Gt"
    res = z3.BoolVal(not strict)
    for x, y in reversed(list(zip(ia, ib))):
        res = z3.Or(_b(scalar_compare(ex, st, lt, x, y)), z3.And(_b(scalar_compare(ex, st, "Eq", x, y)), res))
    return res


def _simpb(r):
    r = z3.simplify(r)
    if z3.is_true(r):
        return True
    if z3.is_false(r):
        return False
    return r


def contains(ex, st, container, item):
    c = st.get(container)
    item = st.get(item)
    if isinstance(c, (ListV, tuple)):
        items = c.items if isinstance(c, ListV) else c
        parts = []
        for x in items:
            xv = st.get(x)
            if isinstance(xv, float) and xv != xv and not isinstance(item, float):
                continue          # NaN equals nothing (and a non-float item is not identical to it either)
            parts.append(z3eq(xv, item))
        return _simpb(z3.Or(parts)) if parts else False
    if isinstance(c, DictV):
        if is_conc(item):
            return item in c.d
        return _simpb(z3.Or([z3eq(k, item) for k in c.d]))
    if isinstance(c, str) and isinstance(item, str):
        return item in c
    if isinstance(c, str) or (is_z3(c) and c.sort() == S):
        return z3.Contains(to_z3(c), to_z3(item))
    if isinstance(c, Tab):
        if isinstance(item, str):
            return item in c.cols
        raise Unsupported("symbolic column membership")
    if isinstance(c, Obj):
        return obj_contains(ex, st, c, item)
    if isinstance(c, Vec):
        k = fresh(I, "k")
        used(ex, "membership in a sequence = exists an equal element")
        return z3.Exists([k], z3.And(0 <= k, k < to_z3(c.n), z3eq(c.at(k), item)))
    if isinstance(c, SetV):
        return c.member(item)
    raise Unsupported("`in` on %r" % (c,))


class SetV:
    """Abstract set given by a membership predicate."""

    def __init__(self, member):
        self.member = member


# =============================================================================== strings
def to_str(ex, st, v):
    v = st.get(v)
    if isinstance(v, str):
        return v
    if isinstance(v, bool):
        return str(v)
    if isinstance(v, int):
        return str(v)
    if is_z3(v):
        if v.sort() == S:
            return v
        if v.sort() == I:
            used(ex, "str(int) = SMT str.from_int for n >= 0, '-' ++ from_int(-n) otherwise")
            if ABSTRACT_CAT[0]:
                # abstract-text mode: the decimal text of an int is an uninterpreted function of the int
                r = ex.ctx.uf("istr", I, S)(v)
            else:
                r = z3.If(v >= 0, z3.IntToStr(v), z3.Concat(z3.StringVal("-"), z3.IntToStr(-v)))
            ex.ctx.__dict__.setdefault("int_strs", {})[r.get_id()] = (r, v)
            return r
        if v.sort() == R:
            used(ex, "str(float) / f'{float}': an uninterpreted function fstr of the real value (its digits are not modelled)")
            return ex.ctx.uf("fstr", R, S)(v)
    if isinstance(v, float) and v == v and abs(v) != float("inf"):
        return repr(v)
    raise Unsupported("str() of %r" % (v,))


def str_concat(items):
    if all(isinstance(x, str) for x in items):
        return "".join(items)
    out = []
    for x in items:
        if isinstance(x, str) and out and isinstance(out[-1], str):
            out[-1] += x
        else:
            out.append(x)
    out = [to_z3(x) for x in out if not (isinstance(x, str) and x == "")]
    if len(out) == 1:
        return out[0]
    if ABSTRACT_CAT[0]:
        # concatenation as an uninterpreted function of its flattened parts (a sound weakening of the string theory:
        # equal parts in equal order give equal text; nothing else is known).  Keeps text-building obligations in EUF.
        return _abstract_cat(out, 0)
    return z3.Concat(*out)


def _abstract_cat(parts, depth):
    flat = []
    for x in parts:
        if z3.is_app(x) and x.decl().name().startswith("cat!"):
            flat += list(x.children())
        else:
            flat.append(x)
    # a part that is a choice between literal texts (or between already-built texts) is lifted outward, so that
    # literal neighbours can be joined:  "<" ++ ite(c, "DEL", "DUP") ++ ">"  =  ite(c, "<DEL>", "<DUP>")
    if depth < 6:
        for i, x in enumerate(flat):
            if z3.is_app_of(x, z3.Z3_OP_ITE) and x.sort() == S:
                c, a, b = x.children()
                return z3.If(c, _abstract_cat(flat[:i] + [a] + flat[i + 1:], depth + 1),
                             _abstract_cat(flat[:i] + [b] + flat[i + 1:], depth + 1))
    merged = []
    for x in flat:
        if merged and z3.is_string_value(x) and z3.is_string_value(merged[-1]):
            merged[-1] = z3.StringVal(merged[-1].as_string() + x.as_string())
        else:
            merged.append(x)
    if len(merged) == 1:
        return merged[0]
    f = z3.Function("cat!%d" % len(merged), *([S] * len(merged) + [S]))
    return f(*merged)


ABSTRACT_CAT = [False]


def str_percent(ex, st, fmt, args):
    used(ex, "'%' string formatting yields an opaque string (only used in log messages)")
    return fresh(S, "fmt")


# =============================================================================== vectors
def vec_map(ex, st, v, f, kind=None, keep_idx=True):
    nv = Vec(v.n, lambda k, v=v, f=f: f(v.at(k)), idx=v.idx if keep_idx else None,
             kind=kind or (v.kind if v.kind != "index" else "array"))
    return st.alloc(nv)


def same_index(ex, st, a, b, node=None):
    if a.idx is None or b.idx is None:
        return  # numpy operand: positional (pandas uses positions for ndarray operands)
    if a.idx is b.idx:
        return
    if isinstance(a.idx, RangeIdx) and isinstance(b.idx, RangeIdx):
        # equal lengths are checked by len_eq
        return
    raise Unsupported("binary operation between Series with different index tokens (label alignment)")


_CMP = {"Eq", "NotEq", "Lt", "LtE", "Gt", "GtE"}


def vec_binop(ex, st, op, a, b, node=None):
    line = getattr(node, "lineno", None)

    def f(x, y):
        if op in _CMP:
            return _b(scalar_compare(ex, st, op, x, y))
        return scalar_binop(ex, st, op, x, y, None)
    if isinstance(a, Vec) and isinstance(b, Vec):
        same_index(ex, st, a, b, node)
        if not (isinstance(a.n, int) and isinstance(b.n, int) and a.n == b.n) and a.n is not b.n:
            ex.oblig("len_eq", "L%s" % line, st, to_z3(a.n) == to_z3(b.n), line=line)
        idx = a.idx if a.idx is not None else b.idx
        kind = "series" if "series" in (a.kind, b.kind) else "array"
        return st.alloc(Vec(a.n, lambda k: f(a.at(k), b.at(k)), idx=idx, kind=kind))
    if isinstance(a, Vec):
        if isinstance(b, (ListV, tuple, Tab, Seq)):
            raise Unsupported("array op with sequence operand")
        return st.alloc(Vec(a.n, lambda k: f(a.at(k), b), idx=a.idx, kind=a.kind if a.kind != "index" else "array"))
    if isinstance(a, (ListV, tuple, Tab, Seq)):
        raise Unsupported("array op with sequence operand")
    return st.alloc(Vec(b.n, lambda k: f(a, b.at(k)), idx=b.idx, kind=b.kind if b.kind != "index" else "array"))


def norm_index(n, i):
    """Python negative index -> non-negative."""
    if isinstance(i, int):
        if i < 0:
            return n + i
        return i
    return i


def bounds(ex, st, n, i, node, what="index"):
    line = getattr(node, "lineno", None)
    if isinstance(i, int) and isinstance(n, int):
        if not (0 <= i < n):
            ex.oblig("index_bounds", "L%s" % line, st, z3.BoolVal(False), line=line)
        return
    inb = z3.And(to_z3(i) >= 0, to_z3(i) < to_z3(n))
    ex.oblig("index_bounds", "L%s" % line, st, inb, line=line)
    if not ex.spec_depth and not ex.assume_mode:
        st.assume(inb)      # execution continues past the access only if it was in bounds (and the obligation demands it)


def slice_bounds(n, sl):
    """Python slice clamping for step 1: returns (lo, length)."""
    if sl.step not in (None, 1):
        raise Unsupported("slice step")

    def clamp(x, default):
        if x is None:
            return default
        if isinstance(x, int) and isinstance(n, int):
            if x < 0:
                x += n
            return max(0, min(n, x))
        if isinstance(x, int):
            if x < 0:
                y = to_z3(n) + x
                return z3.If(y < 0, 0, y)
            if x == 0:
                return 0
            return z3.If(to_z3(n) < x, to_z3(n), z3.IntVal(x))
        x = to_int(x)
        y = z3.If(x < 0, x + to_z3(n), x)
        return z3.If(y < 0, 0, z3.If(y > to_z3(n), to_z3(n), y))
    lo = clamp(sl.lo, 0)
    hi = clamp(sl.hi, n)
    if isinstance(lo, int) and isinstance(hi, int):
        return lo, max(0, hi - lo)
    ln = to_z3(hi) - to_z3(lo)
    return lo, z3.If(ln < 0, 0, ln)


def vec_slice(v, sl, keep=True):
    if sl.step == -1 and sl.lo is None and sl.hi is None:
        # v[::-1]: the same elements in reverse order
        if v.idx is not None:
            raise Unsupported("[::-1] of a Series")
        n = v.n
        inv = None
        if v.perm is not None:
            inv = lambda val, p=v.perm, n=n: to_z3(n) - 1 - to_z3(p(val))
        return Vec(n, lambda k, n=n: v.at(to_z3(n) - 1 - to_z3(k)), elt=v.elt, kind=v.kind, perm=inv)
    lo, ln = slice_bounds(v.n, sl)
    if isinstance(lo, int) and lo == 0:
        at = v.at
    else:
        at = lambda k, lo=lo: v.at((k + lo) if isinstance(k, int) and isinstance(lo, int) else to_z3(k) + to_z3(lo))
    idx = None
    if v.idx is not None:
        idx = SubIdx(v.idx, lo)
    return Vec(ln, at, idx=idx, elt=v.elt, kind=v.kind)


class SubIdx(Idx):
    """Index token of a positional sub-range of another index (labels shifted)."""

    def __init__(self, parent, lo):
        labels = None
        if parent.labels is not None:
            labels = lambda k, p=parent, lo=lo: p.labels(to_z3(k) + to_z3(lo))
        Idx.__init__(self, "sub", labels=labels, unique=parent.unique)
        self.parent, self.lo = parent, lo


def compress(ex, st, n, mask_at, hint="sel"):
    """Order-preserving selection by a boolean mask: returns (m, sel) with
    sel strictly increasing onto {k<n | mask k}.  Assumed library contract (boolean-mask selection)."""
    used(ex, "boolean-mask selection keeps exactly the True positions, in order")
    ck = "cmp:%d" % id(mask_at)
    hit = st.ghost.get(ck)
    if hit is not None and hit[3] is mask_at and hit[4] is n:
        # the same mask object selected again on this path: the same enumeration of its True positions
        compress.last_rank = hit[2]
        return hit[0], hit[1]
    # the same mask written twice (two evaluations of `~is_anti`) enumerates the same positions: one selection per mask
    # term (canonical in the position variable) and path
    ck2 = None
    try:
        k0 = z3.Const("canon!k", I)
        t0 = _b(mask_at(k0))
        if is_z3(t0) and not BINDERS and not os.environ.get("PYVC_NO_CK2"):
            ck2 = "cmpk:%s|%s" % (z3.simplify(t0).sexpr(), to_z3(n).sexpr())
            hit = st.ghost.get(ck2)
            if hit is not None:
                compress.last_rank = hit[2]
                return hit[0], hit[1]
    except Unsupported:
        ck2 = None
    m = fresh(I, hint + "_m")
    sel = z3.Function(fresh_name(hint), I, I)
    rank = z3.Function(fresh_name(hint + "_rank"), I, I)
    j, j2, k = fresh(I, "j"), fresh(I, "j2"), fresh(I, "k")
    st.assume(m >= 0)
    st.assume(m <= to_z3(n))
    st.assume(z3.ForAll([j], z3.Implies(z3.And(0 <= j, j < m),
                                        z3.And(0 <= sel(j), sel(j) < to_z3(n), _b(mask_at(sel(j))), rank(sel(j)) == j))))
    st.assume(z3.ForAll([j, j2], z3.Implies(z3.And(0 <= j, j < j2, j2 < m), sel(j) < sel(j2))))
    st.assume(z3.ForAll([k], z3.Implies(z3.And(0 <= k, k < to_z3(n), _b(mask_at(k))),
                                        z3.And(0 <= rank(k), rank(k) < m, sel(rank(k)) == k))))
    compress.last_rank = rank
    st.ghost = dict(st.ghost)
    st.ghost[ck] = (m, sel, rank, mask_at, n)
    if ck2 is not None:
        st.ghost[ck2] = (m, sel, rank)
    return m, sel


# =============================================================================== attribute / item access
METHODS = {}   # (valueclass, name) -> function(ex, st, self, args, kwargs, node)


def method(cls, *names):
    def deco(fn):
        for n in names:
            METHODS[(cls, n)] = fn
        return fn
    return deco


def bound(fn, selfv):
    return Func("method", lambda ex, st, args, kwargs, node, fn=fn, selfv=selfv: fn(ex, st, selfv, args, kwargs, node))


def get_attr(ex, st, o, attr, node=None):
    v = st.get(o)
    if isinstance(v, OpaqueVecApp):
        o = st.alloc(opaque_elems(ex, v))       # attributes/methods of an opaque function result: those of its elements
        v = st.get(o)
    if isinstance(v, Module):
        return [(st, module_attr(ex, st, v, attr))]
    if isinstance(v, Rec):
        if attr in v.f:
            return [(st, v.f[attr])]
        if attr == "_fields":
            return [(st, tuple(v.f))]
        if attr == "_replace":
            return [(st, bound(rec_replace, v))]
        if attr == "copy":
            return [(st, bound(lambda ex, st, s, a, k, n: s, v))]       # rows are immutable values: a copy is the row itself
        if attr == "_asdict":
            return [(st, bound(lambda ex, st, s, a, k, n: st.alloc(DictV(s.f)), v))]
        raise Unsupported("row attribute " + attr)
    if isinstance(v, Obj):
        return obj_attr(ex, st, o, v, attr, node)
    if isinstance(v, SuperProxy):
        cname = v.cls if isinstance(v.cls, str) else getattr(v.cls, "name", v.cls)
        fnode, ci, m = find_method(ex, cname, attr, skip=1)
        if fnode is None or not isinstance(fnode, ast.FunctionDef):
            raise Unsupported("super().%s" % attr)
        if fnode.decorator_list:
            raise Unsupported("super() to a decorated method")
        return [(st, Func("repo", "%s::%s.%s" % (m.rel, ci.name, attr), bound=v.selfref))]
    if isinstance(v, ClassV):
        return class_attr(ex, st, v, attr)
    if isinstance(v, Func) and v.kind == "builtin" and ("%s.%s" % (v.target, attr)) in BUILTINS:
        return [(st, Func("builtin", "%s.%s" % (v.target, attr)))]       # e.g. pd.DataFrame.from_records
    if isinstance(v, Func) and v.kind == "builtin" and v.target == "pandas.Series" and (Vec, attr) in METHODS:
        # unbound method of Series (pd.Series.median passed around as an estimator): first argument is the receiver
        m = METHODS[(Vec, attr)]
        return [(st, Func("method", lambda ex, st, args, kwargs, node, m=m: m(ex, st, args[0], list(args[1:]), kwargs, node)))]
    for cls in type(v).__mro__:
        if (cls, attr) in METHODS:
            return [(st, bound(METHODS[(cls, attr)], o))]
    if isinstance(v, Tab):
        if attr in v.cols:
            return [(st, st.alloc(v.col(attr)))]
        r = tab_attr(ex, st, o, v, attr, node)
        if r is not None:
            return r
    if isinstance(v, Vec):
        r = vec_attr(ex, st, o, v, attr, node)
        if r is not None:
            return r
    if isinstance(v, str) or (is_z3(v) and v.sort() == S) or is_atom(v):
        if ("str", attr) in METHODS:
            return [(st, bound(METHODS[("str", attr)], v))]
    if isinstance(v, SliceV):
        if attr in ("start", "stop"):
            return [(st, v.lo if attr == "start" else v.hi)]
    raise Unsupported("attribute .%s of %r" % (attr, v))


def rec_replace(ex, st, r, args, kwargs, node):
    f = dict(r.f)
    for k, v in kwargs.items():
        if k not in f:
            raise Unsupported("_replace of unknown field")
        f[k] = v
    return Rec(f, r.name)


def get_item(ex, st, o, i, node=None):
    if isinstance(st.get(o), OpaqueVecApp):
        o = st.alloc(opaque_elems(ex, st.get(o)))        # elements of an opaque function result
    v = st.get(o)
    i0 = st.get(i) if isinstance(i, Ref) else i
    if isinstance(v, (ListV, tuple)):
        items = v.items if isinstance(v, ListV) else v
        if isinstance(i0, int):
            if not (-len(items) <= i0 < len(items)):
                ex.oblig("index_bounds", "L%s" % getattr(node, "lineno", "?"), st, z3.BoolVal(False))
                return [(st, None)]
            return [(st, items[i0])]
        if isinstance(i0, SliceV) and all(isinstance(x, (int, type(None))) for x in (i0.lo, i0.hi, i0.step)):
            r = items[slice(i0.lo, i0.hi, i0.step)]
            return [(st, tuple(r) if isinstance(v, tuple) else st.alloc(ListV(r)))]
        if is_z3(i0):
            bounds(ex, st, len(items), i0, node)
            return [(st, _pick(items, i0))]
        raise Unsupported("list index %r" % (i0,))
    if isinstance(v, DictV):
        if is_conc(i0):
            if i0 not in v.d:
                raise Unsupported("KeyError %r" % (i0,))
            return [(st, v.d[i0])]
        # symbolic key over a finite dict: must be one of the keys
        keys = list(v.d)
        ex.oblig("key_present", "L%s" % getattr(node, "lineno", "?"), st, z3.Or([z3eq(k, i0) for k in keys]))
        val = v.d[keys[-1]]
        for k in reversed(keys[:-1]):
            val = merge_val(z3eq(k, i0), v.d[k], val)
        return [(st, val)]
    if isinstance(v, Rec):
        if isinstance(i0, str):
            return [(st, v.f[i0])]
        if isinstance(i0, int):
            return [(st, list(v.f.values())[i0])]
        if isinstance(i0, SliceV) and all(isinstance(x, (int, type(None))) for x in (i0.lo, i0.hi, i0.step)):
            return [(st, tuple(list(v.f.values())[slice(i0.lo, i0.hi, i0.step)]))]
    if isinstance(v, Vec):
        return vec_getitem(ex, st, o, v, i0, node)
    if isinstance(v, Tab):
        return tab_getitem(ex, st, o, v, i0, node)
    if isinstance(v, Seq):
        if isinstance(i0, int) or is_z3(i0):
            j = norm_index(v.n, i0)
            bounds(ex, st, v.n, j, node)
            return [(st, v.at(j))]
    if isinstance(v, Obj):
        return obj_getitem(ex, st, o, v, i, node)
    if isinstance(v, Indexer):
        return v.get(ex, st, i0, node)
    if isinstance(v, str) and isinstance(i0, int):
        return [(st, v[i0])]
    if isinstance(v, str) and isinstance(i0, SliceV):
        return [(st, v[slice(i0.lo, i0.hi, i0.step)])]
    if is_z3(v) and v.sort() == S:
        return [(st, str_index(ex, st, v, i0, node))]
    if isinstance(v, Func) and v.kind == "builtin" and v.target == "numpy.r_":
        return [(st, np_r_(ex, st, i0))]
    if type(v).__name__ == "GroupBy":
        return [(st, type(v)(v.tabref, v.keys, i0))]      # groupby(...)[columns]
    raise Unsupported("subscript of %r with %r" % (v, i0))


def str_index(ex, st, s, i, node):
    n = z3.Length(s)
    if isinstance(i, SliceV):
        if i.step is not None:
            raise Unsupported("string slice step")
        lo, ln = slice_bounds(n, i)
        return z3.SubString(s, to_z3(lo), to_z3(ln))
    j = norm_index(n, i)
    bounds(ex, st, n, j, node)
    return z3.SubString(s, to_z3(j), 1)


class Indexer:
    """.iat / .iloc / .loc / .at accessor objects."""

    def __init__(self, kind, ref):
        self.kind, self.ref = kind, ref

    def get(self, ex, st, i, node):
        v = st.get(self.ref)
        if isinstance(v, Vec):
            if self.kind in ("iat", "iloc"):
                if isinstance(i, SliceV):
                    return [(st, st.alloc(vec_slice(v, i)))]
                j = norm_index(v.n, i)
                bounds(ex, st, v.n, j, node)
                return [(st, v.at(j))]
            if self.kind in ("loc", "at"):
                return series_loc(ex, st, self.ref, v, i, node)
        if isinstance(v, Tab):
            return tab_indexer_get(ex, st, self, v, i, node)
        raise Unsupported("indexer %s on %r" % (self.kind, v))

    def set(self, ex, st, i, val, node):
        v = st.get(self.ref)
        if isinstance(v, Tab):
            return tab_indexer_set(ex, st, self, v, i, val, node)
        if isinstance(v, Vec):
            if self.kind in ("iat", "iloc") and not isinstance(i, (SliceV, tuple)):
                if getattr(self.ref, "_detached", False):
                    # pandas copy-on-write: writing into a column object obtained by attribute/getitem
                    # access does NOT write through to the parent frame
                    pass
                j = norm_index(v.n, i)
                bounds(ex, st, v.n, j, node)
                st.put(self.ref, v.with_(at=lambda k, v=v, j=j, val=val: merge_val(to_z3(k) == to_z3(j), val, v.at(k))))
                return [st]
        raise Unsupported("indexer store %s" % self.kind)


def set_item(ex, st, o, i, val, node=None):
    v = st.get(o)
    i0 = st.get(i) if isinstance(i, Ref) else i
    if isinstance(v, Indexer):
        return v.set(ex, st, i0, val, node)
    if not isinstance(o, Ref):
        raise Unsupported("store into a non-heap value %r" % (v,))
    if isinstance(v, DictV):
        if not is_conc(i0):
            raise Unsupported("dict store with symbolic key")
        d = dict(v.d)
        d[i0] = val
        st.put(o, DictV(d))
        return [st]
    if isinstance(v, ListV):
        if isinstance(i0, int):
            items = list(v.items)
            items[i0] = val
            st.put(o, ListV(items))
            return [st]
        raise Unsupported("list store with symbolic index")
    if isinstance(v, Vec):
        return vec_setitem(ex, st, o, v, i0, val, node)
    if isinstance(v, Tab):
        return tab_setitem(ex, st, o, v, i0, val, node)
    if isinstance(v, Obj):
        return obj_setitem(ex, st, o, v, i, val, node)
    raise Unsupported("subscript store on %r" % (v,))


def set_attr(ex, st, o, attr, val, node=None):
    v = st.get(o)
    if isinstance(v, Obj):
        return obj_setattr(ex, st, o, v, attr, val, node)
    if isinstance(v, Tab) and attr == "columns":
        # df.columns = [names]: positional renaming of all columns
        names = st.get(val)
        names = [st.get(x) for x in (names.items if isinstance(names, ListV) else names)]
        if len(names) != len(v.cols) or not all(isinstance(x, str) for x in names) or len(set(names)) != len(names):
            raise Unsupported("df.columns = <not a list of as many distinct names>")
        olds = list(v.cols)
        st.put(o, Tab(v.n, {nn: v.cols[oo] for nn, oo in zip(names, olds)}, v.idx,
                      {nn: v.elts.get(oo) for nn, oo in zip(names, olds)}))
        return [st]
    if isinstance(v, Tab):
        # df.col = series
        return tab_setitem(ex, st, o, v, attr, val, node)
    raise Unsupported("attribute store .%s on %r" % (attr, v))


# =============================================================================== special forms (spec language)
def _lam(ex, st, lam, nargs):
    if not isinstance(lam, ast.Lambda) or len(lam.args.args) != nargs:
        raise SpecError("binder needs a lambda with %d argument(s)" % nargs)
    return [a.arg for a in lam.args.args]


def _quant(ex, st, e, kind):
    # forall(lo, hi, lambda k: body)   |  forall(lambda x: body)  (unbounded Int)
    args = e.args
    if len(args) == 3:
        lo = ex.ev1(args[0], st)
        hi = ex.ev1(args[1], st)
        lam = args[2]
    elif len(args) == 1:
        lo = hi = None
        lam = args[0]
    else:
        raise SpecError("forall/exists(lo, hi, lambda k: ...)")
    names = _lam(ex, st, lam, len(lam.args.args))
    if lo is not None and isinstance(lo, int) and isinstance(hi, int) and hi - lo <= 8 and len(names) == 1 \
            and ex.ctx.bounded is not None:
        parts = []
        for kv in range(lo, hi):
            s2 = st.fork()
            s2.env[names[0]] = kv
            parts.append(_b(ex.truth(ex.ev1(lam.body, s2), s2)))
            st.heap.update({a: v for a, v in s2.heap.items() if a not in st.heap})
            for f in s2.pc[len(st.pc):]:
                st.pc.append(f)
        if not parts:
            return [(st, kind == "forall")]
        return [(st, z3.And(parts) if kind == "forall" else z3.Or(parts))]
    ks = [fresh(I, n) for n in names]
    s2 = st.fork()
    for n, k in zip(names, ks):
        s2.env[n] = k
    stack = ex.__dict__.setdefault("quant_states", [])
    stack.append(s2)       # facts produced while lazily evaluated closures run at the bound variable belong in here
    try:
        with binding(*ks):
            body = _b(ex.truth(ex.ev1(lam.body, s2), s2))
    finally:
        stack.pop()
    st.heap.update({a: v for a, v in s2.heap.items() if a not in st.heap})
    extra = s2.pc[len(st.pc):]
    if extra:
        # definitional facts introduced while evaluating the body mention the bound variable;
        # keep them inside the quantifier as hypotheses
        body = z3.Implies(z3.And(extra), body) if kind == "forall" else z3.And(z3.And(extra), body)
    if lo is not None:
        rng = z3.And([z3.And(to_z3(lo) <= k, k < to_z3(hi)) for k in ks])
        body = z3.Implies(rng, body) if kind == "forall" else z3.And(rng, body)
    eager = False
    try:
        c0 = ex.frames[0].contract if ex.frames else None
        eager = bool(c0 and c0.ghost.get("eager_triggers"))
    except Exception:
        eager = False
    if kind == "forall" and lo is not None and eager:
        # opt-in: every small uninterpreted application of the bound variables is a trigger of its own (the default
        # picks a minimal set, which can leave a chain of stepping-stone clauses without any matching ground term)
        pats = _uf_patterns(body, ks, limit=8)
        if pats:
            return [(st, z3.ForAll(ks, body, patterns=pats))]
    if kind == "forall" and lo is None:
        pats = _uf_patterns(body, ks)
        if pats:
            # unbounded integer quantifier: trigger on the uninterpreted applications that mention the variable
            return [(st, z3.ForAll(ks, body, patterns=pats))]
    return [(st, z3.ForAll(ks, body) if kind == "forall" else z3.Exists(ks, body))]


_PAT_OK_KINDS = (z3.Z3_OP_UNINTERPRETED, z3.Z3_OP_ADD, z3.Z3_OP_SUB, z3.Z3_OP_MUL, z3.Z3_OP_UMINUS, z3.Z3_OP_ANUM,
                 z3.Z3_OP_TO_REAL)


def _pattern_ok(t):
    """z3 accepts only terms built from function applications, variables and arithmetic as triggers (no ite/and/or/=)"""
    todo = [t]
    while todo:
        x = todo.pop()
        if z3.is_quantifier(x):
            return False
        if z3.is_app(x):
            if x.decl().kind() not in _PAT_OK_KINDS:
                return False
            todo += x.children()
    return True


def _uf_patterns(body, ks, limit=2):
    """Smallest applications of uninterpreted functions in `body` that contain every bound variable."""
    want = set(k.get_id() for k in ks)
    found = []
    seen = {}

    def vars_of(t):
        i = t.get_id()
        if i in seen:
            return seen[i]
        if z3.is_quantifier(t):
            r = (frozenset(), 10 ** 6)
        elif z3.is_const(t):
            r = (frozenset([i]) if i in want else frozenset(), 1)
        else:
            vs, sz = frozenset(), 1
            for ch in t.children():
                v2, s2 = vars_of(ch)
                vs, sz = vs | v2, sz + s2
            r = (vs, sz)
            if z3.is_app(t) and t.decl().kind() == z3.Z3_OP_UNINTERPRETED and t.num_args() > 0 and vs == want and sz < 40 \
                    and _pattern_ok(t):
                found.append((sz, t))
        seen[i] = r
        return r
    vars_of(body)
    found.sort(key=lambda p: p[0])
    out, ids = [], set()
    for sz, t in found:
        if t.get_id() not in ids:
            ids.add(t.get_id())
            out.append(t)
        if len(out) >= limit:
            break
    return out


@special("forall")
def sf_forall(ex, st, e):
    return _quant(ex, st, e, "forall")


@special("exists")
def sf_exists(ex, st, e):
    return _quant(ex, st, e, "exists")


@special("implies")
def sf_implies(ex, st, e):
    a = ex.truth(ex.ev1(e.args[0], st), st)
    if is_z3(a):
        a2 = z3.simplify(a)
        if z3.is_false(a2):
            a = False
        elif z3.is_true(a2):
            a = True
    if a is False:
        return [(st, True)]
    if a is True:
        return [(st, ex.truth(ex.ev1(e.args[1], st), st))]
    # evaluate the consequent under the antecedent (so that partial operations are guarded)
    s2 = st.fork()
    s2.assume(a)
    nobl = len(ex.ctx.obls)
    npc = len(s2.pc)
    b = ex.truth(ex.ev1(e.args[1], s2), s2)
    st.heap.update({k: v for k, v in s2.heap.items() if k not in st.heap})
    # definitional facts introduced while evaluating the consequent (prefix functions, selections) are kept, guarded
    for f in s2.pc[npc:]:
        st.pc.append(z3.Implies(a, f))
    # the registries of sums / functional values taken so far (only used to state congruence with later ones)
    for gk, gv in s2.ghost.items():
        if gk == "sums" or gk.startswith("vf:"):
            st.ghost[gk] = gv
    return [(st, z3.Implies(a, _b(b)))]


@special("use")
def sf_use(ex, st, e):
    """use("lemma", var=expr, ...): the named lemma instantiated at the given terms, as a formula
    (requires => ensures).  It is a proof hint: the lemma is proved separately (or listed as trusted),
    so `implies(use(...), goal)` is equivalent to `goal`."""
    from .engine import Frame
    name = ex.ev1(e.args[0], st)
    lm = dsl.LEMMAS.get(name)
    if lm is None:
        raise SpecError("unknown lemma %r" % (name,))
    env = {}
    for kw in e.keywords:
        env[kw.arg] = ex.ev1(kw.value, st)
    missing = [v for v in lm.vars if v not in env]
    if missing:
        raise SpecError("use(%s): variables %s not bound" % (name, missing))
    if lm.trusted:
        ex.ctx.used_trusted.add("lemma:" + name)
    else:
        ex.ctx.used_lemmas = getattr(ex.ctx, "used_lemmas", set()) | {name}
    if ex.assume_mode:
        return [(st, True)]
    s2 = st.fork()
    s2.env = dict(env)
    pre = [_b(ex.truth(ex.ev1(ex.spec_expr(r), s2), s2)) for r in lm.requires]
    post = [_b(ex.truth(ex.ev1(ex.spec_expr(t if isinstance(t, str) else t[1]), s2), s2)) for t in lm.ensures]
    st.heap.update({k: v for k, v in s2.heap.items() if k not in st.heap})
    return [(st, z3.Implies(z3.And(pre + [z3.BoolVal(True)]), z3.And(post + [z3.BoolVal(True)])))]


@special("Vec")
def sf_vec(ex, st, e):
    """Vec(n, lambda k: expr): the vector with those elements (spec language only)"""
    n = ex.ev1(e.args[0], st)
    lam = e.args[1]
    name = _lam(ex, st, lam, 1)[0]

    def at(k, st=st):
        s2 = st.fork()
        s2.env[name] = k
        ex.spec_depth += 1          # elements are evaluated lazily, possibly later: still a spec expression (no obligations)
        try:
            return ex.ev1(lam.body, s2)
        finally:
            ex.spec_depth -= 1
    return [(st, st.alloc(Vec(n, at, kind="array")))]


@special("old")
def sf_old(ex, st, e):
    old = st.ghost.get("__old__")
    if old is None:
        raise SpecError("old() outside a postcondition")
    g2 = dict(st.ghost)
    if "fs" in old.ghost:
        g2["fs"] = old.ghost["fs"]       # old(fs): the file system at entry
    s2 = State(env=st.env, pc=st.pc, heap=old.heap, ghost=g2)
    v = ex.ev1(e.args[0], s2)
    if isinstance(v, Ref):
        # keep pointing at the old snapshot: copy it into the current heap under a new address
        v = st.alloc(s2.get(v))
    return [(st, v)]


@special("ite")
def sf_ite(ex, st, e):
    c = ex.truth(ex.ev1(e.args[0], st), st)
    if isinstance(c, bool):
        return [(st, ex.ev1(e.args[1] if c else e.args[2], st))]
    a = ex.ev1(e.args[1], st)
    b = ex.ev1(e.args[2], st)
    return [(st, merge_val(c, st.get(a), st.get(b)))]


@special("let")
def sf_let(ex, st, e):
    # let(lambda a, b: body, va, vb)
    lam = e.args[0]
    names = [a.arg for a in lam.args.args]
    vals = [ex.ev1(a, st) for a in e.args[1:]]
    s2 = st.fork()
    for n, v in zip(names, vals):
        s2.env[n] = v
    r = ex.ev1(lam.body, s2)
    st.heap.update({k: v for k, v in s2.heap.items() if k not in st.heap})
    for f in s2.pc[len(st.pc):]:
        st.pc.append(f)
    return [(st, r)]


_SPEC_AST = {}


def spec_ast(fn):
    if fn in _SPEC_AST:
        return _SPEC_AST[fn]
    r = _spec_ast(fn)
    _SPEC_AST[fn] = r
    return r


def _spec_ast(fn):
    src = textwrap.dedent(inspect.getsource(fn))
    tree = ast.parse(src)
    node = tree.body[0]
    node.decorator_list = []
    return node, None


# =============================================================================== python builtins
@builtin("len")
def b_len(ex, st, args, kwargs, node):
    v = st.get(args[0])
    if isinstance(v, (ListV,)):
        return len(v.items)
    if isinstance(v, tuple):
        return len(v)
    if isinstance(v, DictV):
        return len(v.d)
    if isinstance(v, (Vec, Tab, Seq, IterV, OpaqueVecApp)):
        return v.n
    if isinstance(v, str):
        return len(v)
    if is_z3(v) and v.sort() == S:
        return z3.Length(v)
    if isinstance(v, Rec):
        return len(v.f)
    if isinstance(v, Obj):
        return obj_len(ex, st, args[0], v)
    if hasattr(v, "n") and type(v).__name__ in ("UniqueOf",):
        return v.n
    raise Unsupported("len of %r" % (v,))


@builtin("int")
def b_int(ex, st, args, kwargs, node):
    v = st.get(args[0])
    if isinstance(v, bool):
        return int(v)
    if isinstance(v, (int, float)):
        return int(v)
    if isinstance(v, str):
        return int(v)
    if isinstance(v, NF):
        # int(nan) raises ValueError: the value must be provably non-null here
        ex.oblig("not_nan", "L%s" % getattr(node, "lineno", "?"), st, z3.Not(v.null), line=getattr(node, "lineno", None))
        return trunc_real(v.val)
    if is_z3(v):
        if v.sort() == I:
            return v
        if v.sort() == B:
            return to_int(v)
        if v.sort() == R:
            return trunc_real(v)
        if v.sort() == S:
            used(ex, "int(str) = SMT str.to_int on digit strings")
            return z3.StrToInt(v)
    raise Unsupported("int of %r" % (v,))


@builtin("float")
def b_float(ex, st, args, kwargs, node):
    v = st.get(args[0])
    if isinstance(v, (int, float)) and not isinstance(v, bool):
        return float(v)
    if isinstance(v, NF):
        return v
    if is_z3(v) and v.sort() in (I, R):
        return to_real(v)
    raise Unsupported("float of %r" % (v,))


@builtin("bool")
def b_bool(ex, st, args, kwargs, node):
    return ex.truth(args[0], st)


@builtin("str")
def b_str(ex, st, args, kwargs, node):
    return to_str(ex, st, args[0])


@builtin("round")
def b_round(ex, st, args, kwargs, node):
    v = st.get(args[0])
    if len(args) > 1:
        raise Unsupported("round(x, ndigits)")
    if isinstance(v, (int, float)):
        return round(v)
    if is_z3(v) and v.sort() == I:
        return v
    if isinstance(v, NF):
        raise Unsupported("round() of a nullable float")
    return round_half_even(v)


@builtin("abs")
def b_abs(ex, st, args, kwargs, node):
    v = st.get(args[0])
    if isinstance(v, Vec):
        return vec_map(ex, st, v, lambda x: sc_abs(x))
    return sc_abs(v)


def sc_abs(v):
    if isinstance(v, (int, float)):
        return abs(v)
    if isinstance(v, NF):
        return NF(v.null, z3.If(v.val >= 0, v.val, -v.val))
    v = to_z3(v)
    return z3.If(v >= 0, v, -v)


def _minmax(ex, st, args, kwargs, node, is_max):
    if "key" in kwargs or "default" in kwargs:
        raise Unsupported("min/max with key/default")
    if len(args) == 1:
        v = st.get(args[0])
        if isinstance(v, (ListV, tuple)):
            items = [st.get(x) for x in (v.items if isinstance(v, ListV) else v)]
        elif isinstance(v, Vec):
            return vec_extreme(ex, st, v, is_max, node)
        else:
            raise Unsupported("min/max of %r" % (v,))
    else:
        items = [st.get(a) for a in args]
    if not items:
        raise Unsupported("min/max of empty sequence")
    r = items[0]
    for x in items[1:]:
        if is_conc(r) and is_conc(x):
            r = max(r, x) if is_max else min(r, x)
        else:
            c = scalar_compare(ex, st, "Gt" if is_max else "Lt", x, r)
            r = merge_val(_b(c), x, r)
    return r


@builtin("max")
def b_max(ex, st, args, kwargs, node):
    return _minmax(ex, st, args, kwargs, node, True)


@builtin("min")
def b_min(ex, st, args, kwargs, node):
    return _minmax(ex, st, args, kwargs, node, False)


@builtin("isinstance")
def b_isinstance(ex, st, args, kwargs, node):
    v = st.get(args[0])
    t = args[1]
    ts = t if isinstance(t, tuple) else (t,)
    res = False
    for x in ts:
        r = _isinst(ex, st, v, x)
        if r is None:
            raise Unsupported("isinstance(%r, %r)" % (v, x))
        res = res or r
    return res


def _tyname(x):
    if isinstance(x, Func) and x.kind == "builtin":
        return x.target
    if isinstance(x, ClassV):
        return "class:" + x.name
    if isinstance(x, ExtName):
        return x.name
    return None


def _isinst(ex, st, v, t):
    tn = _tyname(t)
    if tn is None:
        return None
    if isinstance(v, OptV):
        raise Unsupported("isinstance on optional element")
    if tn == "str" or tn == "numpy.string_" or tn == "numpy.str_":
        return isinstance(v, str) or (is_z3(v) and (v.sort() == S or v.sort().kind() == z3.Z3_UNINTERPRETED_SORT)) if tn == "str" else False
    if tn == "int":
        return (isinstance(v, int)) or (is_z3(v) and v.sort() in (I, B)) if not isinstance(v, NF) else False
    if tn in ("float", "numpy.float64", "numpy.floating"):
        return isinstance(v, (float, NF)) or (is_z3(v) and v.sort() == R)
    if tn == "bool":
        return isinstance(v, bool) or (is_z3(v) and v.sort() == B)
    if tn == "tuple":
        return isinstance(v, tuple)
    if tn == "list":
        return isinstance(v, ListV) or (isinstance(v, Vec) and v.kind == "list")
    if tn == "dict":
        return isinstance(v, DictV)
    if tn == "slice":
        return isinstance(v, SliceV)
    if tn == "type(None)":
        return v is None
    if tn == "pandas.Series":
        return isinstance(v, Vec) and v.kind == "series"
    if tn == "pandas.DataFrame":
        return isinstance(v, Tab)
    if tn == "numpy.ndarray":
        return isinstance(v, Vec) and v.kind == "array"
    if tn.startswith("class:"):
        if isinstance(v, Obj):
            return class_is_sub(ex, v.cls, tn[6:])
        return False
    return None


@builtin("type")
def b_type(ex, st, args, kwargs, node):
    v = st.get(args[0])
    if v is None:
        return Func("builtin", "type(None)")
    raise Unsupported("type()")


@builtin("range")
def b_range(ex, st, args, kwargs, node):
    a = [st.get(x) for x in args]
    if len(a) == 1:
        lo, hi = 0, a[0]
    elif len(a) == 2:
        lo, hi = a
    else:
        raise Unsupported("range with step")
    if isinstance(lo, int) and isinstance(hi, int):
        return tuple(range(lo, hi))
    n = to_z3(hi) - to_z3(lo)
    n = z3.If(n < 0, 0, n)
    return IterV(n, lambda k, lo=lo: (k + lo) if isinstance(k, int) and isinstance(lo, int) else to_z3(k) + to_z3(lo))


@builtin("enumerate")
def b_enumerate(ex, st, args, kwargs, node):
    start = st.get(args[1]) if len(args) > 1 else kwargs.get("start", 0)
    N, elem = ex.iter_desc(args[0], st)
    if isinstance(N, int) and isinstance(start, int):
        return tuple((i + start, elem(i)) for i in range(N))
    return IterV(N, lambda k: ((k + start) if isinstance(k, int) and isinstance(start, int) else to_z3(k) + to_z3(start), elem(k)))


@builtin("zip")
def b_zip(ex, st, args, kwargs, node):
    ds = [ex.iter_desc(a, st) for a in args]
    ns = [d[0] for d in ds]
    if all(isinstance(n, int) for n in ns):
        n = min(ns)
        return tuple(tuple(d[1](i) for d in ds) for i in range(n))
    n = ns[0]
    for m in ns[1:]:
        if m is n:
            continue
        n = z3.If(to_z3(m) < to_z3(n), to_z3(m), to_z3(n))
    n = z3.simplify(n) if is_z3(n) else n
    return IterV(n, lambda k: tuple(d[1](k) for d in ds))


@builtin("list", "tuple")
def b_list(ex, st, args, kwargs, node):
    is_tuple = isinstance(node, ast.Call) and ast.unparse(node.func) == "tuple"
    if not args:
        return () if is_tuple else st.alloc(ListV([]))
    v = st.get(args[0])
    if isinstance(v, (ListV, tuple)):
        items = v.items if isinstance(v, ListV) else v
        return tuple(items) if is_tuple else st.alloc(ListV(items))
    if isinstance(v, DictV):
        return tuple(v.d) if is_tuple else st.alloc(ListV(list(v.d)))
    N, elem = ex.iter_desc(v, st)
    if isinstance(N, int):
        items = [elem(i) for i in range(N)]
        return tuple(items) if is_tuple else st.alloc(ListV(items))
    probe = elem(z3.IntVal(0))
    if isinstance(probe, (Rec, tuple, Vec, Tab, SliceV)):
        return Seq(N, elem)
    return st.alloc(Vec(N, elem, kind="list"))


@builtin("dict")
def b_dict(ex, st, args, kwargs, node):
    d = {}
    if args:
        v = st.get(args[0])
        if isinstance(v, DictV):
            d.update(v.d)
        elif v is None:
            pass
        else:
            raise Unsupported("dict(%r)" % (v,))
    d.update(kwargs)
    return st.alloc(DictV(d))


@builtin("any", "all")
def b_anyall(ex, st, args, kwargs, node):
    is_all = ast.unparse(node.func) == "all"
    v = st.get(args[0])
    if isinstance(v, (ListV, tuple)):
        ts = [ex.truth(x, st) for x in (v.items if isinstance(v, ListV) else v)]
        if all(isinstance(t, bool) for t in ts):
            return all(ts) if is_all else any(ts)
        return (z3.And if is_all else z3.Or)([_b(t) for t in ts])
    N, elem = ex.iter_desc(v, st)
    k = fresh(I, "k")
    body = _b(ex.truth(elem(k), st))
    rng = z3.And(0 <= k, k < to_z3(N))
    return z3.ForAll([k], z3.Implies(rng, body)) if is_all else z3.Exists([k], z3.And(rng, body))


@builtin("sum")
def b_sum(ex, st, args, kwargs, node):
    v = st.get(args[0])
    if isinstance(v, (ListV, tuple)):
        items = v.items if isinstance(v, ListV) else v
        r = 0
        for x in items:
            r = scalar_binop(ex, st, "Add", r, st.get(x))
        return r
    mc = getattr(v, "masked_const", None)
    if mc is not None:
        # sum(c for x in xs if cond(x)) = sum over all positions of (c if cond else 0)
        N0, cond_at, cval = mc
        return vec_sum(ex, st, Vec(N0, lambda k: z3.If(_b(cond_at(k)), z3.IntVal(cval), z3.IntVal(0))))
    N, elem = ex.iter_desc(v, st)
    return vec_sum(ex, st, Vec(N, elem))


@builtin("countif")
def sp_countif(ex, st, args, kwargs, node):
    """countif(v, lambda x: cond): number of elements of v satisfying cond (spec language) = sum of indicators"""
    v = st.get(args[0])
    f = st.get(args[1])
    N, elem = ex.iter_desc(v, st)

    def ind(k):
        outs = ex.call(f, [elem(k)], {}, st)
        if len(outs) != 1:
            raise SpecError("countif predicate forks")
        return z3.If(_b(ex.truth(outs[0][1], st)), z3.IntVal(1), z3.IntVal(0))
    return vec_sum(ex, st, Vec(N, ind))


@builtin("slice")
def b_slice(ex, st, args, kwargs, node):
    a = [st.get(x) for x in args]
    if len(a) == 1:
        return SliceV(None, a[0])
    if len(a) == 2:
        return SliceV(a[0], a[1])
    return SliceV(a[0], a[1], a[2])


@builtin("callable")
def b_callable(ex, st, args, kwargs, node):
    return isinstance(st.get(args[0]), (Func, ClassV))


@builtin("getattr")
def b_getattr(ex, st, args, kwargs, node):
    name = st.get(args[1])
    if not isinstance(name, str):
        raise Unsupported("getattr with a symbolic name")
    return get_attr(ex, st, args[0], name, node)


@builtin("hasattr")
def b_hasattr(ex, st, args, kwargs, node):
    raise Unsupported("hasattr")


@builtin("sorted")
def b_sorted(ex, st, args, kwargs, node):
    v = st.get(args[0])
    if isinstance(v, (ListV, tuple)) and all(is_conc(x) for x in (v.items if isinstance(v, ListV) else v)):
        return st.alloc(ListV(sorted(v.items if isinstance(v, ListV) else v)))
    if isinstance(v, Vec) and len(args) == 1 and not kwargs:
        probe = v.at(z3.IntVal(0))
        if is_z3(to_z3(probe)) and not isinstance(probe, NF) and to_z3(probe).sort() in (I, R):
            # sorted(numbers): the same numbers in non-decreasing order; of an already ordered sequence, the sequence itself
            used(ex, "sorted(numbers) = a non-decreasing rearrangement (every element kept); an ordered sequence is returned as it is")
            n = to_z3(v.n)
            Rf = z3.Function(fresh_name("sorted"), I, to_z3(probe).sort())
            src, dst = z3.Function(fresh_name("sorted_from"), I, I), z3.Function(fresh_name("sorted_to"), I, I)
            a, b, k = fresh(I, "a"), fresh(I, "b"), fresh(I, "k")
            with binding(a, k):
                va1, vk, vsrc, vdst = to_z3(v.at(a + 1)), to_z3(v.at(k)), to_z3(v.at(src(k))), to_z3(v.at(a))
            inr = z3.And(0 <= k, k < n)
            st.assume(z3.ForAll([a, b], z3.Implies(z3.And(0 <= a, a <= b, b < n), Rf(a) <= Rf(b))))
            st.assume(z3.ForAll([k], z3.Implies(inr, z3.And(0 <= src(k), src(k) < n, Rf(k) == vsrc)), patterns=[Rf(k)]))
            st.assume(z3.ForAll([k], z3.Implies(inr, z3.And(0 <= dst(k), dst(k) < n, Rf(dst(k)) == vk)), patterns=[dst(k)]))
            ordered = z3.ForAll([a], z3.Implies(z3.And(0 <= a, a + 1 < n), vdst <= va1))
            st.assume(z3.Implies(ordered, z3.ForAll([k], z3.Implies(inr, Rf(k) == vk))))
            return st.alloc(Vec(v.n, lambda j: Rf(to_z3(j)), elt=v.elt, kind="list"))
    raise Unsupported("sorted of symbolic sequence")


@builtin("set", "frozenset")
def b_set(ex, st, args, kwargs, node):
    if not args:
        return SetV(lambda x: False)
    v = st.get(args[0])
    if isinstance(v, (ListV, tuple)):
        items = [st.get(x) for x in (v.items if isinstance(v, ListV) else v)]
        return SetV(lambda x, items=items: _simpb(z3.Or([z3eq(i, x) for i in items])) if items else False)
    if isinstance(v, Vec):
        return SetV(lambda x, v=v: contains(ex, st, v, x))
    raise Unsupported("set(%r)" % (v,))


@builtin("print")
def b_print(ex, st, args, kwargs, node):
    return None


class IterState:
    """An iterator object: the underlying sequence and how many items were consumed (a concrete count)."""

    def __init__(self, n, at, pos=0):
        self.n, self.at, self.pos = n, at, pos


@builtin("next")
def b_next(ex, st, args, kwargs, node):
    if len(args) != 1:
        raise Unsupported("next() with a default")
    v = st.get(args[0])
    if isinstance(v, IterState) and not isinstance(v.pos, int):
        raise Unsupported("next() on an iterator that a for-loop consumed")
    if isinstance(v, IterState) and isinstance(args[0], Ref):
        # StopIteration must be impossible here (obligation), then the item at the cursor; the cursor moves on
        bounds(ex, st, v.n, v.pos, node)
        item = v.at(v.pos)
        st.put(args[0], IterState(v.n, v.at, v.pos + 1))
        return item
    raise Unsupported("next() on something that is not an iterator created by iter()")


@builtin("iter")
def b_iter(ex, st, args, kwargs, node):
    v = st.get(args[0])
    if isinstance(v, IterState):
        return args[0]
    n, at = ex.iter_desc(args[0], st)
    return st.alloc(IterState(n, at, 0))


class ExtName:
    """Name imported from an external (non-repository) module."""

    def __init__(self, name):
        self.name = name

    def __repr__(self):
        return "Ext(%s)" % self.name


_EXT_ALIASES = {"np": "numpy", "pd": "pandas"}


def external_name(base, nm):
    full = "%s.%s" % (base, nm) if base else nm
    if full in BUILTINS:
        return Func("builtin", full)
    return Module(full)


def module_attr(ex, st, m, attr):
    rel = m.name
    if rel.endswith(".py"):
        mod = front_load(rel)
        return ex.lookup_global(mod, attr)
    full = "%s.%s" % (rel, attr)
    if full in BUILTINS:
        return Func("builtin", full)
    if full in CONSTANTS:
        return CONSTANTS[full]
    return Module(full)


CONSTANTS = {"numpy.nan": float("nan"), "numpy.inf": float("inf"), "math.inf": float("inf"), "math.pi": 3.141592653589793,
             "sys.float_info.epsilon": 2.220446049250313e-16}


def front_load(rel):
    from . import front
    return front.load(rel)


from .lib_np import *      # noqa  (numpy / pandas models)
from .lib_obj import *     # noqa  (repository classes, with/try, comprehensions)


@builtin("fstr")
def sp_fstr(ex, st, args, kwargs, node):
    """fstr(x): the text Python prints for the float x (spec language; uninterpreted)"""
    return to_str(ex, st, to_real(st.get(args[0])))


@builtin("uf_int")
def sp_uf_int(ex, st, args, kwargs, node):
    """uf_int('name', a, ...): application of the uninterpreted function name: Int^n -> Int (spec language; used for
    ghost witnesses in assumed contracts, e.g. the position of a yielded row in its source table)"""
    name = st.get(args[0])
    if not isinstance(name, str):
        raise SpecError("uf_int needs a literal name")
    zs = [to_z3(st.get(a)) for a in args[1:]]
    f = ex.ctx.uf("ghost_" + name, *([I] * len(zs) + [I]))
    return f(*zs)


@builtin("uf_bool")
def sp_uf_bool(ex, st, args, kwargs, node):
    """uf_bool('name', a, ...): an uninterpreted predicate over Ints (spec language).  Writing a clause as
    `forall x: mark(x) and P(x) -> Q(x)` for an uninterpreted `mark` says the same as without it (it must hold for
    every interpretation, the always-true one included) and gives the quantifier a term to be instantiated on."""
    name = st.get(args[0])
    if not isinstance(name, str):
        raise SpecError("uf_bool needs a literal name")
    zs = [to_z3(st.get(a)) for a in args[1:]]
    f = ex.ctx.uf("ghost_" + name, *([I] * len(zs) + [B]))
    return f(*zs)


@builtin("map")
def b_map(ex, st, args, kwargs, node):
    """map(f, xs): lazily, f of each element (f must return one value without raising)"""
    if len(args) != 2 or kwargs:
        raise Unsupported("map with several iterables")
    f = args[0]
    n, elem = ex.iter_desc(args[1], st)

    def at(k, st=st):
        outs = [(s2, x) for s2, x in ex.call(f, [elem(k)], {}, st.fork(), node)]
        if len(outs) != 1 or outs[0][0].ctl:
            raise Unsupported("map: the function forks or raises")
        s2, x = outs[0]
        # facts about this element's value (a callee's postcondition) go to the state of the quantifier that is being
        # built around the element, if any (they mention its bound variable), else to the creating state
        qs = ex.__dict__.get("quant_states") or []
        tgt = qs[-1] if qs else st
        tgt.heap.update({a: v for a, v in s2.heap.items() if a not in tgt.heap})
        for fact in s2.pc[len(st.pc):]:
            tgt.pc.append(fact)
        return x
    return IterV(n, at)       # not memoised: a value computed for one bound variable must not be reused for another

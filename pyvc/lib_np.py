"""numpy / pandas models (assumed library contracts; each use is recorded)."""
import ast

import z3

from .values import *   # noqa
from .lib import *      # noqa
from .lib import _simpb, _CMP
from .engine import _b, _pick, OptV, IterV, sort_of
from . import front
from contracts import dsl


# =============================================================================== reductions
def _outer_binders(terms):
    """the enclosing binder constants (see values.binding) that occur in the given terms"""
    names = set()
    for t in terms:
        if is_z3(t):
            names |= free_consts(t)
    return [b for b in BINDERS if b.decl().name() in names]


def vec_prefix(ex, st, v, op, hint, sink=None):
    """Fresh prefix function P with P(0)=init, P(k+1)=op(P(k), v[k]) for 0<=k<n (definitional).  When the vector's terms
    depend on constants that an enclosing quantifier is about to bind, P takes them as extra arguments and its
    definition is quantified over them.  Returns (Pf, params) with Pf(j) the application."""
    probe = v.at(z3.IntVal(0))
    if isinstance(probe, NF):
        raise Unsupported("scan over nullable values")
    so = to_z3(probe).sort()
    if so == B:
        so = I
    k = fresh(I, "k")
    with binding(k):
        elem = v.at(k)
    if to_z3(elem).sort() == B:
        elem = to_int(elem)
    params = _outer_binders([to_z3(elem), to_z3(v.n)])
    canon = None
    if sink is not None:
        # vectors with the same element and length terms (up to the names of the binders) get the same prefix function:
        # one definition, literally equal sums, no congruence reasoning needed
        subs = [(k, z3.Const("canon!k", I))] + [(p, z3.Const("canon!p%d" % i, p.sort())) for i, p in enumerate(params)]
        canon = (hint, z3.substitute(to_z3(elem), *subs).sexpr(), z3.substitute(to_z3(v.n), *subs).sexpr(),
                 tuple(str(p.sort()) for p in params), str(so))
        cache = ex.__dict__.setdefault("_prefix_canon", {})
        if canon in cache:
            P = cache[canon]
            return (lambda j, P=P, params=params: P(*(list(params) + [to_z3(j)]))), params
    P = z3.Function(fresh_name(hint), *([p.sort() for p in params] + [I, so]))

    def Pf(j, P=P, params=params):
        return P(*(list(params) + [to_z3(j)]))
    body = z3.Implies(z3.And(0 <= k, k < to_z3(v.n)), Pf(k + 1) == op(Pf(k), elem))
    f1 = _close(params, body, extra=[k])
    (sink if sink is not None else st.assume)(f1)
    if canon is not None:
        ex.__dict__["_prefix_canon"][canon] = P
        ex.__dict__.setdefault("_prefix_canon_new", set()).add(id(P))
    return Pf, params


def global_fact(ex, f):
    """A fact that holds in every state (the definition of a fresh function symbol, an instance of a proved lemma, a
    congruence): kept per Exec and added to the hypotheses of every obligation generated afterwards.  Needed because
    vector element closures are evaluated lazily, possibly while a formula for another state is being built."""
    if is_z3(f):
        key = alpha_key(f)
        seen = ex.__dict__.setdefault("_gf_keys", set())
        if key in seen:
            return              # the same fact up to the names of its bound variables
        seen.add(key)
    ex.__dict__.setdefault("global_facts", []).append(f)


def alpha_key(t, _memo={}):
    """Structural key of a term that ignores the names of bound variables (z3 keeps them in quantifiers)."""
    i = t.get_id()
    hit = _memo.get(i)
    if hit is not None and hit[0].eq(t):
        return hit[1]
    if z3.is_quantifier(t):
        k = ("Q", t.is_forall(), tuple(str(t.var_sort(j)) for j in range(t.num_vars())), alpha_key(t.body()))
    elif z3.is_var(t):
        k = ("v", z3.get_var_index(t), str(t.sort()))
    elif z3.is_app(t):
        if t.num_args() == 0:
            k = ("c", t.sexpr())
        else:
            k = ("a", t.decl().name(), t.decl().kind(), tuple(alpha_key(c) for c in t.children()))
    else:
        k = ("x", t.sexpr())
    k = hash(k)
    _memo[i] = (t, k)
    return k


def _close(params, f, extra=()):
    """f closed over the binder constants `params` (and the plain bound variables `extra`).  The binders are renamed:
    a loop index is a binder while the loop body runs (a sum computed there is a function of it) and stays a free
    constant of the path condition, so the bound copy gets its own name."""
    if not params:
        return z3.ForAll(list(extra), f) if extra else f
    ren = [(p, z3.Const(p.decl().name() + "_b", p.sort())) for p in params]
    return z3.ForAll([b for _a, b in ren] + list(extra), z3.substitute(f, *ren))


def prefix_sum_fn(ex, st, v):
    """The prefix-sum function of vector object v: one function symbol per vector object and Exec; its recursive
    definition is conservative and recorded as a global fact.  Returns (Pf, params)."""
    cache = ex.__dict__.setdefault("_psum_cache", {})
    hit = cache.get(id(v.at))
    if hit is None or hit[1] is not v.at or hit[2] is not v.n or any(not any(b.eq(x) for x in BINDERS) for b in hit[3]):
        Pf, params = vec_prefix(ex, st, v, lambda a, b: a + b, "psum", sink=lambda f: global_fact(ex, f))
        global_fact(ex, _close(params, Pf(0) == 0))
        hit = (Pf, v.at, v.n, params)
        cache[id(v.at)] = hit
    return hit[0], hit[3]


def vec_sum(ex, st, v):
    used(ex, "sum() = recursive prefix sum over positions (exact arithmetic)")
    if isinstance(v.n, int) and v.n <= 6:
        r = 0
        for i in range(v.n):
            r = scalar_binop(ex, st, "Add", r, v.at(i))
        return r
    sums = ex.__dict__.setdefault("_sums", {})
    hit = sums.get(id(v.at))
    if hit is not None and hit[1] is v.at and hit[2] is v.n and all(any(b.eq(x) for x in BINDERS) for b in hit[3]):
        return hit[0]          # the same vector object summed again
    Pf, params = prefix_sum_fn(ex, st, v)
    nz = to_z3(v.n)
    total = Pf(nz)
    # sign facts of a sum of non-negative terms (library lemmas psum_nonneg / psum_pos, proved by induction in
    # contracts/lemmas.py; used here instantiated at this vector)
    kk, jj = fresh(I, "k"), fresh(I, "j")
    with binding(kk, jj):
        elem = to_z3(v.at(kk))
        elj = to_z3(v.at(jj))
    if elem.sort() == B:
        elem = to_int(elem)
    if elj.sort() == B:
        elj = to_int(elj)
    allnn = z3.ForAll([kk], z3.Implies(z3.And(0 <= kk, kk < nz), elem >= 0))
    somepos = z3.Exists([jj], z3.And(0 <= jj, jj < nz, elj > 0))
    allzero = z3.ForAll([kk], z3.Implies(z3.And(0 <= kk, kk < nz), elem == 0))
    global_fact(ex, _close(params, z3.Implies(allzero, total == 0)))
    global_fact(ex, _close(params, z3.Implies(allnn, total >= 0)))
    global_fact(ex, _close(params, z3.Implies(z3.And(allnn, somepos), total > 0)))
    used(ex, "sum of non-negative terms is non-negative, and positive if some term is (lemmas psum_nonneg, psum_pos)")
    # congruence with sums taken before: vectors of equal length that agree element by element have equal sums (stated
    # per pair, so that a spec-side vector and the code's own vector can be related); a sum defined under binders is
    # related for every value of them
    probe_sort = total.sort()
    order = ex.__dict__.setdefault("_sum_order", [])
    cands = [e for e in order if e[0].sort() == probe_sort and
             ((not params and not e[2] and to_z3(e[1].n).eq(nz)) or params or e[2])][-10:]
    for (t2, v2, p2) in cands:
        k = fresh(I, "k")
        try:
            # (the earlier vector's elements are evaluated again here: its own binders must be in force, so that anything
            # defined on the way -- a nested sum -- depends on them explicitly)
            with binding(*([x for x in p2 if not any(x.eq(y) for y in BINDERS)] + [k])):
                same = z3.And(to_z3(v2.n) == nz,
                              z3.ForAll([k], z3.Implies(z3.And(0 <= k, k < nz), to_z3(v.at(k)) == to_z3(v2.at(k)))))
        except Exception:
            continue
        allp = list(params) + [x for x in p2 if not any(x.eq(y) for y in params)]
        global_fact(ex, _close(allp, z3.Implies(same, total == t2)))
    order.append((total, v, list(params)))
    sums[id(v.at)] = (total, v.at, v.n, list(params))
    return total


def vec_extreme(ex, st, v, is_max, node=None):
    """max/min of a non-empty vector: an element that bounds all others."""
    used(ex, "max()/min() of a vector = an element that bounds every element")
    if isinstance(v.n, int):
        if v.n == 0:
            raise Unsupported("max of empty")
        r = v.at(0)
        for i in range(1, v.n):
            x = v.at(i)
            r = merge_val(_b(scalar_compare(ex, st, "Gt" if is_max else "Lt", x, r)), x, r)
        return r
    line = getattr(node, "lineno", None)
    ex.oblig("nonempty", "L%s" % line, st, to_z3(v.n) > 0, line=line)
    probe = v.at(z3.IntVal(0))
    if isinstance(probe, NF):
        raise Unsupported("max of nullable")
    m = fresh(to_z3(probe).sort(), "ext")
    w = fresh(I, "argext")
    k = fresh(I, "k")
    st.assume(z3.And(0 <= w, w < to_z3(v.n), to_z3(v.at(w)) == m))
    st.assume(z3.ForAll([k], z3.Implies(z3.And(0 <= k, k < to_z3(v.n)),
                                        (to_z3(v.at(k)) <= m) if is_max else (to_z3(v.at(k)) >= m))))
    return m


# =============================================================================== Vec access
def vec_getitem(ex, st, o, v, i, node):
    if isinstance(i, SliceV):
        if v.kind == "series" and not isinstance(v.idx, RangeIdx) and not (i.lo is None and i.hi is None):
            pass  # Series[slice] with ints is positional in pandas for slices
        return [(st, st.alloc(vec_slice(v, i)))]
    iv = st.get(i) if isinstance(i, Ref) else i
    if isinstance(iv, Vec):
        probe = iv.at(z3.IntVal(0))
        if (is_z3(probe) and probe.sort() == B) or isinstance(probe, bool):
            # boolean mask
            if not (iv.n is v.n):
                ex.oblig("len_eq", "L%s" % getattr(node, "lineno", "?"), st, to_z3(iv.n) == to_z3(v.n))
            if v.idx is not None and iv.idx is not None:
                same_index(ex, st, v, iv, node)
            m, sel = compress(ex, st, iv.n, iv.at)    # the mask's own length (len_eq checked above): same mask object -> same enumeration
            idx = None
            if v.idx is not None:
                idx = Idx("masked", labels=(lambda k, p=v.idx, sel=sel: p.labels(sel(to_z3(k)))) if v.idx.labels else None,
                          unique=v.idx.unique)
                idx.sel = sel
            return [(st, st.alloc(Vec(m, lambda k, sel=sel: v.at(sel(to_z3(k))), idx=idx, elt=v.elt, kind=v.kind)))]
        # integer fancy index: positions for arrays, labels for Series
        if v.kind == "series" and not isinstance(v.idx, RangeIdx):
            return series_loc(ex, st, o, v, iv, node)
        used(ex, "integer-array indexing takes the listed positions in order")
        k = fresh(I, "k")
        ex.oblig("index_bounds", "L%s" % getattr(node, "lineno", "?"), st,
                 z3.ForAll([k], z3.Implies(z3.And(0 <= k, k < to_z3(iv.n)),
                                           z3.And(0 <= to_z3(iv.at(k)), to_z3(iv.at(k)) < to_z3(v.n)))))
        return [(st, st.alloc(Vec(iv.n, lambda k: v.at(to_z3(iv.at(k))), elt=v.elt, kind=v.kind)))]
    if isinstance(iv, int) or (is_z3(iv) and iv.sort() == I):
        if not ex.spec_depth:       # in spec expressions v[k] is positional
            if v.kind == "series" and not isinstance(v.idx, RangeIdx):
                raise Unsupported("Series[int] by label on a non-range index")
            if v.kind == "series" and isinstance(iv, int) and iv < 0:
                raise Unsupported("Series[-k] is a label lookup")
        j = norm_index(v.n, iv)
        bounds(ex, st, v.n, j, node)
        return [(st, v.at(j))]
    raise Unsupported("vector index %r" % (iv,))


def series_loc(ex, st, o, v, i, node):
    """Label-based selection on a Series."""
    if isinstance(v.idx, RangeIdx) or v.idx is None:
        if isinstance(i, (int,)) or (is_z3(i) and i.sort() == I):
            bounds(ex, st, v.n, i, node)
            return [(st, v.at(i))]
    if isinstance(i, Vec) and i.kind in ("index", "array"):
        src = getattr(i, "idx", None)
        # labels taken from (a positional slice of) this very index -> positional selection
        lab = getattr(i, "labels_of", None)
        if lab is not None and lab[0] is v.idx:
            lo = lab[1]
            return [(st, st.alloc(Vec(i.n, lambda k, lo=lo: v.at(to_z3(k) + to_z3(lo)), idx=SubIdx(v.idx, lo), elt=v.elt, kind="series")))]
    raise Unsupported("label-based selection")


def vec_setitem(ex, st, o, v, i, val, node):
    if v.ro:
        raise Unsupported("store through a read-only view")
    val0 = st.get(val)
    if isinstance(i, SliceV):
        lo, ln = slice_bounds(v.n, i)
        if isinstance(val0, Vec):
            ex.oblig("len_eq", "L%s" % getattr(node, "lineno", "?"), st, to_z3(val0.n) == to_z3(ln))
            newat = lambda k: merge_val(z3.And(to_z3(k) >= to_z3(lo), to_z3(k) < to_z3(lo) + to_z3(ln)),
                                        val0.at(to_z3(k) - to_z3(lo)), v.at(k))
        else:
            cv = coerce_elem(v, val0)
            newat = lambda k: merge_val(z3.And(to_z3(k) >= to_z3(lo), to_z3(k) < to_z3(lo) + to_z3(ln)), cv, v.at(k))
        st.put(o, v.with_(at=newat))
        return [st]
    iv = st.get(i) if isinstance(i, Ref) else i
    if isinstance(iv, Vec):
        probe = iv.at(z3.IntVal(0))
        if (is_z3(probe) and probe.sort() == B) or isinstance(probe, bool):
            used(ex, "masked assignment writes exactly the True positions")
            if not (iv.n is v.n):
                ex.oblig("len_eq", "L%s" % getattr(node, "lineno", "?"), st, to_z3(iv.n) == to_z3(v.n))
            if v.idx is not None and iv.idx is not None:
                same_index(ex, st, v, iv, node)
            if isinstance(val0, Vec):
                if v.kind != "array":
                    raise Unsupported("masked assignment of a vector into a Series (aligned by label)")
                # ndarray[mask] = values: values[r] goes to the r-th True position (positional, the values' own index is ignored)
                used(ex, "array[mask] = values writes values[r] to the r-th True position")
                m, _sel = compress(ex, st, iv.n, iv.at)
                rank = compress.last_rank
                ex.oblig("len_eq", "L%s" % getattr(node, "lineno", "?"), st, to_z3(val0.n) == to_z3(m))
                st.put(o, v.with_(at=lambda k, v=v, val0=val0, iv=iv, rank=rank:
                                  merge_val(_b(iv.at(k)), coerce_elem(v, val0.at(rank(to_z3(k)))), v.at(k))))
                return [st]
            cv = coerce_elem(v, val0)
            st.put(o, v.with_(at=lambda k: merge_val(_b(iv.at(k)), cv, v.at(k))))
            return [st]
        if iv.nz is not None and isinstance(val0, Vec) and (v.kind == "array" or isinstance(v.idx, RangeIdx)):
            # x[np.nonzero(mask)[0]] = values: value number r goes to the r-th True position, everything else stays
            used(ex, "x[np.nonzero(mask)[0]] = values writes values[r] to the r-th True position")
            mask_at, rank, n_mask = iv.nz
            ex.oblig("len_eq", "L%s" % getattr(node, "lineno", "?"), st,
                     z3.And(to_z3(val0.n) == to_z3(iv.n), to_z3(n_mask) == to_z3(v.n)))
            st.put(o, v.with_(at=lambda k, v=v, val0=val0, mask_at=mask_at, rank=rank:
                              merge_val(_b(mask_at(k)), coerce_elem(v, val0.at(rank(k))), v.at(k))))
            return [st]
        raise Unsupported("fancy-index store")
    if isinstance(iv, int) or (is_z3(iv) and iv.sort() == I):
        if v.kind == "series" and not isinstance(v.idx, RangeIdx):
            raise Unsupported("Series[int] = v on a non-range index")
        j = norm_index(v.n, iv)
        bounds(ex, st, v.n, j, node)
        cv = coerce_elem(v, val0)
        if isinstance(j, int) and isinstance(v.n, int):
            st.put(o, v.with_(at=lambda k, j=j: cv if (isinstance(k, int) and k == j) else merge_val(to_z3(k) == j, cv, v.at(k))))
        else:
            st.put(o, v.with_(at=lambda k, j=j: merge_val(to_z3(k) == to_z3(j), cv, v.at(k))))
        return [st]
    raise Unsupported("vector store index %r" % (iv,))


def coerce_elem(v, x):
    """Value stored into an array takes the array's dtype (float arrays: ints become reals)."""
    probe = v.at(z3.IntVal(0))
    if isinstance(probe, NF):
        return as_nf(x)
    if isinstance(x, NF):
        if is_z3(probe) and probe.sort() == R or isinstance(probe, float):
            # storing NaN into a float array makes the array nullable; only allowed when already nullable
            raise Unsupported("storing NaN into a non-nullable float vector (declare it NReal)")
        return x
    if (is_z3(probe) and probe.sort() == R) or isinstance(probe, float):
        return to_real(x)
    if (is_z3(probe) and probe.sort() == B) or isinstance(probe, bool):
        if isinstance(x, (int, bool)):
            return bool(x)
        return x
    return x


def vec_attr(ex, st, o, v, attr, node):
    if attr == "values":
        return [(st, st.alloc(v.with_(idx=None, ro=True, kind="array")))]
    if attr in ("iat", "iloc", "loc", "at"):
        return [(st, Indexer(attr, o))]
    if attr == "index":
        if v.idx is None:
            raise Unsupported(".index of an array")
        iv = Vec(v.n, v.idx.labels if v.idx.labels else (lambda k: (_ for _ in ()).throw(Unsupported("opaque index labels"))),
                 kind="index")
        r = st.alloc(iv)
        return [(st, r)]
    if attr == "size":
        return [(st, v.n)]
    if attr == "empty":
        return [(st, _simpb(to_z3(v.n) == 0))]
    if attr == "is_monotonic_increasing":
        used(ex, "is_monotonic_increasing = non-decreasing")
        a = fresh(I, "a")
        return [(st, z3.ForAll([a], z3.Implies(z3.And(0 <= a, a + 1 < to_z3(v.n)),
                                               _b(scalar_compare(ex, st, "LtE", v.at(a), v.at(a + 1))))))]
    if attr == "is_unique":
        a, b = fresh(I, "a"), fresh(I, "b")
        with binding(a, b):
            body = z3.Implies(z3.And(0 <= a, a < b, b < to_z3(v.n)), z3.Not(z3eq(v.at(a), v.at(b))))
        return [(st, z3.ForAll([a, b], body))]
    if attr == "str":
        return [(st, StrAcc(o))]
    if attr == "dtype":
        return [(st, DTypeV(vec_dkind(v)))]
    return None


class DTypeV:
    """numpy/pandas dtype, known only by kind: 'str' | 'int' | 'float' | 'bool' | None (unknown)."""

    def __init__(self, kind):
        self.kind = kind

    def __repr__(self):
        return "DType(%s)" % self.kind


def vec_dkind(v):
    t = v.elt
    if isinstance(t, (dsl.Atom, dsl._Str)):
        return "str"
    if isinstance(t, dsl._Int):
        return "int"
    if isinstance(t, (dsl._Real, dsl._NReal)):
        return "float"
    if isinstance(t, dsl._Bool):
        return "bool"
    try:
        probe = v.at(z3.IntVal(0))
    except Unsupported:
        return None
    if isinstance(probe, (NF, float)):
        return "float"
    if isinstance(probe, bool):
        return "bool"
    if isinstance(probe, int):
        return "int"
    if isinstance(probe, str) or is_atom(probe):
        return "str"
    if is_z3(probe):
        return {I: "int", R: "float", B: "bool", S: "str"}.get(probe.sort())
    return None


class StrAcc:
    def __init__(self, ref):
        self.ref = ref


def vm(*names):
    return method(Vec, *names)


@vm("copy")
def v_copy(ex, st, o, args, kwargs, node):
    v = st.get(o)
    return st.alloc(v.with_(ro=False))


@vm("sum")
def v_sum(ex, st, o, args, kwargs, node):
    v = st.get(o)
    probe = v.at(z3.IntVal(0))
    if isinstance(probe, NF):
        if v.kind == "series":
            used(ex, "Series.sum() skips NaN")
            v = Vec(v.n, lambda k: z3.If(v.at(k).null, z3.RealVal(0), v.at(k).val))
        else:
            raise Unsupported("ndarray.sum() with NaN")
    return vec_sum(ex, st, v)


@vm("all", "any")
def v_all(ex, st, o, args, kwargs, node):
    v = st.get(o)
    is_all = node.func.attr == "all"
    k = fresh(I, "k")
    body = _b(ex.truth(v.at(k), st))
    rng = z3.And(0 <= k, k < to_z3(v.n))
    if isinstance(v.n, int) and v.n <= 8:
        ts = [_b(ex.truth(v.at(i), st)) for i in range(v.n)]
        return _simpb((z3.And if is_all else z3.Or)(ts)) if ts else is_all
    return z3.ForAll([k], z3.Implies(rng, body)) if is_all else z3.Exists([k], z3.And(rng, body))


@vm("max", "min")
def v_max(ex, st, o, args, kwargs, node):
    return vec_extreme(ex, st, st.get(o), node.func.attr == "max", node)


@vm("abs")
def v_abs(ex, st, o, args, kwargs, node):
    return vec_map(ex, st, st.get(o), sc_abs)


@vm("round")
def v_round(ex, st, o, args, kwargs, node):
    if args or kwargs:
        raise Unsupported("round(decimals)")
    used(ex, "numpy/pandas round() = nearest, ties to even; result stays float")

    def f(x):
        if isinstance(x, NF):
            return NF(x.null, z3.ToReal(round_half_even(x.val)))
        if is_z3(x) and x.sort() == I or isinstance(x, int):
            return x
        return z3.ToReal(round_half_even(x))
    return vec_map(ex, st, st.get(o), f)


@vm("astype")
def v_astype(ex, st, o, args, kwargs, node):
    t = st.get(args[0])
    v = st.get(o)
    tn = t if isinstance(t, str) else (t.target if isinstance(t, Func) else None)
    if tn in ("int", "numpy.int_", "numpy.int64"):
        used(ex, "astype(int) truncates toward zero")

        probe = v.at(z3.IntVal(0))
        if isinstance(probe, NF):
            # NaN -> int raises in numpy/pandas: every element must be provably non-null
            k = fresh(I, "k")
            ex.oblig("not_nan", "L%s" % getattr(node, "lineno", "?"), st,
                     z3.ForAll([k], z3.Implies(z3.And(0 <= k, k < to_z3(v.n)), z3.Not(as_nf(v.at(k)).null))),
                     line=getattr(node, "lineno", None))

        def f(x):
            if isinstance(x, NF):
                return trunc_real(x.val)
            if (is_z3(x) and x.sort() == R) or isinstance(x, float):
                return trunc_real(x)
            if (is_z3(x) and x.sort() == B) or isinstance(x, bool):
                return to_int(x)
            return x
        return vec_map(ex, st, v, f)
    if tn in ("float", "numpy.float64", "numpy.float_"):
        return vec_map(ex, st, v, lambda x: x if isinstance(x, NF) else to_real(x))
    if tn in ("bool", "numpy.bool_"):
        return vec_map(ex, st, v, lambda x: _b(ex.truth(x, st)))
    if tn == "str":
        return vec_map(ex, st, v, lambda x: x if (is_z3(x) and x.sort() != I and x.sort() != R) or isinstance(x, str) else to_str(ex, st, x))
    raise Unsupported("astype(%r)" % (tn,))


@vm("fillna")
def v_fillna(ex, st, o, args, kwargs, node):
    fill = st.get(args[0])
    used(ex, "fillna replaces exactly the null entries")

    def f(x):
        if isinstance(x, NF):
            return z3.If(x.null, to_real(fill), x.val)
        return x
    return vec_map(ex, st, st.get(o), f)


@vm("isnull", "isna")
def v_isnull(ex, st, o, args, kwargs, node):
    return vec_map(ex, st, st.get(o), lambda x: x.null if isinstance(x, NF) else z3.BoolVal(False))


@vm("notnull", "notna")
def v_notnull(ex, st, o, args, kwargs, node):
    return vec_map(ex, st, st.get(o), lambda x: z3.Not(x.null) if isinstance(x, NF) else z3.BoolVal(True))


@vm("clip")
def v_clip(ex, st, o, args, kwargs, node):
    lo = st.get(args[0]) if len(args) > 0 else st.get(kwargs.get("lower", kwargs.get("a_min")))
    hi = st.get(args[1]) if len(args) > 1 else st.get(kwargs.get("upper", kwargs.get("a_max")))
    v = st.get(o)
    used(ex, "clip(lo, hi) = min(max(x, lo), hi) elementwise; NaN stays NaN")
    for b in (lo, hi):
        if isinstance(b, Vec):
            if v.idx is not None and b.idx is not None:
                same_index(ex, st, v, b, node)
            if b.n is not v.n:
                ex.oblig("len_eq", "L%s" % getattr(node, "lineno", "?"), st, to_z3(b.n) == to_z3(v.n))

    def at(k):
        x = v.at(k)
        l = lo.at(k) if isinstance(lo, Vec) else lo
        h = hi.at(k) if isinstance(hi, Vec) else hi
        return clip_scalar(ex, st, x, l, h)
    return st.alloc(Vec(v.n, at, idx=v.idx, kind=v.kind))


def clip_scalar(ex, st, x, l, h):
    if isinstance(x, NF):
        if isinstance(l, NF) or isinstance(h, NF):
            raise Unsupported("clip with nullable bounds")
        return NF(x.null, clip_scalar(ex, st, x.val, l, h))
    r = x
    if l is not None:
        r = merge_val(_b(scalar_compare(ex, st, "Lt", r, l)), _num_like(l, r), r)
    if h is not None:
        r = merge_val(_b(scalar_compare(ex, st, "Gt", r, h)), _num_like(h, r), r)
    return r


def _num_like(b, r):
    if is_real(r) and not is_real(b):
        return to_real(b)
    return b


@vm("cumsum")
def v_cumsum(ex, st, o, args, kwargs, node):
    v = st.get(o)
    used(ex, "cumsum()[k] = sum of the first k+1 elements")
    # the same prefix-sum function as sum()/psum() of this vector: cumsum()[-1] and sum() are then literally equal
    P, _params = prefix_sum_fn(ex, st, v)
    if _params:
        raise Unsupported("cumsum of a vector defined under a quantifier")
    # every prefix of a sum of non-negative terms is non-negative (lemma psum_nonneg, instantiated at this vector)
    kk, mm = fresh(I, "k"), fresh(I, "m")
    with binding(kk):
        e0 = to_z3(v.at(kk))
    if e0.sort() != B:
        allnn = z3.ForAll([kk], z3.Implies(z3.And(0 <= kk, kk < to_z3(v.n)), e0 >= 0))
        st.assume(z3.Implies(allnn, z3.ForAll([mm], z3.Implies(z3.And(0 <= mm, mm <= to_z3(v.n)), P(mm) >= 0))))
    return st.alloc(Vec(v.n, lambda k: P(to_z3(k) + 1), idx=v.idx, kind=v.kind))


@vm("argsort")
def v_argsort(ex, st, o, args, kwargs, node):
    v = st.get(o)
    if v.kind == "series" or args or kwargs:
        raise Unsupported("argsort: plain ndarray.argsort() only")
    if v.perm is not None:
        # the values are 0..n-1, each once: the only sorting order is the inverse permutation
        used(ex, "argsort of a permutation of 0..n-1 = its inverse permutation")
        return st.alloc(Vec(v.n, lambda j, inv=v.perm: inv(to_z3(j)), kind="array", perm=v.at))
    probe = v.at(z3.IntVal(0))
    if isinstance(probe, NF) or not is_z3(to_z3(probe)) or to_z3(probe).sort() == B:
        raise Unsupported("argsort of a nullable / boolean vector")
    used(ex, "ndarray.argsort() = a permutation of the positions that lists the values in non-decreasing order "
             "(no stability assumed)")
    n = to_z3(v.n)
    P, Q = z3.Function(fresh_name("argsort"), I, I), z3.Function(fresh_name("argsort_inv"), I, I)
    k, a, b = fresh(I, "k"), fresh(I, "a"), fresh(I, "b")
    inr = z3.And(0 <= k, k < n)
    st.assume(z3.ForAll([k], z3.Implies(inr, z3.And(0 <= P(k), P(k) < n, Q(P(k)) == k)), patterns=[P(k)]))
    st.assume(z3.ForAll([k], z3.Implies(inr, z3.And(0 <= Q(k), Q(k) < n, P(Q(k)) == k)), patterns=[Q(k)]))
    with binding(a, b):
        st.assume(z3.ForAll([a, b], z3.Implies(z3.And(0 <= a, a <= b, b < n), to_z3(v.at(P(a))) <= to_z3(v.at(P(b))))))
    return st.alloc(Vec(v.n, lambda j: P(to_z3(j)), kind="array", perm=lambda val: Q(to_z3(val))))


@vm("argmax")
def v_argmax(ex, st, o, args, kwargs, node):
    v = st.get(o)
    if v.kind == "series" or args or kwargs:
        raise Unsupported("argmax: plain ndarray.argmax() only")
    probe = v.at(z3.IntVal(0))
    if isinstance(probe, NF):
        raise Unsupported("argmax of a nullable vector")
    used(ex, "ndarray.argmax() = the first position holding the maximum (True > False for boolean arrays)")
    line = getattr(node, "lineno", None)
    n = to_z3(v.n)
    ex.oblig("nonempty", "L%s" % line, st, n > 0, line=line)
    w, k = fresh(I, "argmax"), fresh(I, "k")
    st.assume(z3.And(0 <= w, w < n))
    with binding(k):
        e = to_z3(v.at(k))
    ew = to_z3(v.at(w))
    inr = z3.And(0 <= k, k < n)
    if e.sort() == B:
        body = z3.Implies(inr, z3.And(z3.Implies(e, ew), z3.Implies(k < w, z3.Not(e))))
        st.assume(z3.Implies(z3.Not(ew), w == 0))
    else:
        body = z3.Implies(inr, z3.And(e <= ew, z3.Implies(k < w, e < ew)))
    st.assume(z3.ForAll([k], body))
    # the same fact over absolute positions when the elements are those of a slice x[c + k] (a change of variable
    # k := k2 - c, so that the solver can instantiate it at a position of the underlying vector)
    off = _single_offset(e, k)
    if off is not None:
        k2 = fresh(I, "k")
        st.assume(z3.ForAll([k2], z3.simplify(z3.substitute(body, (k, k2 - off)), som=True)))
    return w


def _single_offset(e, k):
    """c if every occurrence of k in e is inside one and the same sum k + c (c free of k), else None"""
    found, bad, seen = [], [False], set()

    def mentions(t):
        return any(x.eq(k) for x in _subterms(t))

    def walk(t):
        if t.get_id() in seen:
            return
        seen.add(t.get_id())
        if t.eq(k):
            bad[0] = True
            return
        if z3.is_app(t) and t.decl().kind() == z3.Z3_OP_ADD and any(c.eq(k) for c in t.children()):
            rest = [c for c in t.children() if not c.eq(k)]
            if len(rest) + 1 != t.num_args() or any(mentions(c) for c in rest):
                bad[0] = True
                return
            c = rest[0] if len(rest) == 1 else z3.Sum(rest)
            if not any(c.eq(x) for x in found):
                found.append(c)
            return
        for c in t.children():
            walk(c)
    walk(e)
    if bad[0] or len(found) != 1:
        return None
    return found[0]


def _subterms(t, seen=None):
    seen = set() if seen is None else seen
    if t.get_id() in seen:
        return
    seen.add(t.get_id())
    yield t
    for c in t.children():
        for x in _subterms(c, seen):
            yield x


@vm("cummax")
def v_cummax(ex, st, o, args, kwargs, node):
    v = st.get(o)
    used(ex, "cummax()[k] = max of the first k+1 elements")
    probe = to_z3(v.at(z3.IntVal(0)))
    P = z3.Function(fresh_name("cummax"), I, probe.sort())
    k = fresh(I, "k")
    st.assume(z3.Implies(to_z3(v.n) > 0, P(0) == to_z3(v.at(0))))
    st.assume(z3.ForAll([k], z3.Implies(z3.And(0 <= k, k + 1 < to_z3(v.n)),
                                        P(k + 1) == z3.If(to_z3(v.at(k + 1)) > P(k), to_z3(v.at(k + 1)), P(k)))))
    return st.alloc(Vec(v.n, lambda k: P(to_z3(k)), idx=v.idx, kind=v.kind))


@vm("diff")
def v_diff(ex, st, o, args, kwargs, node):
    v = st.get(o)
    if v.kind != "series":
        raise Unsupported("np.diff as method")
    used(ex, "Series.diff()[0] is NaN, diff()[k] = x[k] - x[k-1]")

    def at(k):
        k = to_z3(k)
        a, b = as_nf(v.at(k)), as_nf(v.at(k - 1))
        return NF(z3.Or(k == 0, a.null, b.null), a.val - b.val)
    return st.alloc(Vec(v.n, at, idx=v.idx, kind="series"))


@vm("searchsorted")
def v_searchsorted(ex, st, o, args, kwargs, node):
    v = st.get(o)
    q = unwrap_opt(ex, st, st.get(args[0]), "searchsorted")
    side = st.get(args[1]) if len(args) > 1 else st.get(kwargs.get("side", "left"))
    used(ex, "searchsorted(left|right) on a non-decreasing vector = partition point")
    a = fresh(I, "a")
    line = getattr(node, "lineno", None)
    ex.oblig("sorted_arg", "L%s" % line, st,
             z3.ForAll([a], z3.Implies(z3.And(0 <= a, a + 1 < to_z3(v.n)), to_z3(v.at(a)) <= to_z3(v.at(a + 1)))), line=line)
    # sortedness as pairwise fact for the solver
    b = fresh(I, "b")
    st.assume(z3.ForAll([a, b], z3.Implies(z3.And(0 <= a, a <= b, b < to_z3(v.n)), to_z3(v.at(a)) <= to_z3(v.at(b)))))

    def pp(x, hint="ss"):
        p = fresh(I, hint)
        k = fresh(I, "k")
        x = to_z3(x)
        st.assume(z3.And(0 <= p, p <= to_z3(v.n)))
        if side == "left":
            st.assume(z3.ForAll([k], z3.Implies(z3.And(0 <= k, k < to_z3(v.n)), (k < p) == (to_z3(v.at(k)) < x))))
        else:
            st.assume(z3.ForAll([k], z3.Implies(z3.And(0 <= k, k < to_z3(v.n)), (k < p) == (to_z3(v.at(k)) <= x))))
        # the two instances at the partition point itself (the element before it and the element at it), stated ground:
        # the quantified fact above needs k := p - 1, which trigger-based instantiation does not find
        below = (lambda y: y < x) if side == "left" else (lambda y: y <= x)
        st.assume(z3.Implies(p > 0, below(to_z3(v.at(p - 1)))))
        st.assume(z3.Implies(p < to_z3(v.n), z3.Not(below(to_z3(v.at(p))))))
        return p
    if isinstance(q, Vec):
        P = z3.Function(fresh_name("ss"), I, I)
        j, k = fresh(I, "j"), fresh(I, "k")
        inr = z3.And(0 <= j, j < to_z3(q.n))
        st.assume(z3.ForAll([j], z3.Implies(inr, z3.And(0 <= P(j), P(j) <= to_z3(v.n)))))
        cmpf = (lambda vk, x: vk < x) if side == "left" else (lambda vk, x: vk <= x)
        st.assume(z3.ForAll([j, k], z3.Implies(z3.And(inr, 0 <= k, k < to_z3(v.n)),
                                               (k < P(j)) == cmpf(to_z3(v.at(k)), to_z3(q.at(j))))))
        return st.alloc(Vec(q.n, lambda k: P(to_z3(k)), kind="array"))
    if isinstance(q, (ListV, tuple)):
        items = q.items if isinstance(q, ListV) else q
        return st.alloc(Vec(len(items), lambda k, ps=[pp(x) for x in items]: _pick(ps, k), kind="array"))
    return pp(q)


@vm("itertuples")
def v_itertuples(ex, st, o, args, kwargs, node):
    raise Unsupported("Series.itertuples")


@vm("tolist")
def v_tolist(ex, st, o, args, kwargs, node):
    v = st.get(o)
    return st.alloc(v.with_(idx=None, kind="list", ro=False))


@vm("append")
def v_append(ex, st, o, args, kwargs, node):
    v = st.get(o)
    if v.kind != "list":
        raise Unsupported("append on non-list")
    x = args[0]
    if isinstance(st.get(x), OptV):
        x = unwrap_opt(ex, st, st.get(x), "append")      # a list of numbers: the appended value must not be None here
    n = v.n
    st.put(o, v.with_(n=n + 1, at=lambda k: merge_val(to_z3(k) == to_z3(n), x, v.at(k))))
    return None


def vec_median(ex, st, v):
    """median of a vector: an abstract value per vector object (the same object always has the same median),
    bounded by the extreme elements when the vector is non-empty"""
    used(ex, "median() abstract: one value per vector, between its minimum and maximum")
    key = "median:%d" % id(v.at)
    hit = st.ghost.get(key)
    if hit is not None and hit[1] is v.at:
        return hit[0]
    # two vector objects with the same element term and length (the column read twice) are the same vector
    key2 = None
    if True:
        try:
            k0 = z3.Const("canon!k", I)
            e0 = v.at(k0)
            if not isinstance(e0, NF) and is_z3(to_z3(e0)) and not _outer_binders([to_z3(e0), to_z3(v.n)]):
                key2 = "mediank:%s|%s" % (z3.simplify(to_z3(e0)).sexpr(), to_z3(v.n).sexpr())
                hit = ex.__dict__.setdefault("_median_canon", {}).get(key2)
                if hit is not None:
                    return hit
        except Unsupported:
            key2 = None
    m = fresh(R, "median")
    st.ghost = dict(st.ghost)
    st.ghost[key] = (m, v.at)
    if key2 is not None:
        ex.__dict__["_median_canon"][key2] = m      # (the term determines the values: valid on every path)
    # some element lies at or below it and some at or above it (a non-empty vector)
    a, b = fresh(I, "a"), fresh(I, "b")
    with binding(a, b):
        ea, eb = v.at(a), v.at(b)
    if not isinstance(ea, NF):
        n = to_z3(v.n)
        bound = z3.Implies(n > 0, z3.Exists([a, b], z3.And(0 <= a, a < n, 0 <= b, b < n, to_real(ea) <= m, m <= to_real(eb))))
        st.assume(bound)
        if key2 is not None:
            global_fact(ex, bound)
    return m


@vm("extend")
def v_extend(ex, st, o, args, kwargs, node):
    v = st.get(o)
    w = st.get(args[0])
    if v.kind != "list" or not isinstance(w, Vec):
        raise Unsupported("extend: list.extend(vector) only")
    n = v.n
    st.put(o, v.with_(n=to_z3(n) + to_z3(w.n), at=lambda k, v=v, w=w, n=n: merge_val(to_z3(k) < to_z3(n), v.at(k), w.at(to_z3(k) - to_z3(n)))))
    return None


@vm("median")
def v_median(ex, st, o, args, kwargs, node):
    return vec_median(ex, st, st.get(o))


@builtin("median_of")
def sp_median_of(ex, st, args, kwargs, node):
    return vec_median(ex, st, st.get(args[0]))


@vm("mean")
def v_mean(ex, st, o, args, kwargs, node):
    v = st.get(o)
    s = vec_sum(ex, st, v)
    # (an empty Series has mean NaN, no exception: callers that matter guard on len)
    return scalar_binop(ex, st, "Div", to_real(s), to_real(v.n), None)


@vm("map", "apply")
def v_map(ex, st, o, args, kwargs, node):
    f = st.get(args[0])
    v = st.get(o)
    if isinstance(f, Func):
        def at(k):
            ex.map_depth += 1
            try:
                r = ex.call(f, [v.at(k)], {}, st.fork(), node)
            finally:
                ex.map_depth -= 1
            if len(r) != 1:
                rs = r
                val = rs[-1][1]
                for s2, x in reversed(rs[:-1]):
                    val = merge_val(z3.And(s2.pc[len(st.pc):]), x, val)
                return val
            return r[0][1]
        return st.alloc(Vec(v.n, at, idx=v.idx, kind=v.kind))
    raise Unsupported("Series.map(%r)" % (f,))


# =============================================================================== numpy functions
@builtin("numpy.zeros", "numpy.ones")
def np_zeros(ex, st, args, kwargs, node):
    n = st.get(args[0])
    one = node.func.attr == "ones"
    dt = kwargs.get("dtype", args[1] if len(args) > 1 else None)
    dt = st.get(dt)
    dn = dt.target if isinstance(dt, Func) else dt
    if dn in (None, "numpy.float64", "float", "numpy.float_"):
        c = NF(False, z3.RealVal(1 if one else 0))   # float arrays can hold NaN
        elt = dsl.NReal
    elif dn in ("numpy.bool_", "bool"):
        c = z3.BoolVal(one)
        elt = dsl.Bool
    elif dn in ("numpy.int_", "int", "numpy.int64"):
        c = z3.IntVal(1 if one else 0)
        elt = dsl.Int
    else:
        raise Unsupported("np.zeros dtype %r" % (dn,))
    return st.alloc(Vec(n, lambda k, c=c: c, elt=elt, kind="array"))


@builtin("numpy.repeat")
def np_repeat(ex, st, args, kwargs, node):
    x, n = st.get(args[0]), st.get(args[1])
    if isinstance(x, Vec):
        raise Unsupported("np.repeat of an array")
    return st.alloc(Vec(n, lambda k, x=x: x, kind="array"))


@builtin("numpy.arange")
def np_arange(ex, st, args, kwargs, node):
    if len(args) == 3 and st.get(args[1]) == 0 and st.get(args[2]) == -1 and not kwargs:
        n = st.get(args[0])           # np.arange(n, 0, -1) = n, n-1, ..., 1
        ex.oblig("nonneg_length", "L%s" % getattr(node, "lineno", "?"), st, to_z3(n) >= 0)
        return st.alloc(Vec(n, lambda k, n=n: to_z3(n) - to_z3(k), elt=dsl.Int, kind="array"))
    if len(args) != 1:
        raise Unsupported("np.arange(lo, hi)")
    n = st.get(args[0])
    return st.alloc(Vec(n, lambda k: k, elt=dsl.Int, kind="array"))


@builtin("numpy.asarray")
def np_asarray(ex, st, args, kwargs, node):
    v = st.get(args[0])
    dt = st.get(kwargs["dtype"]) if "dtype" in kwargs else None
    if not isinstance(v, Vec) or len(args) != 1 or set(kwargs) - {"dtype"}:
        raise Unsupported("np.asarray of a non-vector")
    probe = v.at(z3.IntVal(0))
    isf = isinstance(probe, NF) or (is_z3(to_z3(probe)) and to_z3(probe).sort() == R)
    if dt is not None and not (isinstance(dt, Func) and dt.target == "float" and isf):
        raise Unsupported("np.asarray(dtype=...) other than float of floats")
    used(ex, "np.asarray of an array (of that dtype) is the array")
    return args[0] if v.kind == "array" else st.alloc(v.with_(idx=None, kind="array"))


@builtin("numpy.insert")
def np_insert(ex, st, args, kwargs, node):
    v, pos, x = st.get(args[0]), st.get(args[1]), st.get(args[2])
    if not isinstance(v, Vec) or not (isinstance(pos, int) and pos == 0) or isinstance(x, (Vec, ListV, tuple)) or kwargs:
        raise Unsupported("np.insert(arr, 0, scalar) only")
    used(ex, "np.insert(arr, 0, x) = x followed by the elements of arr")
    xe = coerce_elem(v, x)
    return st.alloc(Vec(to_z3(v.n) + 1, lambda k, v=v, xe=xe: merge_val(to_z3(k) == 0, xe, v.at(to_z3(k) - 1)), elt=v.elt, kind="array"))


@builtin("numpy.append")
def np_append(ex, st, args, kwargs, node):
    v, x = st.get(args[0]), st.get(args[1])
    if not isinstance(v, Vec) or isinstance(x, (Vec, ListV, tuple)) or kwargs:
        raise Unsupported("np.append(arr, scalar) only")
    used(ex, "np.append(arr, x) = the elements of arr followed by x")
    xe = coerce_elem(v, x)
    n = v.n
    return st.alloc(Vec(to_z3(n) + 1, lambda k, v=v, xe=xe, n=n: merge_val(to_z3(k) == to_z3(n), xe, v.at(k)), elt=v.elt, kind="array"))


@builtin("numpy.extract")
def np_extract(ex, st, args, kwargs, node):
    c, v = st.get(args[0]), st.get(args[1])
    if not isinstance(c, Vec) or not isinstance(v, Vec) or kwargs:
        raise Unsupported("np.extract(mask array, array) only")
    used(ex, "np.extract(mask, arr) = the elements of arr at the True positions of mask, in order")
    ex.oblig("len_eq", "L%s" % getattr(node, "lineno", "?"), st, to_z3(c.n) == to_z3(v.n))
    m, sel = compress(ex, st, c.n, c.at, "ext")
    return st.alloc(Vec(m, lambda j, sel=sel, v=v: v.at(sel(to_z3(j))), elt=v.elt, kind="array"))


@builtin("numpy.array")
def np_array(ex, st, args, kwargs, node):
    v = st.get(args[0])
    if len(args) != 1 or set(kwargs) - {"dtype"}:
        raise Unsupported("np.array(...) of this shape")
    if isinstance(v, ListV):
        items = [st.get(x) if isinstance(x, Ref) else x for x in v.items]
        v = Vec(len(items), lambda k, items=items: _pick(items, k), kind="list")
    if not isinstance(v, Vec):
        raise Unsupported("np.array of a non-sequence")
    used(ex, "np.array(sequence of numbers) = the same numbers as an array")
    return st.alloc(v.with_(idx=None, kind="array"))


@builtin("numpy.minimum.accumulate", "numpy.maximum.accumulate")
def np_min_accumulate(ex, st, args, kwargs, node):
    v = st.get(args[0])
    is_max = "maximum" in ast.unparse(node.func)
    probe = v.at(z3.IntVal(0))
    if not isinstance(v, Vec) or isinstance(probe, NF) or len(args) != 1 or kwargs:
        raise Unsupported("minimum.accumulate of a nullable / non-vector")
    used(ex, "np.minimum.accumulate(v)[k] = min of the first k+1 elements: a lower bound of them that is one of them")
    P = z3.Function(fresh_name("cummin"), I, to_z3(probe).sort())
    W = z3.Function(fresh_name("cummin_at"), I, I)
    k, m = fresh(I, "k"), fresh(I, "m")
    with binding(k, m):
        vm_, vw = to_z3(v.at(m)), to_z3(v.at(W(k)))
    n = to_z3(v.n)
    st.assume(z3.ForAll([k, m], z3.Implies(z3.And(0 <= m, m <= k, k < n), (P(k) >= vm_) if is_max else (P(k) <= vm_))))
    st.assume(z3.ForAll([k], z3.Implies(z3.And(0 <= k, k < n), z3.And(0 <= W(k), W(k) <= k, P(k) == vw)), patterns=[P(k)]))
    return st.alloc(Vec(v.n, lambda j: P(to_z3(j)), kind="array"))


def _lift1(name, f):
    @builtin(name)
    def g(ex, st, args, kwargs, node, f=f):
        v = st.get(args[0])
        if isinstance(v, Vec):
            return vec_map(ex, st, v, lambda x: f(ex, st, x))
        return f(ex, st, v)
    return g


def _isnan(ex, st, x):
    if isinstance(x, NF):
        return x.null
    if isinstance(x, float):
        return x != x
    return False


def _ceil(ex, st, x):
    if isinstance(x, NF):
        return NF(x.null, z3.ToReal(ceil_real(x.val)))
    if isinstance(x, (int, float)):
        import math
        return float(math.ceil(x))
    return z3.ToReal(ceil_real(x))


def _floor(ex, st, x):
    if isinstance(x, NF):
        return NF(x.null, z3.ToReal(floor_real(x.val)))
    return z3.ToReal(floor_real(x))


def _sqrt(ex, st, x):
    used(ex, "sqrt abstract with axioms (non-negative root, monotone)")
    if isinstance(x, NF):
        return NF(x.null, SQRT(ex)(x.val))
    return SQRT(ex)(to_real(x))


_lift1("numpy.isnan", _isnan)
_lift1("pandas.isnull", _isnan)
_lift1("pandas.isna", _isnan)
_lift1("numpy.ceil", _ceil)
_lift1("math.ceil", lambda ex, st, x: ceil_real(x))
_lift1("math.floor", lambda ex, st, x: floor_real(x))
_lift1("numpy.floor", _floor)
_lift1("numpy.log2", lambda ex, st, x: log2(ex, x))
_lift1("numpy.exp2", lambda ex, st, x: exp2(ex, x))
_lift1("numpy.sqrt", _sqrt)
_lift1("math.sqrt", _sqrt)
_lift1("numpy.abs", lambda ex, st, x: sc_abs(x))
_lift1("numpy.absolute", lambda ex, st, x: sc_abs(x))
def _normcdf(ex, st, x):
    used(ex, "scipy.stats.norm.cdf abstract (an uninterpreted function of its argument)")
    f = ex.ctx.uf("normcdf", R, R)
    if isinstance(x, NF):
        return NF(x.null, f(x.val))
    return f(to_real(x))


_lift1("scipy.stats.norm.cdf", _normcdf)
_lift1("normcdf", _normcdf)
_lift1("sqrt", _sqrt)
_lift1("numpy.isfinite", lambda ex, st, x: z3.Not(x.null) if isinstance(x, NF) else True)


@builtin("math.log")
def m_log(ex, st, args, kwargs, node):
    if len(args) == 2 and st.get(args[1]) == 2:
        return log2(ex, st.get(args[0]))
    raise Unsupported("math.log base")


@builtin("numpy.maximum", "numpy.minimum")
def np_maximum(ex, st, args, kwargs, node):
    a, b = st.get(args[0]), st.get(args[1])
    is_max = node.func.attr == "maximum"

    def f(x, y):
        if isinstance(x, NF) or isinstance(y, NF):
            x, y = as_nf(x), as_nf(y)
            return NF(z3.Or(x.null, y.null), f(x.val, y.val))
        c = scalar_compare(ex, st, "Gt" if is_max else "Lt", x, y)
        if is_real(x) or is_real(y):
            x, y = to_real(x), to_real(y)
        return merge_val(_b(c), x, y)
    if isinstance(a, Vec) and isinstance(b, Vec):
        same_index(ex, st, a, b, node)
        ex.oblig("len_eq", "L%s" % getattr(node, "lineno", "?"), st, to_z3(a.n) == to_z3(b.n))
        return st.alloc(Vec(a.n, lambda k: f(a.at(k), b.at(k)), idx=a.idx or b.idx, kind=a.kind))
    if isinstance(a, Vec):
        return st.alloc(Vec(a.n, lambda k: f(a.at(k), b), idx=a.idx, kind=a.kind))
    if isinstance(b, Vec):
        return st.alloc(Vec(b.n, lambda k: f(a, b.at(k)), idx=b.idx, kind=b.kind))
    return f(a, b)


def np_r_(ex, st, parts):
    if not isinstance(parts, tuple):
        parts = (parts,)
    used(ex, "np.r_ concatenates its arguments in order")
    vs = []
    for p in parts:
        p = st.get(p)
        if isinstance(p, Vec):
            vs.append(p)
        elif isinstance(p, (ListV, tuple)):
            items = p.items if isinstance(p, ListV) else p
            vs.append(Vec(len(items), lambda k, items=items: _pick(items, k)))
        else:
            vs.append(Vec(1, lambda k, p=p: p))

    def cat(a, b):
        n = (a.n + b.n) if isinstance(a.n, int) and isinstance(b.n, int) else to_z3(a.n) + to_z3(b.n)

        def at(k):
            if isinstance(k, int) and isinstance(a.n, int):
                return a.at(k) if k < a.n else b.at(k - a.n)
            return merge_val(to_z3(k) < to_z3(a.n), _coerce_pair(a.at(k), b)[0], _coerce_pair(b.at(to_z3(k) - to_z3(a.n)), a)[0])
        return Vec(n, at, kind="array")
    r = vs[0]
    for v in vs[1:]:
        r = cat(r, v)
    return st.alloc(r)


def _coerce_pair(x, other_vec):
    # bools concatenated with bools stay bools; ints with reals become reals
    probe = other_vec.at(z3.IntVal(0)) if not (isinstance(other_vec.n, int) and other_vec.n == 0) else x
    if (is_real(probe) and not is_real(x)) and not isinstance(x, (NF, bool)) and not (is_z3(x) and x.sort() == B):
        return (to_real(x),)
    if (isinstance(probe, bool) or (is_z3(probe) and probe.sort() == B)) and isinstance(x, bool):
        return (z3.BoolVal(x),)
    return (x,)


BUILTINS["numpy.r_"] = None   # subscripted, see get_item


@builtin("numpy.concatenate")
def np_concatenate(ex, st, args, kwargs, node):
    v = st.get(args[0])
    if isinstance(v, (ListV, tuple)):
        return np_r_(ex, st, tuple(v.items if isinstance(v, ListV) else v))
    raise Unsupported("np.concatenate of a symbolic list")


@builtin("numpy.where")
def np_where(ex, st, args, kwargs, node):
    if len(args) != 3:
        raise Unsupported("np.where(cond)")
    c, a, b = [st.get(x) for x in args]
    if not isinstance(c, Vec):
        raise Unsupported("np.where scalar cond")
    return st.alloc(Vec(c.n, lambda k: merge_val(_b(c.at(k)), a.at(k) if isinstance(a, Vec) else a,
                                                 b.at(k) if isinstance(b, Vec) else b), idx=c.idx, kind=c.kind))


@builtin("numpy.nonzero")
def np_nonzero(ex, st, args, kwargs, node):
    c = st.get(args[0])
    probe = c.at(z3.IntVal(0)) if isinstance(c, Vec) else None
    if not isinstance(c, Vec) or len(args) != 1 or kwargs or not ((is_z3(probe) and probe.sort() == B) or isinstance(probe, bool)):
        raise Unsupported("np.nonzero of a non-boolean / non-vector")
    used(ex, "np.nonzero(mask)[0] = the True positions, in increasing order")
    m, sel = compress(ex, st, c.n, c.at, "nz")
    rank = compress.last_rank
    v = Vec(m, lambda j, sel=sel: sel(to_z3(j)), elt=dsl.Int, kind="array", nz=(c.at, (lambda k, rank=rank: rank(to_z3(k))), c.n))
    return (st.alloc(v),)


@builtin("numpy.zeros_like", "numpy.ones_like")
def np_zeros_like(ex, st, args, kwargs, node):
    v = st.get(args[0])
    if not isinstance(v, Vec) or len(args) != 1 or kwargs:
        raise Unsupported("np.zeros_like of a non-vector")
    one = node.func.attr == "ones_like"
    probe = v.at(z3.IntVal(0))
    if isinstance(probe, NF) or (is_z3(to_z3(probe)) and to_z3(probe).sort() == R):
        c, elt = NF(False, z3.RealVal(1 if one else 0)), dsl.NReal
    elif is_z3(to_z3(probe)) and to_z3(probe).sort() == I:
        c, elt = z3.IntVal(1 if one else 0), dsl.Int
    else:
        raise Unsupported("np.zeros_like of this element type")
    return st.alloc(Vec(v.n, lambda k, c=c: c, elt=elt, kind="array"))


@builtin("numpy.mod")
def np_mod(ex, st, args, kwargs, node):
    a, b = st.get(args[0]), st.get(args[1])
    if len(args) != 2 or kwargs or not (isinstance(b, int) and b == 1):
        raise Unsupported("np.mod(x, y) other than y == 1")
    used(ex, "np.mod(x, 1) = x - floor(x)")

    def f(x):
        if isinstance(x, NF):
            return NF(x.null, f(x.val))
        x = to_real(x)
        return x - z3.ToReal(z3.ToInt(x))
    if isinstance(a, Vec):
        return st.alloc(Vec(a.n, lambda k: f(a.at(k)), idx=a.idx, kind=a.kind))
    return f(a)


@vm("isin")
def v_isin(ex, st, o, args, kwargs, node):
    v = st.get(o)
    items = st.get(args[0])
    if isinstance(items, ListV):
        items = tuple(st.get(x) for x in items.items)
    if not isinstance(items, tuple) or len(args) != 1 or kwargs:
        raise Unsupported("isin: a literal tuple/list of values only")
    used(ex, "Series.isin(values) = element-wise membership")
    return st.alloc(Vec(v.n, lambda k, items=items: contains(ex, st, items, v.at(k)), idx=v.idx, kind=v.kind))


@vm("take")
def v_take(ex, st, o, args, kwargs, node):
    v = st.get(o)
    iv = st.get(args[0])
    if v.kind != "array" or not isinstance(iv, Vec) or len(args) != 1 or kwargs:
        raise Unsupported("take: ndarray.take(index array) only")
    used(ex, "ndarray.take(idx) = the elements at the listed positions, in order")
    k = fresh(I, "k")
    with binding(k):
        inb = z3.And(0 <= to_z3(iv.at(k)), to_z3(iv.at(k)) < to_z3(v.n))
    ex.oblig("index_bounds", "L%s" % getattr(node, "lineno", "?"), st,
             z3.ForAll([k], z3.Implies(z3.And(0 <= k, k < to_z3(iv.n)), inb)))
    return st.alloc(Vec(iv.n, lambda j: v.at(to_z3(iv.at(j))), elt=v.elt, kind="array"))


@builtin("numpy.average")
def np_average(ex, st, args, kwargs, node):
    a = st.get(args[0])
    w = st.get(kwargs.get("weights")) if "weights" in kwargs else None
    used(ex, "np.average(a, weights=w) = sum(a*w)/sum(w)")
    if w is None:
        s = vec_sum(ex, st, a)
        return scalar_binop(ex, st, "Div", to_real(s), to_real(a.n), None)
    same_index(ex, st, a, w, node)
    num = vec_sum(ex, st, Vec(a.n, lambda k: scalar_binop(ex, st, "Mult", a.at(k), w.at(k))))
    den = vec_sum(ex, st, w)
    # np.average raises ZeroDivisionError when the weights sum to zero
    ex.oblig("div_nonzero", "L%s" % getattr(node, "lineno", "?"), st, to_z3(den) != 0)
    return scalar_binop(ex, st, "Div", to_real(num), to_real(den), None)


@builtin("numpy.mean")
def np_mean(ex, st, args, kwargs, node):
    a = st.get(args[0])
    s = vec_sum(ex, st, a)
    return scalar_binop(ex, st, "Div", to_real(s), to_real(a.n), None)


@builtin("numpy.dtype")
def np_dtype_of(ex, st, args, kwargs, node):
    t = st.get(args[0])
    tn = t if isinstance(t, str) else (t.target if isinstance(t, Func) else None)
    kind = {"str": "str", "int": "int", "float": "float", "bool": "bool", "numpy.float64": "float",
            "numpy.int64": "int", "numpy.int_": "int", "numpy.bool_": "bool"}.get(tn)
    if kind is None:
        raise Unsupported("np.dtype(%r)" % (tn,))
    return DTypeV(kind)


@builtin("numpy.float64", "numpy.int_", "numpy.bool_", "numpy.int64", "numpy.float_", "numpy.string_", "numpy.str_",
         "numpy.number", "numpy.ndarray", "pandas.DataFrame.placeholder")
def np_dtype(ex, st, args, kwargs, node):
    raise Unsupported("dtype constructor call")


# =============================================================================== pandas Series / DataFrame
@builtin("pandas.Series")
def pd_series(ex, st, args, kwargs, node):
    v = st.get(args[0]) if args else None
    if isinstance(v, Vec):
        idx = kwargs.get("index")
        if idx is not None:
            iv = st.get(idx)
            tok = getattr(iv, "token", None)
            if tok is None:
                raise Unsupported("pd.Series(index=...) with unknown index")
            return st.alloc(v.with_(idx=tok, kind="series", ro=False))
        return st.alloc(v.with_(idx=RangeIdx(v.n), kind="series", ro=False))
    if isinstance(v, (ListV, tuple)):
        items = v.items if isinstance(v, ListV) else v
        return st.alloc(Vec(len(items), lambda k: _pick(items, k), idx=RangeIdx(len(items)), kind="series"))
    raise Unsupported("pd.Series(%r)" % (v,))


BUILTINS["pandas.Series"] = pd_series
BUILTINS["pandas.DataFrame"] = lambda ex, st, args, kwargs, node: pd_dataframe(ex, st, args, kwargs, node)


class ColNames(tuple):
    """the column names of a table (a plain tuple of strings that remembers which table it came from)"""
    tab = None


@method(ColNames, "get_loc")
def colnames_get_loc(ex, st, o, args, kwargs, node):
    nm = st.get(args[0])
    names = o if isinstance(o, tuple) else st.get(o)
    if not isinstance(nm, str) or nm not in names:
        raise Unsupported("columns.get_loc of an unknown / symbolic name")
    return list(names).index(nm)


def pd_dataframe(ex, st, args, kwargs, node):
    v = st.get(args[0]) if args else None
    if v is None and set(kwargs) == {"columns"}:
        cn = st.get(kwargs["columns"])
        if isinstance(cn, ColNames) and cn.tab is not None:
            # an empty frame with the columns of an existing table
            return st.alloc(tab_rows(cn.tab, 0, 0, RangeIdx(0)))
    if isinstance(v, Tab):
        return st.alloc(v)
    if isinstance(v, DictV):
        # dict of columns: scalars broadcast, one-element lists fix the length
        cols = {}
        n = None
        for k, x in v.d.items():
            x = st.get(x)
            if isinstance(x, ListV):
                if n is None:
                    n = len(x.items)
                cols[k] = (lambda kk, x=x: _pick(x.items, kk))
            elif isinstance(x, Vec):
                if n is None:
                    n = x.n
                cols[k] = x.at
            else:
                cols[k] = (lambda kk, x=x: x)
        if n is None:
            raise Unsupported("DataFrame of scalars")
        return st.alloc(Tab(n, cols, RangeIdx(n)))
    raise Unsupported("pd.DataFrame(%r)" % (v,))


def tab_attr(ex, st, o, t, attr, node):
    if attr in ("iloc", "loc", "iat", "at"):
        return [(st, Indexer(attr, o))]
    if attr == "columns":
        cn = ColNames(t.cols)
        cn.tab = t
        return [(st, cn)]
    if attr == "empty":
        return [(st, _simpb(to_z3(t.n) == 0))]
    if attr == "index" and getattr(t.idx, "tlabels", None) is not None:
        return [(st, TupIndex(t.n, t.idx.tlabels, token=t.idx))]
    if attr == "index":
        if t.idx.labels is None:
            raise Unsupported("opaque index")
        iv = Vec(t.n, t.idx.labels, kind="index")
        iv_ref = st.alloc(iv)
        _TOKENS[iv_ref.addr] = (t.idx, 0)
        return [(st, iv_ref)]
    return None


_TOKENS = {}   # addr of an index-vector -> (token, offset)  (labels taken positionally from that token)


def tab_rows(t, lo, n, idx):
    return Tab(n, {c: (lambda k, f=f, lo=lo: f(to_z3(k) + to_z3(lo)) if not (isinstance(lo, int) and lo == 0) else f(k))
                   for c, f in t.cols.items()}, idx, t.elts)


def tab_mask(ex, st, t, mask, node):
    if mask.idx is not None and t.idx is not mask.idx and not (isinstance(mask.idx, RangeIdx) and isinstance(t.idx, RangeIdx)):
        raise Unsupported("boolean mask with a different index token")
    if mask.n is not t.n:
        ex.oblig("len_eq", "L%s" % getattr(node, "lineno", "?"), st, to_z3(mask.n) == to_z3(t.n))
    m, sel = compress(ex, st, mask.n, mask.at)
    idx = Idx("masked", labels=(lambda k, p=t.idx, sel=sel: p.labels(sel(to_z3(k)))) if t.idx.labels else None,
              unique=t.idx.unique)
    idx.sel = sel
    idx.parent = t.idx
    idx.rank = compress.last_rank
    idx.mask_at = mask.at
    return Tab(m, {c: (lambda k, f=f, sel=sel: f(sel(to_z3(k)))) for c, f in t.cols.items()}, idx, t.elts)


def tab_getitem(ex, st, o, t, i, node):
    if isinstance(i, str):
        if i not in t.cols:
            raise Unsupported("KeyError column %r" % i)
        return [(st, st.alloc(t.col(i)))]
    iv = st.get(i) if isinstance(i, Ref) else i
    if isinstance(iv, ListV) or (isinstance(iv, tuple) and all(isinstance(x, str) for x in iv)):
        names = [st.get(x) for x in (iv.items if isinstance(iv, ListV) else iv)]
        if all(isinstance(x, str) for x in names):
            return [(st, st.alloc(Tab(t.n, {c: t.cols[c] for c in names}, t.idx, {c: t.elts.get(c) for c in names})))]
    if isinstance(iv, Vec):
        probe = iv.at(z3.IntVal(0))
        if (is_z3(probe) and probe.sort() == B) or isinstance(probe, bool):
            return [(st, st.alloc(tab_mask(ex, st, t, iv, node)))]
    if isinstance(iv, SliceV):
        lo, ln = slice_bounds(t.n, iv)
        return [(st, st.alloc(tab_rows(t, lo, ln, SubIdx(t.idx, lo))))]
    raise Unsupported("DataFrame[%r]" % (iv,))


def opaque_elems(ex, ov):
    """The elements of an opaque function result name(arg): one function symbol per (name, argument's element and length
    terms), so that syntactically equal arguments give literally the same elements."""
    k = fresh(I, "ck")
    with binding(k):
        e = ov.arg.at(k)
    ez = to_z3(e.val) if isinstance(e, NF) else to_z3(e)
    if _outer_binders([ez, to_z3(ov.arg.n)]):
        raise Unsupported("opaque function %s of a vector defined under a quantifier" % ov.name)
    ck = z3.Const("canon!k", I)
    key = (ov.name, z3.substitute(ez, (k, ck)).sexpr(),
           z3.substitute(to_z3(e.null), (k, ck)).sexpr() if isinstance(e, NF) and is_z3(e.null) else "", to_z3(ov.arg.n).sexpr())
    cache = ex.__dict__.setdefault("_opaque_canon", {})
    f = cache.get(key)
    if f is None:
        f = z3.Function(fresh_name(ov.name.lower() + "_el"), I, R)
        # congruence with the results of the same function taken before: arguments that agree element by element give
        # results that agree element by element (for arguments that are not literally the same term)
        nz = to_z3(ov.arg.n)
        for (f2, arg2) in [x for x in cache.get(("__all__", ov.name), [])][-6:]:
            a, b = fresh(I, "a"), fresh(I, "b")
            try:
                with binding(a, b):
                    same = z3.And(to_z3(arg2.n) == nz,
                                  z3.ForAll([a], z3.Implies(z3.And(0 <= a, a < nz), z3eq(ov.arg.at(a), arg2.at(a)))))
                    global_fact(ex, z3.Implies(same, z3.ForAll([b], z3.Implies(z3.And(0 <= b, b < nz), f(b) == f2(b)))))
            except Unsupported:
                continue
        cache.setdefault(("__all__", ov.name), []).append((f, ov.arg))
        cache[key] = f
    used(ex, "elements of the opaque function result %s(v) are an uninterpreted function of the position (one per v)" % ov.name)
    return Vec(ov.arg.n, lambda j, f=f: f(to_z3(j)), idx=ov.arg.idx, kind="series" if ov.arg.idx is not None else "array")


def as_column(ex, st, t, val, node):
    """Value assigned to a DataFrame column -> element closure (after alignment checks)."""
    v = st.get(val)
    if isinstance(v, OpaqueVecApp):
        v = opaque_elems(ex, v)
        if v.idx is not None and v.idx is not t.idx and not (isinstance(v.idx, RangeIdx) and isinstance(t.idx, RangeIdx)):
            v = v.with_(idx=None, kind="array")       # a plain array result: positional
    if isinstance(v, Vec):
        if v.kind == "series" and v.idx is not None and v.idx is not t.idx and \
                not (isinstance(v.idx, RangeIdx) and isinstance(t.idx, RangeIdx)):
            raise Unsupported("column assignment aligns on a different index token")
        if v.n is not t.n:
            ex.oblig("len_eq", "L%s" % getattr(node, "lineno", "?"), st, to_z3(v.n) == to_z3(t.n))
        return v.at
    if isinstance(v, (ListV, tuple)):
        items = v.items if isinstance(v, ListV) else v
        ex.oblig("len_eq", "L%s" % getattr(node, "lineno", "?"), st, to_z3(t.n) == len(items))
        return lambda k: _pick(items, k)
    if isinstance(v, (Tab, Seq, Obj, DictV)):
        raise Unsupported("column assignment of %r" % (v,))
    return lambda k, v=v: v


def tab_setitem(ex, st, o, t, i, val, node):
    if isinstance(i, str):
        cols = dict(t.cols)
        cols[i] = as_column(ex, st, t, val, node)
        st.put(o, Tab(t.n, cols, t.idx, t.elts))
        return [st]
    raise Unsupported("DataFrame store [%r]" % (i,))


def tab_indexer_get(ex, st, ind, t, i, node):
    if ind.kind == "iloc":
        if isinstance(i, SliceV):
            lo, ln = slice_bounds(t.n, i)
            return [(st, st.alloc(tab_rows(t, lo, ln, SubIdx(t.idx, lo))))]
        iv = st.get(i) if isinstance(i, Ref) else i
        if isinstance(iv, Vec):
            probe = iv.at(z3.IntVal(0))
            if (is_z3(probe) and probe.sort() == B) or isinstance(probe, bool):
                return [(st, st.alloc(tab_mask(ex, st, t, iv.with_(idx=None), node)))]
        if isinstance(iv, int) or (is_z3(iv) and iv.sort() == I):
            j = norm_index(t.n, iv)
            bounds(ex, st, t.n, j, node)
            return [(st, Rec({c: f(j) for c, f in t.cols.items()}, "Series"))]
    if ind.kind == "loc":
        if isinstance(i, tuple) and len(i) == 2:
            rows, col = i
            rows = st.get(rows) if isinstance(rows, Ref) else rows
            if isinstance(rows, SliceV) and rows.lo is None and rows.hi is None:
                sub = t
            elif isinstance(rows, Vec):
                probe = rows.at(z3.IntVal(0))
                if (is_z3(probe) and probe.sort() == B) or isinstance(probe, bool):
                    sub = tab_mask(ex, st, t, rows, node)
                else:
                    raise Unsupported("loc with label array")
            else:
                raise Unsupported("loc rows %r" % (rows,))
            colv = st.get(col) if isinstance(col, Ref) else col
            if isinstance(colv, str):
                return [(st, st.alloc(sub.col(colv)))]
            if isinstance(colv, SliceV) and colv.lo is None and colv.hi is None:
                return [(st, st.alloc(sub))]
            if isinstance(colv, (ListV, tuple)):
                names = list(colv.items if isinstance(colv, ListV) else colv)
                return [(st, st.alloc(Tab(sub.n, {c: sub.cols[c] for c in names}, sub.idx, sub.elts)))]
        iv = st.get(i) if isinstance(i, Ref) else i
        if isinstance(iv, Vec):
            probe = iv.at(z3.IntVal(0))
            if (is_z3(probe) and probe.sort() == B) or isinstance(probe, bool):
                return [(st, st.alloc(tab_mask(ex, st, t, iv, node)))]
    raise Unsupported("DataFrame.%s[%r]" % (ind.kind, i))


def tab_indexer_set(ex, st, ind, t, i, val, node):
    if ind.kind == "iloc" and isinstance(i, tuple) and len(i) == 2:
        # df.iloc[row, column position] = scalar
        r, c = (st.get(x) if isinstance(x, Ref) else x for x in i)
        v = st.get(val)
        if isinstance(c, int) and not isinstance(c, bool) and 0 <= c < len(t.cols) and (isinstance(r, int) or (is_z3(r) and r.sort() == I)) \
                and not isinstance(v, (Vec, Tab, ListV, tuple)):
            used(ex, "df.iloc[r, c] = scalar writes that one cell")
            col = list(t.cols)[c]
            j = norm_index(t.n, r)
            bounds(ex, st, t.n, j, node)
            old = t.cols[col]
            probe = old(z3.IntVal(0))
            if isinstance(probe, NF):
                v = as_nf(v)
            elif isinstance(v, NF):
                raise Unsupported("iloc store of a nullable value into a non-nullable column")
            elif is_real(probe) and not is_real(v):
                v = to_real(v)
            elif is_z3(to_z3(probe)) and is_z3(to_z3(v)) and to_z3(probe).sort() != to_z3(v).sort():
                raise Unsupported("iloc store changing the column's type")
            cols = dict(t.cols)
            cols[col] = lambda kk, old=old, v=v, j=j: merge_val(to_z3(kk) == to_z3(j), v, old(kk))
            st.put(ind.ref, Tab(t.n, cols, t.idx, t.elts))
            return [st]
        raise Unsupported("iloc[r, c] store of this shape")
    if ind.kind == "loc" and isinstance(i, tuple) and len(i) == 2:
        rows, col = i
        rows = st.get(rows) if isinstance(rows, Ref) else rows
        col = st.get(col) if isinstance(col, Ref) else col
        if isinstance(rows, Vec) and isinstance(col, str):
            probe = rows.at(z3.IntVal(0))
            if not ((is_z3(probe) and probe.sort() == B) or isinstance(probe, bool)):
                raise Unsupported("loc store with label rows")
            if rows.idx is not None and rows.idx is not t.idx and not (isinstance(rows.idx, RangeIdx) and isinstance(t.idx, RangeIdx)):
                raise Unsupported("loc mask with different index token")
            if rows.n is not t.n:
                ex.oblig("len_eq", "L%s" % getattr(node, "lineno", "?"), st, to_z3(rows.n) == to_z3(t.n))
            used(ex, "df.loc[mask, col] = scalar writes exactly the True rows of that column")
            v = st.get(val)
            if isinstance(v, Vec) and getattr(v.idx, "parent", None) is t.idx and col in t.cols:
                # value selected from this very frame by a mask: labels align; every assigned row must be one of
                # the value's rows (otherwise pandas would store NaN there)
                used(ex, "df.loc[mask, col] = Series aligned on index labels")
                k = fresh(I, "k")
                ex.oblig("aligned_labels", "L%s" % getattr(node, "lineno", "?"), st,
                         z3.ForAll([k], z3.Implies(z3.And(0 <= k, k < to_z3(t.n), _b(rows.at(k))), _b(v.idx.mask_at(k)))))
                old = t.cols[col]
                rank = v.idx.rank
                cols = dict(t.cols)
                cols[col] = lambda kk, old=old, v=v, rank=rank: merge_val(_b(rows.at(kk)), v.at(rank(to_z3(kk))), old(kk))
                st.put(ind.ref, Tab(t.n, cols, t.idx, t.elts))
                return [st]
            if isinstance(v, (Vec, Tab, ListV, tuple)):
                raise Unsupported("loc store of a vector")
            if col not in t.cols:
                raise Unsupported("loc store creating a column")
            old = t.cols[col]
            probe_c = old(z3.IntVal(0))

            def at(k, old=old, v=v):
                x = old(k)
                nv = v
                if isinstance(x, NF) or (isinstance(v, float) and v != v):
                    nv = as_nf(v)    # NaN stored into an int/float column: the column becomes nullable float
                elif is_real(x) and not is_real(v) and not isinstance(v, NF):
                    nv = to_real(v)
                return merge_val(_b(rows.at(k)), nv, x)
            cols = dict(t.cols)
            cols[col] = at
            elts = dict(t.elts)
            if isinstance(v, float) and v != v:
                elts[col] = dsl.NReal
            st.put(ind.ref, Tab(t.n, cols, t.idx, elts))
            return [st]
    raise Unsupported("DataFrame.%s store" % ind.kind)


def tm(*names):
    return method(Tab, *names)


@tm("copy")
def t_copy(ex, st, o, args, kwargs, node):
    return st.alloc(st.get(o))


@tm("itertuples")
def t_itertuples(ex, st, o, args, kwargs, node):
    t = st.get(o)
    if st.get(kwargs.get("index", True)) is not False:
        raise Unsupported("itertuples(index=True)")
    return Seq(t.n, lambda k: Rec({c: f(k) for c, f in t.cols.items()}, "Pandas"))


@tm("reset_index")
def t_reset_index(ex, st, o, args, kwargs, node):
    t = st.get(o)
    if st.get(kwargs.get("drop", False)) is not True:
        # the old row labels become the first column, named "index"
        if args or set(kwargs) - {"drop"} or "index" in t.cols or getattr(t.idx, "tlabels", None) is not None:
            raise Unsupported("reset_index() of this shape")
        used(ex, "reset_index(): rows renumbered 0..n-1, the old labels kept as a first column 'index'")
        lab = t.idx.labels if (t.idx is not None and t.idx.labels is not None) else None
        if isinstance(t.idx, RangeIdx):
            lab = lambda k: to_z3(k)
        if lab is None:
            L = z3.Function(fresh_name("old_label"), I, I)
            lab = lambda k, L=L: L(to_z3(k))
        cols = {"index": lab}
        cols.update(t.cols)
        return st.alloc(Tab(t.n, cols, RangeIdx(t.n), dict(t.elts, index=dsl.Int)))
    return st.alloc(Tab(t.n, t.cols, RangeIdx(t.n), t.elts))


@tm("assign")
def t_assign(ex, st, o, args, kwargs, node):
    t = st.get(o)
    cols = dict(t.cols)
    for k, v in kwargs.items():
        cols[k] = as_column(ex, st, t, v, node)
    return st.alloc(Tab(t.n, cols, t.idx, t.elts))


@tm("rename")
def t_rename(ex, st, o, args, kwargs, node):
    t = st.get(o)
    if args or set(kwargs) != {"columns"}:
        raise Unsupported("DataFrame.rename(%s)" % sorted(kwargs))
    m = st.get(kwargs["columns"])
    if not isinstance(m, DictV) or not all(isinstance(k, str) and isinstance(st.get(v), str) for k, v in m.d.items()):
        raise Unsupported("DataFrame.rename(columns=<symbolic>)")
    used(ex, "DataFrame.rename(columns=mapping) renames the listed columns, data unchanged")
    ren = {k: st.get(v) for k, v in m.d.items()}
    cols, elts = {}, {}
    for c, f in t.cols.items():
        nc = ren.get(c, c)
        if nc in cols:
            raise Unsupported("rename produces duplicate column names")
        cols[nc] = f
        elts[nc] = t.elts.get(c)
    return st.alloc(Tab(t.n, cols, t.idx, elts))


@tm("reindex")
def t_reindex(ex, st, o, args, kwargs, node):
    t = st.get(o)
    if args or set(kwargs) != {"columns"}:
        raise Unsupported("DataFrame.reindex(%s)" % sorted(kwargs))
    cols = st.get(kwargs["columns"])
    names = [st.get(x) for x in (cols.items if isinstance(cols, ListV) else cols)]
    if not all(isinstance(x, str) for x in names) or any(x not in t.cols for x in names):
        raise Unsupported("reindex(columns=) introducing new columns")
    used(ex, "DataFrame.reindex(columns=names) reorders/selects the named columns, rows unchanged")
    return st.alloc(Tab(t.n, {c: t.cols[c] for c in names}, t.idx, {c: t.elts.get(c) for c in names}))


@tm("astype")
def t_astype(ex, st, o, args, kwargs, node):
    t = st.get(o)
    spec = st.get(args[0])
    if not isinstance(spec, DictV):
        raise Unsupported("DataFrame.astype(%r)" % (spec,))
    used(ex, "DataFrame.astype({col: type}) converts the listed columns elementwise, other columns unchanged")
    cols = dict(t.cols)
    elts = dict(t.elts)
    for cn, ty in spec.d.items():
        if cn not in cols:
            raise Unsupported("astype of a missing column")
        ty = st.get(ty)
        tn = ty if isinstance(ty, str) else (ty.target if isinstance(ty, Func) else None)
        kind = vec_dkind(t.col(cn))
        if tn == "str":
            if kind != "str":
                raise Unsupported("astype(str) of a non-string column")
        elif tn == "int":
            if kind == "float":
                # float -> int: every cell must hold a number (pandas raises on NaN), then truncation toward zero
                f0 = cols[cn]
                kq = fresh(I, "k")
                with binding(kq):
                    x = f0(kq)
                    nonnull = z3.Not(x.null) if isinstance(x, NF) else z3.BoolVal(True)
                line = getattr(node, "lineno", None)
                ex.oblig("not_nan", "L%s(%s)" % (line, cn), st,
                         z3.ForAll([kq], z3.Implies(z3.And(0 <= kq, kq < to_z3(t.n)), nonnull)), line=line)
                cols[cn] = (lambda k, f=f0: trunc_real(f(k).val if isinstance(f(k), NF) else f(k)))
                elts[cn] = dsl.Int
            elif kind != "int":
                raise Unsupported("astype(int) of a non-int column")
        elif tn == "float":
            if kind == "int":
                cols[cn] = (lambda k, f=cols[cn]: to_real(f(k)))
                elts[cn] = dsl.Real
            elif kind != "float":
                raise Unsupported("astype(float) of a %s column" % kind)
        else:
            raise Unsupported("astype(%r)" % (tn,))
    return st.alloc(Tab(t.n, cols, t.idx, elts))


@tm("apply")
def t_apply(ex, st, o, args, kwargs, node):
    t = st.get(o)
    f = st.get(args[0])
    if st.get(kwargs.get("axis", 0)) != 1:
        raise Unsupported("DataFrame.apply(axis=0)")
    used(ex, "DataFrame.apply(f, axis=1) is the row-wise map")

    def at(k):
        row = Rec({c: g(k) for c, g in t.cols.items()}, "Series")
        ex.map_depth += 1
        try:
            r = ex.call(f, [row], {}, st.fork(), node)
        finally:
            ex.map_depth -= 1
        rs = [(s2, x) for s2, x in r if not s2.ctl]
        if len(rs) != len(r):
            raise Unsupported("row function may raise")
        val = rs[-1][1]
        for s2, x in reversed(rs[:-1]):
            val = merge_val(z3.And(s2.pc[len(st.pc):]), x, val)
        return val
    return st.alloc(Vec(t.n, at, idx=t.idx, kind="series"))


# =============================================================================== spec builtins (logical semantics)
@builtin("exp2")
def sp_exp2(ex, st, args, kwargs, node):
    return exp2(ex, st.get(args[0]))


@builtin("log2")
def sp_log2(ex, st, args, kwargs, node):
    return log2(ex, st.get(args[0]))


@builtin("trunc")
def sp_trunc(ex, st, args, kwargs, node):
    v = st.get(args[0])
    if is_z3(v) and v.sort() == I or isinstance(v, int):
        return v
    return trunc_real(v)


@builtin("ceil")
def sp_ceil(ex, st, args, kwargs, node):
    v = st.get(args[0])
    if is_z3(v) and v.sort() == I or isinstance(v, int):
        return v
    return ceil_real(v)


@builtin("floor")
def sp_floor(ex, st, args, kwargs, node):
    v = st.get(args[0])
    if is_z3(v) and v.sort() == I or isinstance(v, int):
        return v
    return floor_real(v)


@builtin("rnd")
def sp_rnd(ex, st, args, kwargs, node):
    """round half to even (the rounding of Python 3 / numpy)"""
    v = st.get(args[0])
    if is_z3(v) and v.sort() == I or isinstance(v, int):
        return v
    return round_half_even(v)


@builtin("isnull")
def sp_isnull(ex, st, args, kwargs, node):
    v = st.get(args[0])
    if isinstance(v, NF):
        return v.null
    if isinstance(v, float):
        return v != v
    return False


@builtin("val")
def sp_val(ex, st, args, kwargs, node):
    """numeric payload of a nullable (unspecified when null)"""
    v = st.get(args[0])
    if isinstance(v, float) and v != v:
        return z3.RealVal(0)          # payload of NaN is unspecified
    return v.val if isinstance(v, NF) else v


@builtin("lower")
def sp_lower(ex, st, args, kwargs, node):
    v = st.get(args[0])
    if isinstance(v, str):
        return v.lower()
    from .lib_obj import LOWER, atom_lower
    if is_atom(v):
        return atom_lower(ex, v)
    return LOWER(ex)(v)


@builtin("real")
def sp_real(ex, st, args, kwargs, node):
    return to_real(st.get(args[0]))


@builtin("le")
def sp_le(ex, st, args, kwargs, node):
    return scalar_compare(ex, st, "LtE", st.get(args[0]), st.get(args[1]))


@builtin("ge")
def sp_ge(ex, st, args, kwargs, node):
    return scalar_compare(ex, st, "GtE", st.get(args[0]), st.get(args[1]))


@builtin("startswith")
def sp_startswith(ex, st, args, kwargs, node):
    from .lib_obj import s_startswith
    return s_startswith(ex, st, st.get(args[0]), [args[1]], {}, node)


def aug_masked(ex, st, n):
    """`x[mask] op= scalar` on an array/Series with a boolean mask: pointwise update of the True positions.
    Returns None when the statement has another shape (the generic path handles it)."""
    t = n.target
    outs = []
    for s, (o, i, v) in ex.evs([t.value, t.slice, n.value], st):
        if s.ctl:
            outs.append(s)
            continue
        ov, iv, vv = s.get(o), s.get(i), s.get(v)
        if not (isinstance(ov, Vec) and isinstance(iv, Vec) and isinstance(o, Ref)):
            return None
        probe = iv.at(z3.IntVal(0))
        if not ((is_z3(probe) and probe.sort() == B) or isinstance(probe, bool)):
            return None
        if isinstance(vv, (Tab, ListV, tuple)):
            return None
        if ov.ro:
            raise Unsupported("in-place write through a read-only view")
        if isinstance(vv, Vec):
            # x[mask] op= v : the j-th True position is combined with v[j]
            used(ex, "x[mask] op= vector: the j-th True position takes v[j]")
            if iv.n is not ov.n:
                ex.oblig("len_eq", "L%s" % n.lineno, s, to_z3(iv.n) == to_z3(ov.n), line=n.lineno)
            m, sel = compress(ex, s, iv.n, iv.at)
            rank = compress.last_rank
            ex.oblig("len_eq", "L%s_value" % n.lineno, s, to_z3(vv.n) == to_z3(m), line=n.lineno)
            op = type(n.op).__name__
            s.put(o, ov.with_(at=lambda k, ov=ov, iv=iv, vv=vv, s=s, rank=rank: merge_val(
                _b(iv.at(k)), coerce_elem(ov, scalar_binop(ex, s, op, ov.at(k), vv.at(rank(to_z3(k))), None)), ov.at(k))))
            outs.append(s)
            continue
        used(ex, "x[mask] op= scalar updates exactly the True positions")
        if iv.n is not ov.n:
            ex.oblig("len_eq", "L%s" % n.lineno, s, to_z3(iv.n) == to_z3(ov.n), line=n.lineno)
        if ov.idx is not None and iv.idx is not None:
            same_index(ex, s, ov, iv, n)
        op = type(n.op).__name__
        s.put(o, ov.with_(at=lambda k, ov=ov, iv=iv, vv=vv, s=s: merge_val(
            _b(iv.at(k)), coerce_elem(ov, scalar_binop(ex, s, op, ov.at(k), vv, None)), ov.at(k))))
        outs.append(s)
    return outs


@builtin("count")
def sp_count(ex, st, args, kwargs, node):
    from .lib_obj import str_count
    r = str_count(ex, st.get(args[0]), st.get(args[1]))
    if is_z3(r):
        st.assume(r >= 0)
    return r


@builtin("some")
def sp_some(ex, st, args, kwargs, node):
    """payload of an optional value (meaningful only where it is not None)"""
    v = st.get(args[0])
    return v.val if isinstance(v, OptV) else v


@builtin("sumof")
def sp_sumof(ex, st, args, kwargs, node):
    """sum of a vector (spec language)"""
    v = st.get(args[0])
    return vec_sum(ex, st, v)


@builtin("psum")
def sp_psum(ex, st, args, kwargs, node):
    """psum(v, m): sum of the first m elements of v (the prefix function of v; spec language)"""
    v = st.get(args[0])
    m = st.get(args[1])
    return prefix_sum_fn(ex, st, v)[0](to_z3(m))


@vm("drop_duplicates")
def v_drop_duplicates(ex, st, o, args, kwargs, node):
    """Series.drop_duplicates(): an opaque function of the vector (what it keeps is not modelled)"""
    from .values import OpaqueVecApp
    used(ex, "Series.drop_duplicates() is an opaque function of its receiver")
    return st.alloc(OpaqueVecApp("drop_duplicates", st.get(o)))


@builtin("numpy.median")
def np_median(ex, st, args, kwargs, node):
    if kwargs:
        raise Unsupported("np.median keywords")
    return vec_median(ex, st, st.get(args[0]))


def vec_functional(ex, st, name, v):
    """An opaque real-valued functional of a vector (a callable parameter such as an estimator): one value per
    vector object, equal for vectors that agree element by element (congruence, stated pairwise per path)."""
    if isinstance(v, ListV):
        items = [st.get(x) for x in v.items]
        v = Vec(len(items), lambda k, items=items: _pick(items, k), kind="list")
    if not isinstance(v, Vec):
        raise Unsupported("opaque functional %s of %r" % (name, v))
    used(ex, "callable parameter %s: an opaque real functional of its vector argument (congruent)" % name)
    cache = ex.__dict__.setdefault("_vecfun_cache", {})
    hit = cache.get((name, id(v.at)))
    if hit is None or hit[1] is not v.at or hit[2] is not v.n:
        hit = (fresh(R, name.lower()), v.at, v.n)
        cache[(name, id(v.at))] = hit
    val = hit[0]
    key = "vf:%s" % name
    prev = list(st.ghost.get(key, ()))
    if not any(p[0] is val for p in prev):
        for (t2, v2) in prev[-6:]:
            k = fresh(I, "k")
            try:
                e1, e2 = v.at(k), v2.at(k)
                if isinstance(e1, NF) or isinstance(e2, NF):
                    e1 = e1 if isinstance(e1, NF) else NF(z3.BoolVal(False), to_real(e1))
                    e2 = e2 if isinstance(e2, NF) else NF(z3.BoolVal(False), to_real(e2))
                    eq = z3.And(e1.null == e2.null, z3.Or(e1.null, e1.val == e2.val))
                else:
                    eq = to_z3(e1) == to_z3(e2)
                same = z3.And(to_z3(v.n) == to_z3(v2.n), z3.ForAll([k], z3.Implies(z3.And(0 <= k, k < to_z3(v.n)), eq)))
            except Exception:
                continue
            st.assume(z3.Implies(same, val == t2))
        st.ghost = dict(st.ghost)
        st.ghost[key] = tuple(prev + [(val, v)])
    return val


@method(StrAcc, "match")
def stracc_match(ex, st, o, args, kwargs, node):
    """Series.str.match(<literal pattern>, na=False) on name atoms: an uninterpreted predicate per pattern, exact on
    the literal names that occur"""
    acc = st.get(o)
    v = st.get(acc.ref)
    pat = st.get(args[0])
    if not isinstance(pat, str) or set(kwargs) - {"na"}:
        raise Unsupported("str.match with a symbolic pattern / keywords")
    probe = to_z3(v.at(z3.IntVal(0)))
    if not is_atom(probe):
        raise Unsupported("str.match on non-atom strings")
    used(ex, "Series.str.match(%r) on name atoms: uninterpreted predicate, exact on literal names" % pat)
    tag = "".join(c if c.isalnum() else "_%02x" % ord(c) for c in pat)
    f = ex.ctx.uf("match_%s_%s" % (tag, probe.sort().name()), probe.sort(), B)
    ex.ctx.atom_funs.setdefault(("match", probe.sort().name(), pat), f)
    return st.alloc(Vec(v.n, lambda k, v=v, f=f: f(to_z3(v.at(k))), idx=v.idx, kind="series"))


@builtin("pandas.DataFrame.from_records")
def pd_from_records(ex, st, args, kwargs, node):
    """DataFrame.from_records(rows, columns=names): rows are tuples of len(names) values; default RangeIndex"""
    if len(args) != 1 or set(kwargs) != {"columns"}:
        raise Unsupported("DataFrame.from_records signature")
    names = st.get(kwargs["columns"])
    if isinstance(names, ListV):
        names = [st.get(x) for x in names.items]
    if not isinstance(names, (list, tuple)) or not all(isinstance(x, str) for x in names):
        raise Unsupported("from_records with symbolic column names")
    rows = st.get(args[0])
    if isinstance(rows, ListV):
        items = [st.get(x) for x in rows.items]
        n = len(items)

        def row_at(k, items=items):
            return _pick(items, k)
    elif isinstance(rows, (Seq, IterV)) or (isinstance(rows, Vec) and rows.kind == "list"):
        n, row_at = rows.n, rows.at
    else:
        raise Unsupported("from_records of %r" % (rows,))

    def field(k, i):
        r = row_at(k)
        r = st.get(r) if isinstance(r, Ref) else r
        if isinstance(r, Rec):
            vals = list(r.f.values())
        elif isinstance(r, tuple):
            vals = list(r)
        else:
            raise Unsupported("from_records row %r" % (r,))
        if len(vals) != len(names):
            raise Unsupported("from_records: row width differs from the column list")
        x = vals[i]
        return st.get(x) if isinstance(x, Ref) else x
    if isinstance(n, int) and n > 0:
        field(0, 0)       # width check now
    cols = {c: (lambda k, i=i: field(k, i)) for i, c in enumerate(names)}
    return st.alloc(Tab(n, cols, RangeIdx(n)))


@vm("replace")
def v_replace(ex, st, o, args, kwargs, node):
    """Series.replace(old, new) with scalar old/new: elementwise substitution"""
    v = st.get(o)
    if len(args) != 2 or kwargs:
        raise Unsupported("Series.replace signature")
    a, b = st.get(args[0]), st.get(args[1])
    if isinstance(a, (Vec, ListV, DictV)) or isinstance(b, (Vec, ListV, DictV)):
        raise Unsupported("Series.replace with non-scalar arguments")

    def at(k):
        x = v.at(k)
        if isinstance(x, NF):
            raise Unsupported("Series.replace on a nullable column")
        return merge_val(_b(scalar_compare(ex, st, "Eq", x, a)), b, x)
    return st.alloc(Vec(v.n, at, idx=v.idx, elt=v.elt, kind="series"))


@builtin("pandas.read_csv")
def pd_read_csv(ex, st, args, kwargs, node):
    """pd.read_csv(file, names=[...], ...): what pandas parsed is an unconstrained table with the named columns (their
    types come from the contract's ghost `csv_types`); it is remembered as the ghost value `parsed_` so that clauses can
    say how the reader transforms it.  Tokenising the text is pandas' business (assumed)."""
    c = ex.frames[0].contract if ex.frames else None
    types = (c.ghost.get("csv_types") if c else None) or {}
    names = st.get(kwargs["names"]) if "names" in kwargs else None
    if isinstance(names, ListV):
        names = [st.get(x) for x in names.items]
    if names is None:
        names = list(types)
    if not names or not all(isinstance(x, str) and x in types for x in names):
        raise Unsupported("read_csv without typed column names (contract ghost csv_types)")
    used(ex, "pd.read_csv yields some table with the requested columns (its content is unconstrained)")
    t = ex.fresh_value(dsl.TabT(index="range", **{n: types[n] for n in names}), "parsed", st)
    st.ghost = dict(st.ghost)
    st.ghost["view_parsed"] = st.get(t)       # the value as parsed (later in-place edits of the frame do not show)
    return t


@tm("fillna")
def t_fillna(ex, st, o, args, kwargs, node):
    """DataFrame.fillna({col: value}, inplace=True) on columns the model keeps non-missing: no change"""
    t = st.get(o)
    m = st.get(args[0]) if args else None
    if not isinstance(m, DictV) or st.get(kwargs.get("inplace", False)) is not True or set(kwargs) - {"inplace"}:
        raise Unsupported("DataFrame.fillna signature")
    for cn in m.d:
        if cn in t.cols and isinstance(t.cols[cn](z3.IntVal(0)), NF):
            raise Unsupported("fillna on a nullable column")
    used(ex, "fillna on text columns: missing text is not modelled (columns are total), so fillna changes nothing")
    return None


# =============================================================================== unique / first-appearance rank / groupby
class UniqueOf:
    """col.unique(): the distinct values of a column in order of first appearance (only its length and its use as the
    index of a rank table are modelled)"""

    def __init__(self, v, count, at=None):
        self.v, self.n, self.at = v, count, at


class RankMap:
    """pd.Series(np.arange(len(u)), index=u) for u = col.unique(): maps a value to its first-appearance rank"""

    def __init__(self, uniq):
        self.uniq = uniq


@vm("unique")
def v_unique(ex, st, o, args, kwargs, node):
    v = st.get(o)
    u = fresh(I, "n_unique")
    st.assume(u >= 0)
    st.assume(u <= to_z3(v.n))
    used(ex, "Series.unique(): distinct values in order of first appearance")
    return UniqueOf(v, u)


@builtin("pandas.unique")
def pd_unique(ex, st, args, kwargs, node):
    if len(args) != 1 or kwargs or not isinstance(st.get(args[0]), Vec):
        raise Unsupported("pd.unique of a non-vector")
    u = v_unique(ex, st, args[0], [], {}, node)
    # the elements themselves: value j is the one first seen at position first(j); first is strictly increasing, the values
    # are pairwise distinct and every element of the vector is one of them
    v = u.v
    n, m = to_z3(v.n), to_z3(u.n)
    F, G = z3.Function(fresh_name("first_seen"), I, I), z3.Function(fresh_name("unique_no"), I, I)
    j, j2, k = fresh(I, "j"), fresh(I, "j"), fresh(I, "k")
    with binding(j, j2, k):
        ej, ej2, ek, egk = to_z3(v.at(F(j))), to_z3(v.at(F(j2))), to_z3(v.at(k)), to_z3(v.at(F(G(k))))
    st.assume((m == 0) == (n == 0))
    st.assume(z3.ForAll([j], z3.Implies(z3.And(0 <= j, j < m), z3.And(0 <= F(j), F(j) < n)), patterns=[F(j)]))
    st.assume(z3.ForAll([j, j2], z3.Implies(z3.And(0 <= j, j < j2, j2 < m), z3.And(F(j) < F(j2), ej != ej2))))
    st.assume(z3.ForAll([k], z3.Implies(z3.And(0 <= k, k < n), z3.And(0 <= G(k), G(k) < m, egk == ek, F(G(k)) <= k)), patterns=[G(k)]))
    u.at = lambda jj: v.at(F(to_z3(jj)))
    return u


_pd_series_plain = BUILTINS["pandas.Series"]


def pd_series_rank(ex, st, args, kwargs, node):
    idx = st.get(kwargs["index"]) if "index" in kwargs else None
    if isinstance(idx, UniqueOf):
        v = st.get(args[0])
        k = fresh(I, "k")
        if not (isinstance(v, Vec) and z3.is_true(z3.simplify(to_z3(v.at(k)) == k)) and
                z3.is_true(z3.simplify(to_z3(v.n) == to_z3(idx.n)))):
            raise Unsupported("pd.Series(values, index=col.unique()) other than np.arange(len(unique))")
        return RankMap(idx)
    return _pd_series_plain(ex, st, args, kwargs, node)


BUILTINS["pandas.Series"] = pd_series_rank
_v_map_plain = METHODS[(Vec, "map")]


@vm("map")
def v_map_rank(ex, st, o, args, kwargs, node):
    f = st.get(args[0])
    if not isinstance(f, RankMap):
        return _v_map_plain(ex, st, o, args, kwargs, node)
    v = st.get(o)
    if f.uniq.v.at is not v.at:
        raise Unsupported("rank table of another column")
    used(ex, "col.map(Series(arange(len(u)), index=u)) with u = col.unique(): first-appearance rank of each value "
             "(equal values equal ranks; a value whose rank is smaller than an earlier row's appeared before that row)")
    R = z3.Function(fresh_name("rank"), I, I)
    n, U = to_z3(v.n), to_z3(f.uniq.n)
    a, b, j = fresh(I, "a"), fresh(I, "b"), fresh(I, "j")
    with binding(a, b, j):
        ea, eb, ej = v.at(a), v.at(b), v.at(j)
    st.assume(z3.ForAll([a], z3.Implies(z3.And(0 <= a, a < n), z3.And(0 <= R(a), R(a) < U))))
    st.assume(z3.ForAll([a, b], z3.Implies(z3.And(0 <= a, a < n, 0 <= b, b < n), (R(a) == R(b)) == z3eq(ea, eb))))
    st.assume(z3.ForAll([a, b], z3.Implies(z3.And(0 <= a, a < b, b < n, R(b) < R(a)),
                                           z3.Exists([j], z3.And(0 <= j, j < a, z3eq(ej, eb))))))
    return st.alloc(Vec(v.n, lambda k: R(to_z3(k)), idx=v.idx, elt=dsl.Int, kind="series"))


class GroupBy:
    def __init__(self, tabref, keys, cols=None):
        self.tabref, self.keys, self.cols = tabref, keys, cols


@tm("groupby")
def t_groupby(ex, st, o, args, kwargs, node):
    keys = st.get(args[0]) if args else None
    if isinstance(keys, ListV):
        keys = [st.get(x) for x in keys.items]
    elif isinstance(keys, str):
        keys = [keys]
    opts = {k: st.get(v) for k, v in kwargs.items()}
    if not keys or not all(isinstance(k, str) for k in keys) or opts.get("sort", True) is not False:
        raise Unsupported("groupby other than groupby([columns], sort=False)")
    if set(opts) - {"sort", "as_index", "group_keys"}:
        raise Unsupported("groupby options %s" % sorted(opts))
    return GroupBy(o, keys)


@method(GroupBy, "__getitem__")
def gb_getitem(ex, st, o, args, kwargs, node):
    g = st.get(o)
    return GroupBy(g.tabref, g.keys, st.get(args[0]))


@method(GroupBy, "apply")
def gb_apply(ex, st, o, args, kwargs, node):
    """groupby([key], sort=False)[cols].apply(f) where the key column is non-decreasing along the rows (obligation):
    the groups are then the maximal runs of equal key, in row order; f (a function under contract returning a one-row
    table) is applied to each run and the results are concatenated."""
    g = st.get(o)
    f = st.get(args[0])
    t = st.get(g.tabref)
    if len(g.keys) != 1 or not isinstance(f, Func) or f.kind != "repo" or kwargs or len(args) != 1:
        raise Unsupported("groupby(...).apply: one key column and a repository function under contract")
    c = dsl.CONTRACTS.get(f.target)
    if c is None or not isinstance(c.returns, dsl.TabT) or not c.returns.cols:
        raise Unsupported("groupby(...).apply(f): f needs a contract with a typed one-row table result")
    key = t.cols[g.keys[0]]
    n = to_z3(t.n)
    line = getattr(node, "lineno", None)
    a = fresh(I, "a")
    with binding(a):
        adj = z3.Implies(z3.And(0 <= a, a + 1 < n), to_z3(key(a)) <= to_z3(key(a + 1)))
    ex.oblig("groupby_key_sorted", "L%s" % line, st, z3.ForAll([a], adj), line=line)
    used(ex, "groupby(key, sort=False).apply(f) on a non-decreasing key: groups = maximal runs of equal key, in order "
             "(adjacent-monotone => monotone is lemma adjacent_monotone)")
    G = fresh(I, "n_groups")
    lo = z3.Function(fresh_name("grp_lo"), I, I)
    r, k2 = fresh(I, "r"), fresh(I, "k")
    with binding(r, k2):
        kk = to_z3(key(k2))
        klo = to_z3(key(lo(r)))
        kprev = to_z3(key(lo(r) - 1))
    hi = lambda x: lo(x + 1)
    st.assume(z3.And(G >= 0, G <= n, (G == 0) == (n == 0), lo(0) == 0, lo(G) == n))
    st.assume(z3.ForAll([r], z3.Implies(z3.And(0 <= r, r < G), z3.And(0 <= lo(r), lo(r) < hi(r), hi(r) <= n))))
    # the same fact, triggered on the upper boundary (so that lo(r) >= 1 is found for r >= 1 without solving r' + 1 = r)
    st.assume(z3.ForAll([r], z3.Implies(z3.And(1 <= r, r <= G), z3.And(0 <= lo(r - 1), lo(r - 1) < lo(r), lo(r) <= n)),
                        patterns=[lo(r)]))
    st.assume(z3.ForAll([r, k2], z3.Implies(z3.And(0 <= r, r < G, lo(r) <= k2, k2 < hi(r)), kk == klo)))
    st.assume(z3.ForAll([r], z3.Implies(z3.And(1 <= r, r < G), kprev < klo)))
    # f on each run: result row r satisfies f's postcondition for the sub-table of run r
    cols = g.cols if g.cols is not None else list(t.cols)
    cols = [st.get(x) for x in (cols.items if isinstance(cols, ListV) else cols)]
    fn_node, _m, _c = front.find_def(f.target)
    pname = fn_node.args.args[0].arg
    out_cols = {}
    for cn, ct in c.returns.cols.items():
        if cn in c.returns.opt and cn not in cols:
            continue
        if isinstance(ct, dsl._NReal):
            A, Nn = z3.Function(fresh_name("grp_" + cn), I, R), z3.Function(fresh_name("grp_" + cn + "_null"), I, B)
            out_cols[cn] = (lambda x, A=A, Nn=Nn: NF(Nn(to_z3(x)), A(to_z3(x))))
        else:
            A = z3.Function(fresh_name("grp_" + cn), I, sort_of(ex.ctx, ct))
            out_cols[cn] = (lambda x, A=A: A(to_z3(x)))
    rr = fresh(I, "r")
    with binding(rr):
        sub = Tab(hi(rr) - lo(rr), {cn: (lambda j, fcol=t.cols[cn]: fcol(to_z3(j) + lo(rr))) for cn in cols}, Idx("group"),
                  {cn: t.elts.get(cn) for cn in cols})
        row = Tab(1, {cn: (lambda j, fc=fc: fc(rr)) for cn, fc in out_cols.items()}, RangeIdx(1), dict(c.returns.cols))
        s2 = st.fork()
        s2.assume(z3.And(0 <= rr, rr < G))
        npc = len(s2.pc)
        env = {pname: s2.alloc(sub), "result": s2.alloc(row)}
        for rq in c.requires:
            pre = ex.spec_formula(rq, dict(env), s2)
            ex.oblig("call_pre", "%s@L%s(group)" % (c.key.split("::")[1], line), s2, pre, line=line)
        ex.assume_mode += 1
        try:
            posts = []
            for _lab, txt in c.ensures:
                n0 = len(s2.pc)
                pf = _b(ex.spec_formula(txt, dict(env), s2))
                posts.append((_lab, list(s2.pc[n0:]), pf))
        finally:
            ex.assume_mode -= 1
    ex.ctx.used_contracts.add(c.key)
    st.heap.update({k: v for k, v in s2.heap.items() if k not in st.heap})
    # one assumption per clause of f (tagged with the clause's label, so that a clause of the caller can name what it needs)
    tags = dict(st.ghost.get("inv_tags", {}))
    for _lab, defs, pf in posts:
        fact = z3.ForAll([rr], z3.Implies(z3.And(0 <= rr, rr < G), z3.And(list(defs) + [pf])))
        st.assume(fact)
        tags[fact.get_id()] = (_lab, fact, "callee")
    st.ghost = dict(st.ghost)
    st.ghost["inv_tags"] = tags
    st.ghost = dict(st.ghost)
    st.ghost["view_groups"] = (G, lo)
    return st.alloc(Tab(G, out_cols, Idx("groups"), dict(c.returns.cols)))


@builtin("group_lo")
def sp_group_lo(ex, st, args, kwargs, node):
    """group_lo(r): first row of the r-th group formed by the last groupby(...).apply (spec language); group_lo(n_groups)
    is the row count"""
    g = st.ghost.get("view_groups")
    if g is None:
        raise SpecError("group_lo() without a groupby")
    return g[1](to_z3(st.get(args[0])))


@builtin("n_groups")
def sp_n_groups(ex, st, args, kwargs, node):
    g = st.ghost.get("view_groups")
    if g is None:
        raise SpecError("n_groups() without a groupby")
    return g[0]


# =============================================================================== tuple-labelled indexes (join by key)
class TupIndex:
    """pd.Index of tuples (e.g. genomic coordinates): position k -> tuple of terms"""

    def __init__(self, n, at, token=None):
        self.n, self.at, self.token = n, at, token


def _tup_eq(a, b):
    a = tuple(a.f.values()) if isinstance(a, Rec) else tuple(a)
    b = tuple(b.f.values()) if isinstance(b, Rec) else tuple(b)
    if len(a) != len(b):
        return z3.BoolVal(False)
    return z3.And([_b(z3eq(x, y)) for x, y in zip(a, b)] + [z3.BoolVal(True)])


@builtin("pandas.Index")
def pd_index(ex, st, args, kwargs, node):
    v = st.get(args[0])
    if isinstance(v, (Seq, IterV)) and not kwargs:
        probe = v.at(z3.IntVal(0))
        if isinstance(probe, (Rec, tuple)):
            used(ex, "pd.Index(rows): an index whose labels are the row tuples")
            return TupIndex(v.n, v.at)
    raise Unsupported("pd.Index(%r)" % (v,))


@tm("set_index")
def t_set_index(ex, st, o, args, kwargs, node):
    t = st.get(o)
    ix = st.get(args[0]) if len(args) == 1 and not kwargs else None
    if isinstance(ix, TupIndex):
        line = getattr(node, "lineno", None)
        ex.oblig("len_eq", "L%s" % line, st, to_z3(ix.n) == to_z3(t.n), line=line)
        tok = ix.token or Idx("tuples")
        tok.tlabels = ix.at
        return st.alloc(Tab(t.n, t.cols, tok, t.elts))
    if isinstance(args[0], Ref) and args[0].addr in _TOKENS and isinstance(ix, Vec) and ix.kind == "index":
        tok, off = _TOKENS[args[0].addr]
        if off != 0:
            raise Unsupported("set_index with a shifted index")
        line = getattr(node, "lineno", None)
        ex.oblig("len_eq", "L%s" % line, st, to_z3(ix.n) == to_z3(t.n), line=line)
        return st.alloc(Tab(t.n, t.cols, tok, t.elts))
    raise Unsupported("DataFrame.set_index(%r)" % (ix,))


@method(TupIndex, "duplicated")
def ti_duplicated(ex, st, o, args, kwargs, node):
    ix = st.get(o)
    if args or kwargs:
        raise Unsupported("Index.duplicated(keep=...)")
    used(ex, "Index.duplicated(): a label is marked when an equal label occurs earlier")

    def at(k):
        j = fresh(I, "j")
        with binding(j):
            body = z3.And(0 <= j, j < to_z3(k), _tup_eq(ix.at(j), ix.at(k)))
        return z3.Exists([j], body)
    return st.alloc(Vec(ix.n, at, kind="array"))


def tab_reindex_by_labels(ex, st, t, target, node):
    """DataFrame.reindex(index=labels) on a tuple-labelled frame without duplicate labels: row k of the result is the row
    of the frame whose label equals labels[k]; where there is none, every cell is missing."""
    src = getattr(t.idx, "tlabels", None)
    if src is None:
        raise Unsupported("reindex(index=) of a frame that is not tuple-labelled")
    used(ex, "DataFrame.reindex(index=labels): label lookup; rows without a matching label are all-missing")
    pos = z3.Function(fresh_name("pos"), I, I)
    nref, nt = to_z3(t.n), to_z3(target.n)

    def has(k):
        j = fresh(I, "j")
        with binding(j):
            return z3.Exists([j], z3.And(0 <= j, j < nref, _tup_eq(src(j), target.at(k))))
    k = fresh(I, "k")
    with binding(k):
        hk = has(k)
        fact = z3.Implies(z3.And(0 <= k, k < nt, hk), z3.And(0 <= pos(k), pos(k) < nref, _tup_eq(src(pos(k)), target.at(k))))
    st.assume(z3.ForAll([k], fact))
    cols, elts = {}, {}
    for c, f in t.cols.items():
        probe = f(z3.IntVal(0))
        pz = probe.val if isinstance(probe, NF) else to_z3(probe)
        if pz.sort() in (I, R):
            def col(kk, f=f):
                x = f(pos(to_z3(kk)))
                nul = z3.Not(has(kk))
                if isinstance(x, NF):
                    return NF(z3.Or(nul, x.null), x.val)
                return NF(nul, to_real(x) if to_z3(x).sort() == I else to_z3(x))
            cols[c] = col
            elts[c] = dsl.NReal
        else:
            cols[c] = (lambda kk, f=f: f(pos(to_z3(kk))))       # text cells: unspecified where missing
            elts[c] = t.elts.get(c)
    tok = target.token or Idx("tuples")
    tok.tlabels = target.at
    st.ghost = dict(st.ghost)
    st.ghost["view_matchpos"] = pos
    return st.alloc(Tab(target.n, cols, tok, elts))


_t_reindex_cols = METHODS[(Tab, "reindex")]


@tm("reindex")
def t_reindex_any(ex, st, o, args, kwargs, node):
    if not args and set(kwargs) == {"index"}:
        tgt = st.get(kwargs["index"])
        if isinstance(tgt, TupIndex):
            return tab_reindex_by_labels(ex, st, st.get(o), tgt, node)
        raise Unsupported("reindex(index=%r)" % (tgt,))
    return _t_reindex_cols(ex, st, o, args, kwargs, node)


@builtin("match_pos")
def sp_match_pos(ex, st, args, kwargs, node):
    """match_pos(k): the row of the reindexed frame's source that was matched to label k (spec language)"""
    f = st.ghost.get("view_matchpos")
    if f is None:
        raise SpecError("match_pos() without a reindex(index=...)")
    return f(to_z3(st.get(args[0])))


@builtin("numpy.fromiter")
def np_fromiter(ex, st, args, kwargs, node):
    """np.fromiter(iterable, dtype, count): the array of the iterable's items (count must be its length)"""
    n, elem = ex.iter_desc(args[0], st)
    if len(args) >= 3:
        cnt = st.get(args[2])
        line = getattr(node, "lineno", None)
        ex.oblig("len_eq", "L%s" % line, st, to_z3(cnt) == to_z3(n), line=line)
    return st.alloc(Vec(n, lambda k: elem(k), kind="array"))

"""Repository classes (real method bodies are executed), comprehensions, with/try, strings."""
import ast
import os

import z3

from .values import *   # noqa
from .lib import *      # noqa
from .lib import _simpb
from .engine import _b, _pick, OptV, IterV, ClassV, Frame
from . import front
from contracts import dsl


# =============================================================================== classes
def find_class(ex, name):
    """Locate a repository class by name (searching the modules that define the known hierarchy)."""
    for rel in ("cnvlib/cnary.py", "skgenome/gary.py", "cnvlib/vary.py"):
        m = front.load(rel)
        if name in m.classes:
            return m.classes[name], m
    raise Unsupported("unknown class " + name)


def mro(ex, name):
    out = []
    cur = name
    while True:
        ci, m = find_class(ex, cur)
        out.append((ci, m))
        bases = [b.split(".")[-1] for b in ci.bases if b not in ("object",)]
        if not bases:
            break
        cur = bases[0]
    return out


def class_is_sub(ex, cls, base):
    return any(ci.name == base for ci, _ in mro(ex, cls))


def find_method(ex, clsname, name, skip=0):
    for ci, m in mro(ex, clsname)[skip:]:
        if name in ci.methods:
            cands = ci.methods[name]
            node = cands[0]
            for c in cands:
                decos = [ast.unparse(d) for d in c.decorator_list]
                if not any(d.endswith(".setter") for d in decos):
                    node = c
                    break
            return node, ci, m
        if name in ci.attrs:
            return ci.attrs[name], ci, m
    return None, None, None


def call_method(ex, st, selfref, clsname, name, args, kwargs, node=None, skip=0):
    fnode, ci, m = find_method(ex, clsname, name, skip)
    if fnode is None:
        raise Unsupported("no method %s.%s" % (clsname, name))
    key = "%s::%s.%s" % (m.rel, ci.name, name)
    return ex.call_repo(key, [selfref] + list(args), kwargs, st, node)


def obj_attr(ex, st, o, v, attr, node):
    if attr in v.f:
        return [(st, v.f[attr])]
    if attr == "__class__":
        return [(st, ClassV(None, v.cls))]
    ek = "ext::%s.%s" % (v.cls, attr)
    if ek in dsl.CONTRACTS:
        return [(st, Func("ext", ek, bound=o))]       # assumed contract of a library class's method
    fnode, ci, m = find_method(ex, v.cls, attr)
    if fnode is None:
        ek = "ext::%s.%s" % (v.cls, attr)
        if ek in dsl.CONTRACTS:
            return [(st, Func("ext", ek, bound=o))]       # assumed contract of a library class's method
        raise Unsupported("attribute %s.%s" % (v.cls, attr))
    if not isinstance(fnode, ast.FunctionDef):
        # class attribute
        return [(st, class_attr_value(ex, st, fnode, m))]
    decos = [ast.unparse(d) for d in fnode.decorator_list]
    key = "%s::%s.%s" % (m.rel, ci.name, attr)
    if "property" in decos:
        return ex.call_repo(key, [o], {}, st, node)
    if "classmethod" in decos:
        return [(st, Func("repo", key, bound=ClassV(m.rel, v.cls)))]
    if "staticmethod" in decos:
        return [(st, Func("repo", key))]
    return [(st, Func("repo", key, bound=o))]


def class_attr(ex, st, c, attr):
    fnode, ci, m = find_method(ex, c.name, attr)
    if fnode is None:
        raise Unsupported("class attribute %s.%s" % (c.name, attr))
    if not isinstance(fnode, ast.FunctionDef):
        return [(st, class_attr_value(ex, st, fnode, m))]
    decos = [ast.unparse(d) for d in fnode.decorator_list]
    key = "%s::%s.%s" % (m.rel, ci.name, attr)
    if "classmethod" in decos:
        return [(st, Func("repo", key, bound=c))]
    return [(st, Func("repo", key))]


def class_attr_value(ex, st, expr, m):
    """Value of a class-level assignment: literal, or evaluated in the defining module's scope
    (e.g. `_required_dtypes = (str, int, int)`)."""
    try:
        return ex.lift(ast.literal_eval(expr))
    except Exception:
        pass
    from .engine import State
    fr = Frame("class::" + m.rel, m, None, None, None)
    ex.frames.append(fr)
    try:
        s2 = State(pc=st.pc, heap=st.heap)
        return ex.ev1(expr, s2)
    finally:
        ex.frames.pop()


def obj_setattr(ex, st, o, v, attr, val, node):
    fnode, ci, m = find_method(ex, v.cls, attr)
    if fnode is not None and isinstance(fnode, ast.FunctionDef):
        # property with setter
        for cand in ci.methods[attr]:
            decos = [ast.unparse(d) for d in cand.decorator_list]
            if any(d.endswith(".setter") for d in decos):
                raise Unsupported("property setter " + attr)
    f = dict(v.f)
    f[attr] = val
    st.put(o, Obj(v.cls, f))
    return [st]


def construct(ex, st, c, args, kwargs, node):
    """Class call: allocate, run the real __init__."""
    ref = st.alloc(Obj(c.name, {}))
    outs = []
    for s, _ in call_method(ex, st, ref, c.name, "__init__", args, kwargs, node):
        outs.append((s, ref))
    return outs


def _dunder(ex, st, o, v, name, args, node=None):
    r = call_method(ex, st, o, v.cls, name, args, {}, node)
    return r


def obj_truth(ex, st, v, ref=None):
    """Python truth of an instance: its real __bool__, else __len__ != 0 (single-path methods only)"""
    if isinstance(ref, Ref):
        for name in ("__bool__", "__len__"):
            fnode, _ci, _m = find_method(ex, v.cls, name)
            if fnode is None:
                continue
            outs = _dunder(ex, st, ref, v, name, [])
            if len(outs) != 1 or outs[0][0] is not st or outs[0][0].ctl:
                raise Unsupported("truth of object: %s.%s has several outcomes" % (v.cls, name))
            r = outs[0][1]
            return ex.truth(r, st)
    raise Unsupported("truth of object (use len())")


def obj_len(ex, st, o, v):
    r = _dunder(ex, st, o, v, "__len__", [])
    if len(r) != 1:
        raise Unsupported("__len__ forks")
    return r[0][1]


def _heap_items(st):
    from .engine import LAZY_HEAP
    return list(st.heap.items()) + list(LAZY_HEAP.items())


def obj_iter(ex, st, v):
    # GenomicArray.__iter__ = self.data.itertuples(index=False)
    for ref_addr, hv in _heap_items(st):
        if hv is v:
            r = _dunder(ex, st, Ref(ref_addr), v, "__iter__", [])
            if len(r) != 1:
                raise Unsupported("__iter__ forks")
            return r[0][1]
    raise Unsupported("iteration over a detached object")


def obj_contains(ex, st, v, item):
    for ref_addr, hv in _heap_items(st):
        if hv is v:
            r = _dunder(ex, st, Ref(ref_addr), v, "__contains__", [item])
            if len(r) != 1:
                raise Unsupported("__contains__ forks")
            return r[0][1]
    raise Unsupported("`in` on a detached object")


def obj_getitem(ex, st, o, v, i, node):
    return _dunder(ex, st, o, v, "__getitem__", [i], node)


def obj_setitem(ex, st, o, v, i, val, node):
    return [s for s, _ in _dunder(ex, st, o, v, "__setitem__", [i, val], node)]


# =============================================================================== comprehensions
def comprehension(ex, st, e, kind):
    if len(e.generators) != 1:
        raise Unsupported("nested comprehension")
    g = e.generators[0]
    if g.is_async:
        raise Unsupported("async comprehension")
    out = []
    for s, itv in ex.ev(g.iter, st):
        if s.ctl:
            out.append((s, None))
            continue
        N, elem = ex.iter_desc(itv, s)
        if isinstance(N, int) and N <= 16:
            # concrete length: evaluate each element (conditions must be decidable or are merged out)
            items = []
            keys = []
            cur = [(s, [])]
            for i in range(N):
                nxt = []
                for s1, acc in cur:
                    for s2 in ex.assign(g.target, elem(i), s1):
                        conds = [(s2, True)]
                        keep_paths = []
                        # filters
                        cs = []
                        for cnd in g.ifs:
                            cs.append(ex.truth(ex.ev1(cnd, s2), s2))
                        if all(isinstance(c, bool) for c in cs):
                            if all(cs):
                                if kind == "dict":
                                    kv = ex.ev1(e.key, s2)
                                    vv = ex.ev1(e.value, s2)
                                    nxt.append((s2, acc + [(kv, vv)]))
                                else:
                                    vv = ex.ev1(e.elt, s2)
                                    nxt.append((s2, acc + [vv]))
                            else:
                                nxt.append((s2, acc))
                        elif any(c is False for c in cs):
                            nxt.append((s2, acc))
                        else:
                            # symbolic filter over a fixed-length sequence: path split
                            cond = z3.And([_b(c) for c in cs if not isinstance(c, bool)])
                            if os.environ.get("PYVC_DEBUG_COMP"):
                                print("COMP-FORK", ast.unparse(e)[:120])
                            sT = s2.fork("c")
                            sT.assume(cond)
                            if ex.feasible(sT):
                                if kind == "dict":
                                    nxt.append((sT, acc + [(ex.ev1(e.key, sT), ex.ev1(e.value, sT))]))
                                else:
                                    nxt.append((sT, acc + [ex.ev1(e.elt, sT)]))
                            sF = s2.fork("n")
                            sF.assume(z3.Not(cond))
                            if ex.feasible(sF):
                                nxt.append((sF, acc))
                cur = nxt
            for s1, acc in cur:
                # the comprehension variable does not leak
                if kind == "dict":
                    if not all(is_conc(k) for k, _ in acc):
                        raise Unsupported("dict comprehension with symbolic keys")
                    out.append((s1, s1.alloc(DictV(dict(acc)))))
                elif kind == "set":
                    items = list(acc)
                    out.append((s1, SetV(lambda x, items=items: _simpb(z3.Or([z3eq(i, x) for i in items])) if items else False)))
                elif kind == "gen":
                    out.append((s1, tuple(acc)))
                else:
                    out.append((s1, s1.alloc(ListV(acc))))
            continue
        # symbolic length: element closure; filters -> compress
        if kind in ("dict", "set"):
            raise Unsupported("symbolic-length dict/set comprehension")

        def elt_at(k, s=s):
            s2 = s.fork()
            ss = ex.assign(g.target, elem(k), s2)
            if len(ss) != 1:
                raise Unsupported("comprehension target forks")
            v = ex.ev1(e.elt, ss[0])
            s.heap.update({a: x for a, x in ss[0].heap.items() if a not in s.heap})
            return v

        def cond_at(k, s=s):
            s2 = s.fork()
            ss = ex.assign(g.target, elem(k), s2)
            cs = [_b(ex.truth(ex.ev1(c, ss[0]), ss[0])) for c in g.ifs]
            return z3.And(cs)
        if g.ifs:
            m, sel = compress(ex, s, N, cond_at, "comp")
            n_out, at = m, (lambda k, sel=sel: elt_at(sel(to_z3(k))))
        else:
            n_out, at = N, elt_at
        probe = at(z3.IntVal(0)) if True else None
        if isinstance(probe, (Rec, tuple, Tab, SliceV)) or (isinstance(probe, Ref) and not isinstance(s.get(probe), (int,))):
            out.append((s, Seq(n_out, at)))
        elif kind == "gen":
            it = IterV(n_out, at)
            if g.ifs and isinstance(e.elt, ast.Constant) and isinstance(e.elt.value, int) and not isinstance(e.elt.value, bool):
                # (c for x in xs if cond): remembered as "c where cond", so that sum() of it is a sum of indicators
                it.masked_const = (N, cond_at, e.elt.value)
            out.append((s, it))
        else:
            out.append((s, s.alloc(Vec(n_out, at, kind="list"))))
    return out


# =============================================================================== with / try
def with_stmt(ex, st, n):
    raise Unsupported("with statement")


def try_stmt(ex, st, n):
    """try/except: the body is executed; a modelled `raise` (or a callee contract's raises)
    of a handled exception type transfers to the handler."""
    outs = []
    for s in ex.block(n.body, [st]):
        if s.ctl == "raise":
            handled = False
            for h in n.handlers:
                names = []
                if h.type is None:
                    names = None
                elif isinstance(h.type, ast.Tuple):
                    names = [ast.unparse(x) for x in h.type.elts]
                else:
                    names = [ast.unparse(h.type)]
                if names is None or s.exc in names or "Exception" in names:
                    s.ctl, s.exc = None, None
                    if h.name:
                        s.env[h.name] = Opaque(None, "exception")
                    outs += ex.block(h.body, [s])
                    handled = True
                    break
            if not handled:
                outs.append(s)
        elif s.ctl is None:
            outs += ex.block(n.orelse, [s]) if n.orelse else [s]
        else:
            outs.append(s)
    if n.finalbody:
        res = []
        for s in outs:
            ctl, ret, exc = s.ctl, s.ret, s.exc
            s.ctl = None
            for s2 in ex.block(n.finalbody, [s]):
                if not s2.ctl:
                    s2.ctl, s2.ret, s2.exc = ctl, ret, exc
                res.append(s2)
        outs = res
    return outs


# =============================================================================== strings
def sm(*names):
    return method("str", *names)


def LOWER(ex):
    return ex.ctx.uf("str_lower", S, S)


def atom_lower(ex, a):
    used(ex, "str.lower on name atoms: uninterpreted, exact on the literal names that occur")
    f = ex.ctx.uf("lower_" + a.sort().name(), a.sort(), a.sort())
    ex.ctx.atom_funs.setdefault(("lower", a.sort().name()), f)
    return f(a)


@sm("lower")
def s_lower(ex, st, s, args, kwargs, node):
    if isinstance(s, str):
        return s.lower()
    if is_atom(s):
        return atom_lower(ex, s)
    used(ex, "str.lower abstract (uninterpreted; equal inputs give equal outputs)")
    return LOWER(ex)(s)


@sm("startswith")
def s_startswith(ex, st, s, args, kwargs, node):
    p = st.get(args[0])
    if isinstance(s, str) and isinstance(p, str):
        return s.startswith(p)
    if is_atom(s) and isinstance(p, str):
        used(ex, "str.startswith(<literal>) on name atoms: uninterpreted predicate, exact on literal names")
        f = ex.ctx.uf("startswith_%s_%s" % (p, s.sort().name()), s.sort(), B)
        ex.ctx.atom_funs.setdefault(("startswith", s.sort().name(), p), f)
        return f(s)
    return z3.PrefixOf(to_z3(p), to_z3(s))


@sm("endswith")
def s_endswith(ex, st, s, args, kwargs, node):
    p = st.get(args[0])
    if isinstance(s, str) and isinstance(p, str):
        return s.endswith(p)
    return z3.SuffixOf(to_z3(p), to_z3(s))


@sm("join")
def s_join(ex, st, s, args, kwargs, node):
    v = st.get(args[0])
    if isinstance(v, (ListV, tuple)):
        items = [st.get(x) for x in (v.items if isinstance(v, ListV) else v)]
        out = []
        for i, x in enumerate(items):
            if i:
                out.append(s)
            out.append(x)
        return str_concat(out) if out else ""
    from .values import OpaqueVecApp
    if isinstance(v, (OpaqueVecApp, Vec)):
        # the joined text of a symbolic sequence of names: an unconstrained fresh name (its content is not modelled)
        used(ex, "str.join over a symbolic sequence yields an unconstrained string")
        probe = v.arg.at(z3.IntVal(0)) if isinstance(v, OpaqueVecApp) else v.at(z3.IntVal(0))
        return fresh(to_z3(probe).sort(), "joined")
    raise Unsupported("join of symbolic sequence")


@sm("format")
def s_format(ex, st, s, args, kwargs, node):
    raise Unsupported("str.format")


def str_count(ex, s, ch):
    used(ex, "str.count(<literal>) abstract: a non-negative integer per (string, literal)")
    if isinstance(s, str) and isinstance(ch, str):
        return s.count(ch)
    if not isinstance(ch, str):
        raise Unsupported("str.count of a symbolic needle")
    f = ex.ctx.uf("count_%s" % "".join(c if c.isalnum() else "_%02x" % ord(c) for c in ch), S, I)
    ex.ctx.count_funs = getattr(ex.ctx, "count_funs", {})
    ex.ctx.count_funs[f.name()] = f
    return f(to_z3(s))


@sm("count")
def s_count(ex, st, s, args, kwargs, node):
    r = str_count(ex, s, st.get(args[0]))
    if is_z3(r):
        st.assume(r >= 0)
    return r


@sm("isdigit")
def s_isdigit(ex, st, s, args, kwargs, node):
    if isinstance(s, str):
        return s.isdigit()
    hit = getattr(ex.ctx, "int_strs", {}).get(s.get_id()) if is_z3(s) else None
    if hit is not None and hit[0].eq(s):
        used(ex, "str(n).isdigit() for an int n  <=>  n >= 0")
        return hit[1] >= 0
    used(ex, "str.isdigit = matches [0-9]+")
    return z3.InRe(s, z3.Plus(z3.Range("0", "9")))


# =============================================================================== dict / list methods
def dm(*names):
    return method(DictV, *names)


@dm("copy")
def d_copy(ex, st, o, args, kwargs, node):
    return st.alloc(DictV(st.get(o).d))


@dm("get")
def d_get(ex, st, o, args, kwargs, node):
    d = st.get(o).d
    k = st.get(args[0])
    if not is_conc(k):
        # a symbolic text key against literal keys: the value under the key it equals, else the default
        dflt = st.get(args[1]) if len(args) > 1 else None
        keys = list(d)
        if not keys or not all(isinstance(x, str) for x in keys) or not is_z3(k):
            raise Unsupported("dict.get with symbolic key")
        vals = [st.get(d[x]) for x in keys]
        hit = z3.Or([z3eq(k, x) for x in keys])
        val = vals[-1]
        for x, v in list(zip(keys, vals))[-2::-1]:
            val = merge_val(z3eq(k, x), v, val)
        if dflt is None:
            return OptV(z3.Not(hit), val)
        return merge_val(hit, val, dflt)
    return d.get(k, args[1] if len(args) > 1 else None)


@dm("items")
def d_items(ex, st, o, args, kwargs, node):
    return tuple((k, v) for k, v in st.get(o).d.items())


@dm("keys")
def d_keys(ex, st, o, args, kwargs, node):
    return tuple(st.get(o).d)


@dm("values")
def d_values(ex, st, o, args, kwargs, node):
    return tuple(st.get(o).d.values())


@dm("update")
def d_update(ex, st, o, args, kwargs, node):
    d = dict(st.get(o).d)
    if args:
        other = st.get(args[0])
        if not isinstance(other, DictV):
            raise Unsupported("dict.update(%r)" % (other,))
        d.update(other.d)
    d.update(kwargs)
    if not isinstance(o, Ref):
        raise Unsupported("update of a non-heap dict")
    st.put(o, DictV(d))
    return None


def lm(*names):
    return method(ListV, *names)


@lm("append")
def l_append(ex, st, o, args, kwargs, node):
    if not isinstance(o, Ref):
        raise Unsupported("append to a non-heap list")
    st.put(o, ListV(list(st.get(o).items) + [args[0]]))
    return None


@lm("insert")
def l_insert(ex, st, o, args, kwargs, node):
    if not isinstance(o, Ref):
        raise Unsupported("insert into a non-heap list")
    i = st.get(args[0])
    if not isinstance(i, int) or isinstance(i, bool):
        raise Unsupported("list.insert at a symbolic position")
    items = list(st.get(o).items)
    items.insert(i, args[1])
    st.put(o, ListV(items))
    return None


@lm("extend")
def l_extend(ex, st, o, args, kwargs, node):
    v = st.get(args[0])
    if not isinstance(v, (ListV, tuple)):
        raise Unsupported("extend with symbolic sequence")
    st.put(o, ListV(list(st.get(o).items) + list(v.items if isinstance(v, ListV) else v)))
    return None


@lm("remove")
def l_remove(ex, st, o, args, kwargs, node):
    items = list(st.get(o).items)
    x = st.get(args[0])
    if not is_conc(x) or not all(is_conc(i) for i in items):
        raise Unsupported("list.remove with symbolic elements")
    if x not in items:
        raise Unsupported("list.remove of a missing element (ValueError)")
    items.remove(x)
    st.put(o, ListV(items))
    return None


@lm("copy")
def l_copy(ex, st, o, args, kwargs, node):
    return st.alloc(ListV(st.get(o).items))


@lm("index")
def l_index(ex, st, o, args, kwargs, node):
    items = list(st.get(o).items)
    x = st.get(args[0])
    if is_conc(x) and all(is_conc(i) for i in items) and x in items:
        return items.index(x)
    raise Unsupported("list.index")


# =============================================================================== file-system model (C10: ensure_path)
FS_SORT = z3.ArraySort(S, I)      # path -> content id (0 = no such file)


class FSV:
    """a file-system state: which regular files exist, with which content"""

    def __init__(self, arr):
        self.arr = arr


def fs_now(ex, st):
    fsv = st.ghost.get("fs")
    if fsv is None:
        raise Unsupported("file-system access in a function whose contract has no `fs` ghost state")
    used(ex, "file system = map from path to content (os.path.isfile, os.rename as map update; directories abstract)")
    return fsv


def _path_uf(ex, name):
    return ex.ctx.uf("path_" + name, S, S)


@builtin("os.path.normpath", "os.path.abspath", "os.path.dirname", "os.path.basename")
def os_path_fn(ex, st, args, kwargs, node):
    name = node.func.attr
    v = st.get(args[0])
    return _path_uf(ex, name)(to_z3(v))


@builtin("os.path.isdir")
def os_isdir(ex, st, args, kwargs, node):
    fs_now(ex, st)
    return fresh(B, "isdir")          # directories are not tracked: any answer


@builtin("os.makedirs", "os.mkdir")
def os_makedirs(ex, st, args, kwargs, node):
    fs_now(ex, st)                   # creating a directory creates or changes no regular file
    return None


@builtin("os.path.isfile", "os.path.exists")
def os_isfile(ex, st, args, kwargs, node):
    fsv = fs_now(ex, st)
    return z3.Select(fsv.arr, to_z3(st.get(args[0]))) != 0


@builtin("os.rename")
def os_rename(ex, st, args, kwargs, node):
    fsv = fs_now(ex, st)
    a, b = to_z3(st.get(args[0])), to_z3(st.get(args[1]))
    ex.oblig("rename_source_exists", "L%s" % getattr(node, "lineno", "?"), st, z3.Select(fsv.arr, a) != 0)
    st.ghost = dict(st.ghost)
    st.ghost["fs"] = FSV(z3.Store(z3.Store(fsv.arr, b, z3.Select(fsv.arr, a)), a, z3.IntVal(0)))
    return None


@builtin("isfile")
def sp_isfile(ex, st, args, kwargs, node):
    return z3.Select(st.get(args[0]).arr, to_z3(st.get(args[1]))) != 0


@builtin("content")
def sp_content(ex, st, args, kwargs, node):
    return z3.Select(st.get(args[0]).arr, to_z3(st.get(args[1])))


@builtin("same_fs")
def sp_same_fs(ex, st, args, kwargs, node):
    return st.get(args[0]).arr == st.get(args[1]).arr


def _quant_str(ex, st, e, kind):
    lam = e.args[0]
    name = lam.args.args[0].arg
    v = fresh(S, name)
    s2 = st.fork()
    s2.env[name] = v
    body = _b(ex.truth(ex.ev1(lam.body, s2), s2))
    return [(st, z3.ForAll([v], body) if kind == "forall" else z3.Exists([v], body))]


SPECIAL_FORMS["forall_path"] = lambda ex, st, e: _quant_str(ex, st, e, "forall")
SPECIAL_FORMS["exists_path"] = lambda ex, st, e: _quant_str(ex, st, e, "exists")


@method(Seq, "items")
def seq_items(ex, st, o, args, kwargs, node):
    """an ordered mapping that a contract models as the sequence of its (key, value) pairs: .items() is that sequence"""
    return st.get(o)

"""./check <property> [--tier quick|thorough] [--replay FILE] -- the registered command.

Exit 0: held on everything explored.  Exit 1 + `VIOLATION property=<id> replay=<path>`.
Exit 3: checker error (never a verdict)."""
import hashlib
import json
import os
import subprocess
import sys
import time
import traceback

ROOT = os.path.dirname(os.path.dirname(os.path.abspath(__file__)))
if ROOT not in sys.path:
    sys.path.insert(0, ROOT)

from contracts import dsl                      # noqa: E402
from pyvc import front, solve, verify, canary, refute   # noqa: E402
from pyvc.devrun import load_contracts         # noqa: E402

VENV_PY = os.environ.get("VERIF_VENV_PY", "/venv/bin/python")
KF_PATH = os.path.join(ROOT, "known_findings.txt")
OUT = os.environ.get("VERIF_OUT", ROOT)      # where evidence/ and replays/ are written (default: /verif)


def sh_runner(args, timeout=3600):
    env = dict(os.environ)
    env["PYTHONPATH"] = ROOT + os.pathsep + front.REPO
    env["VERIF_REPO"] = front.REPO
    p = subprocess.run([VENV_PY, "-m", "runner.rt"] + args, cwd=ROOT, env=env, capture_output=True, text=True,
                       timeout=timeout)
    return p


def load_known():
    out = []
    if not os.path.exists(KF_PATH):
        return out
    for line in open(KF_PATH):
        line = line.strip()
        if not line or line.startswith("#"):
            continue
        kind, _, rest = line.partition(":")
        kind = kind.strip()
        if kind not in ("finding", "fixed"):
            continue
        head, _, text = rest.partition(" : ")
        f = dict(kind=kind, text=text.strip(), raw=line)
        for tok in head.split():
            if "=" in tok:
                k, _, v = tok.partition("=")
                f[k] = v
        out.append(f)
    return out


def matches_finding(f, prop, function, clause, inputs=None):
    if f["kind"] != "finding" or f.get("property") != prop:
        return False
    if f.get("function") and f["function"] != function:
        return False
    if f.get("clause") and not clause.startswith(f["clause"]):
        return False
    return True


def write_replay(prop, rec):
    os.makedirs(os.path.join(OUT, "replays"), exist_ok=True)
    h = hashlib.sha256(json.dumps(rec, sort_keys=True, default=str).encode()).hexdigest()[:12]
    path = os.path.join(OUT, "replays", "%s-%s.json" % (prop, h))
    with open(path, "w") as fh:
        json.dump(rec, fh, indent=1, default=str)
    return os.path.relpath(path, OUT)


def obligation_summary(obls, results):
    """per (function, kind): count, discharged, slowest"""
    agg = {}
    for ob, r in zip(obls, results):
        if ob.expect != "unsat":
            continue
        a = agg.setdefault((ob.fn, ob.kind), dict(function=ob.fn, kind=ob.kind, count=0, discharged=0, max_seconds=0.0,
                                                  backends={}))
        a["count"] += 1
        if r["ok"]:
            a["discharged"] += 1
            a["backends"][r["backend"]] = a["backends"].get(r["backend"], 0) + 1
        a["max_seconds"] = round(max(a["max_seconds"], r["seconds"]), 3)
    return sorted(agg.values(), key=lambda a: (a["function"], a["kind"]))


def run_property(prop, tier, seed):
    t0 = time.time()
    load_contracts()
    keys = [k for k, c in dsl.CONTRACTS.items() if prop in c.props and not c.trusted]
    trusted = [k for k, c in dsl.CONTRACTS.items() if prop in c.props and c.trusted]
    lemmas = [l for l, lm in dsl.LEMMAS.items() if prop in lm.props]
    timeout_ms = 10000 if tier == "quick" else 60000
    from pyvc import par
    infos, obls, agg = par.symexec(keys, [l for l in lemmas])
    t_sym = time.time() - t0
    results = par.discharge(obls, timeout_ms=timeout_ms)
    t_solve = time.time() - t0 - t_sym

    class _C:
        pass
    ctx = _C()
    ctx.obls = obls
    ctx.used_lib, ctx.used_contracts, ctx.used_inline, ctx.used_trusted = (
        agg["used_lib"], agg["used_contracts"], agg["used_inline"], agg["used_trusted"])
    known = load_known()
    lines = []
    violations = []       # dicts: function, clause/obligation, replay path, reproduced
    known_hits = []
    undecided = []
    unsupported = [i for i in infos if i["status"] != "ok"]
    # ---------------------------------------------------------------- vacuity
    for ob, r in zip(ctx.obls, results):
        if ob.expect == "sat" and r.get("vacuous"):
            print("CHECKER-ERROR: contradictory precondition: %s" % ob.name)
            return 3, None
    n_obl = sum(1 for ob in ctx.obls if ob.expect == "unsat")
    if n_obl == 0 and not trusted:
        print("CHECKER-ERROR: no obligations generated for %s" % prop)
        return 3, None
    # ---------------------------------------------------------------- failed obligations -> refute -> replay
    failed = [(ob, r) for ob, r in zip(ctx.obls, results) if ob.expect == "unsat" and not r["ok"]]
    by_fn = {}
    for ob, r in failed:
        by_fn.setdefault(ob.fn, []).append((ob, r))
    replay_jobs = []
    for fn, obs in by_fn.items():
        if fn.startswith("lemma"):
            continue
        try:
            cands, notes = refute.refute_function(fn, budget_s=30 if tier == "quick" else 120)
        except Exception:
            cands, notes = [], [traceback.format_exc()[-300:]]
        for c in cands:
            replay_jobs.append(dict(function=fn, inputs=c["inputs"], obligation=c["obligation"], sizes=c["sizes"]))
    reproduced = {}
    if replay_jobs:
        tmp_in = os.path.join(OUT, "replays", ".batch_in_%s.json" % prop)
        tmp_out = os.path.join(OUT, "replays", ".batch_out_%s.json" % prop)
        os.makedirs(os.path.dirname(tmp_in), exist_ok=True)
        json.dump(replay_jobs, open(tmp_in, "w"), default=str)
        p = sh_runner(["batch", tmp_in, tmp_out])
        if p.returncode == 0 and os.path.exists(tmp_out):
            for job, r in zip(replay_jobs, json.load(open(tmp_out))):
                if r["status"] == "violation":
                    reproduced.setdefault(job["function"], []).append((job, r))
        for f in (tmp_in, tmp_out):
            if os.path.exists(f):
                os.unlink(f)
    # ---------------------------------------------------------------- bounded stand-in (run-time contracts on the real code)
    n_si = int(os.environ.get("VERIF_STANDIN_N", "150" if tier == "quick" else "2000"))
    si_path = os.path.join(OUT, "replays", ".standin_%s.json" % prop)
    os.makedirs(os.path.dirname(si_path), exist_ok=True)
    si = None
    p = sh_runner(["standin", prop, str(n_si), str(seed), si_path, tier])
    if p.returncode != 0 or not os.path.exists(si_path):
        print("CHECKER-ERROR: stand-in runner failed:\n%s" % (p.stderr[-2000:],))
        return 3, None
    si = json.load(open(si_path))
    os.unlink(si_path)
    # ---------------------------------------------------------------- verdicts
    sha = {}
    for k in keys:
        try:
            sha[k] = front.func_sha(k)
        except Exception:
            sha[k] = None

    def report(function, clause, rec, reproduced_flag):
        for f in known:
            if matches_finding(f, prop, function, clause):
                if f not in known_hits:
                    known_hits.append(f)
                return
        if any(v["function"] == function and v["clause"] == clause for v in violations):
            return
        path = write_replay(prop, rec)
        violations.append(dict(function=function, clause=clause, replay=path, reproduced=reproduced_flag))

    for fn, obs in by_fn.items():
        reps = reproduced.get(fn, [])
        if reps:
            job, r = reps[0]
            report(fn, r["clause"], dict(property=prop, function=fn, obligation=job["obligation"], source_sha=sha.get(fn),
                                         solver="z3-5.1 bounded refuter (sizes %s)" % job["sizes"], inputs=job["inputs"],
                                         observed=r.get("observed"), clause=r["clause"], detail=r.get("detail"),
                                         reproduced=True,
                                         failed_obligations=[dict(name=o.name, verdict=rr["verdict"]) for o, rr in obs][:20]),
                   True)
        else:
            # maybe the stand-in reproduces it; else report the obligation itself
            si_v = [v for v in si["violations"] if v["function"] == fn]
            if si_v:
                continue   # handled below with its input
            ob, r = obs[0]
            kind = ob.name.split("/")[-1].split(":")[0]
            report(fn, kind + ":" + ob.name.split(":", 3)[-1] if False else ob.name.split("/", 2)[-1].split("@")[0],
                   dict(property=prop, function=fn, obligation=ob.name, source_sha=sha.get(fn),
                        solver=r.get("backend") or "z3-5.1/cvc5-1.0/z3-4.8 (all undecided)", verdict=r["verdict"],
                        reason=r.get("reason"), tried=r.get("tried"), model=(r.get("model") or "")[:4000],
                        smt2=r.get("smt2"), reproduced=False, inputs=None,
                        failed_obligations=[dict(name=o.name, verdict=rr["verdict"]) for o, rr in obs][:20]),
                   False)
    for v in si["violations"]:
        report(v["function"], v["clause"], dict(property=prop, function=v["function"], obligation="runtime:" + v["clause"],
                                                source_sha=sha.get(v["function"]), solver="bounded stand-in (run-time contract)",
                                                inputs=v["inputs"], observed=v.get("observed"), clause=v["clause"],
                                                detail=v.get("detail"), reproduced=True), True)
    # lemma failures are checker errors on any tree (they do not depend on the repository)
    lemma_fail = [ob.name for ob, r in failed if ob.fn.startswith("lemma")]
    # ---------------------------------------------------------------- canaries
    t_can = time.time()
    # (functions with an open obligation -- a listed finding -- are left out: every mutant of them would count as killed)
    bad_fns = {ob.fn for ob, _r in failed}
    can = canary.run_canaries([k for k in keys if k not in bad_fns], timeout_ms=4000,
                              limit_per_fn=1 if tier == "quick" else None) if not violations and not lemma_fail else []
    t_can = time.time() - t_can
    surv = [c for c in can if not c["killed"] and c["status"] == "survived"]
    # ---------------------------------------------------------------- evidence
    backends = {}
    solver_time = 0.0
    for ob, r in zip(ctx.obls, results):
        if r["ok"] and ob.expect == "unsat":
            backends[r["backend"]] = backends.get(r["backend"], 0) + 1
        solver_time += r["seconds"]
    discharged = sum(1 for ob, r in zip(ctx.obls, results) if ob.expect == "unsat" and r["ok"])
    fn_table = []
    for i in infos:
        k = i["key"]
        tierf = "deductive" if i["status"] == "ok" else "bounded"
        fn_table.append(dict(function=k, sha256=sha.get(k), tier=tierf, cases=i.get("cases"), paths=i.get("paths"),
                             obligations=sum(1 for ob in ctx.obls if ob.fn == k and ob.expect == "unsat"),
                             note=i.get("detail", "")))
    for k in trusted:
        cc = dsl.CONTRACTS[k]
        fn_table.append(dict(function=k, tier="bounded" if cc.bounded else "assumed-glue",
                             note=("run-time contract on generated inputs (never counted as proved)" if cc.bounded else
                                   "contract assumed at call sites (trusted=True)") + ((": " + cc.notes) if cc.notes else "")))
    assumptions = sorted(ctx.used_lib) + [
        "floats are modelled as mathematical reals (no rounding, no inf); NaN only in columns declared nullable",
        "numpy int64 coordinates do not overflow",
        "pandas >= 3 copy-on-write semantics",
        "termination is not proved",
        "logging calls are dropped by the extraction; decorators, imports and constants are resolved from the real source",
    ] + ["callee contract assumed at call sites (proved separately): " + k for k in sorted(ctx.used_contracts)] \
      + ["repository function executed by inlining its real body: " + k for k in sorted(ctx.used_inline)] \
      + ["trusted (unproved): " + k for k in sorted(ctx.used_trusted)]
    samples = []
    for ob, r in list(zip(ctx.obls, results))[:400]:
        if ob.kind in ("post", "inv_pres") and r.get("smt2") and len(samples) < 2:
            samples.append(dict(obligation=ob.name, verdict=r["verdict"], backend=r["backend"], smt2=r["smt2"][:3000]))
    for f in si["functions"][:3]:
        for s in f["samples"][:1]:
            samples.append(dict(standin_function=f["function"], inputs=s))
    all_ok = not failed and not unsupported
    has_bounded = any(dsl.CONTRACTS[k].bounded for k in trusted)
    # `proof` only when every contract of the property is in the deductive tier and everything discharged;
    # a property that (also) rests on run-time contracts is reported as `other`
    level = "proof" if (all_ok and not has_bounded and n_obl > 0) else "other"
    cov = dict(
        obligations=n_obl, discharged=discharged,
        checker_cmd="./check %s --tier %s  (pyvc: python3-vt + z3 %s; stand-in/replay: %s)" % (
            prop, tier, __import__("z3").get_version_string(), VENV_PY),
        trusted_base=["z3 5.1 / cvc5 1.0 / z3 4.8.12", "pyvc symbolic executor (this repository, policed by canaries)",
                      "assumed library contracts listed under assumptions"],
        functions_under_contract=fn_table,
        obligation_summary=obligation_summary(ctx.obls, results),
        obligations_not_discharged=[dict(name=ob.name, kind=ob.kind, verdict=r["verdict"], backend=r["backend"],
                                         seconds=round(r["seconds"], 3)) for ob, r in zip(ctx.obls, results)
                                    if ob.expect == "unsat" and not r["ok"]][:200],
        backends=backends, solver_time_s=round(solver_time, 2), symexec_time_s=round(t_sym, 2),
        undecided=[ob.name for ob, r in failed if r["verdict"] == "unknown"],
        refuted=[ob.name for ob, r in failed if r["verdict"] == "sat"],
        unsupported=[dict(function=i["key"], reason=i["detail"]) for i in unsupported],
        bounded_standins=[dict(function=f["function"], bound=f["bound"], evaluations=f["evaluations"], valid=f["valid"],
                               distinct_nontrivial=f["distinct"], violations=f["violations"], errors=f["errors"])
                          for f in si["functions"]],
        canaries=dict(run=len(can), killed=sum(1 for c in can if c["killed"]),
                      not_applicable=sum(1 for c in can if c["status"] == "mutation-not-applicable"),
                      survived=[c["key"] + ":" + c["label"] for c in surv], seconds=round(t_can, 1),
                      detail=[dict(function=c["key"], mutation=c["label"], killed_by=c["by"], verdict=c["status"]) for c in can]),
        known_findings=[f["raw"] for f in known_hits],
        evaluations=sum(f["evaluations"] for f in si["functions"]) + n_obl,
        distinct_nontrivial=sum(f["distinct"] for f in si["functions"]) + discharged,
        rule="obligations: one per (function, kind, clause, path) generated from the real AST; stand-in cases: seeded "
             "generator per contract, distinct by JSON of the inputs, non-trivial when a table/vector argument is non-empty",
        samples=samples,
        explanation=("deductive tier: %d obligations generated from the real AST of %d function(s) and %d lemma(s), %d "
                     "discharged by SMT; bounded tier: %d run-time contract(s) evaluated on %d generated cases (bounded "
                     "stand-in, never counted as proved)" % (
                         n_obl, len(keys), len(lemmas), discharged, sum(1 for k in trusted if dsl.CONTRACTS[k].bounded),
                         sum(f["evaluations"] for f in si["functions"]))),
        exhaustive=False,
    )
    ev = dict(property_id=prop, tier=tier, seed=seed, level=level, coverage=cov, assumptions=assumptions,
              wall_s=round(time.time() - t0, 2), violations=len(violations))
    os.makedirs(os.path.join(OUT, "evidence"), exist_ok=True)
    with open(os.path.join(OUT, "evidence", prop + ".json"), "w") as fh:
        json.dump(ev, fh, indent=1, default=str)
    # ---------------------------------------------------------------- output
    print("property %s tier=%s: functions=%d lemmas=%d obligations=%d discharged=%d (symexec %.1fs, solve %.1fs) "
          "stand-in cases=%d canaries=%d/%d killed" % (
              prop, tier, len(keys), len(lemmas), n_obl, discharged, t_sym, t_solve,
              sum(f["evaluations"] for f in si["functions"]), cov["canaries"]["killed"], cov["canaries"]["run"]))
    for f in known_hits:
        print("KNOWN-FINDING: property=%s %s" % (prop, f["text"]))
    if lemma_fail:
        print("CHECKER-ERROR: library lemma not discharged: %s" % lemma_fail[:3])
        return 3, ev
    if surv:
        print("CHECKER-ERROR: must-fail canary still verifies (contract or engine too weak): %s" % [c["key"] + ":" + c["label"] for c in surv])
        return 3, ev
    if unsupported and not violations:
        for i in unsupported:
            print("DEGRADED: %s left the verifiable subset (%s); decided by the bounded stand-in only" % (i["key"], i["detail"][:120]))
    if violations:
        for v in violations:
            print("VIOLATION property=%s replay=%s%s" % (prop, v["replay"], "" if v["reproduced"] else " no-failing-input-found"))
        return 1, ev
    return 0, ev


def main(argv):
    if not argv:
        print(__doc__)
        return 3
    prop = argv[0]
    tier = os.environ.get("VERIF_TIER", "quick")
    if "--tier" in argv:
        tier = argv[argv.index("--tier") + 1]
    seed = int(os.environ.get("VERIF_SEED", "0") or 0)
    if "--replay" in argv:
        path = argv[argv.index("--replay") + 1]
        rec = json.load(open(path))
        if not rec.get("inputs"):
            print("replay file names obligation %s (no input); re-run ./check %s" % (rec.get("obligation"), prop))
            return 0
        p = sh_runner(["replay", os.path.abspath(path)])
        sys.stdout.write(p.stdout)
        if p.returncode not in (0, 1):
            sys.stderr.write(p.stderr[-2000:])
            return 3
        return p.returncode
    try:
        code, _ = run_property(prop, tier, seed)
        return code
    except Exception:
        traceback.print_exc()
        print("CHECKER-ERROR: exception in the checker")
        return 3


if __name__ == "__main__":
    sys.exit(main(sys.argv[1:]))

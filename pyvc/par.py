"""Two-phase parallel driver: (1) symbolic execution per (function, case) in forked workers, each
returning its obligations as SMT-LIB text; (2) discharge of all obligations in a worker pool."""
import multiprocessing as mp
import os

from contracts import dsl
from . import solve, verify
from .engine import Ctx


class SObl:
    """Serialisable obligation (what phase 2 and the reports need)."""

    def __init__(self, d):
        self.name, self.kind, self.fn, self.line, self.expect, self.smt2 = (
            d["name"], d["kind"], d["fn"], d["line"], d["expect"], d["smt2"])


def _sym_task(task):
    kind, name, case = task
    ctx = Ctx()
    try:
        if kind == "fn":
            info = verify.verify_function(ctx, name, only_case=case)
        else:
            info = verify.verify_lemma(ctx, name)
        obls = [dict(name=ob.name, kind=ob.kind, fn=ob.fn, line=ob.line, expect=ob.expect, smt2=solve.to_smt2(ctx, ob))
                for ob in ctx.obls]
    except Exception as exc:      # engine crash: reported as unsupported, never as a pass
        import traceback
        info = dict(key=name if kind == "fn" else "lemma::" + name, status="unsupported", cases=0, paths=0,
                    detail="engine error: %r" % (exc,), trace=traceback.format_exc())
        obls = []
    info = {k: v for k, v in info.items()}
    return dict(task=task, info=info, obls=obls, used_lib=sorted(ctx.used_lib), used_inline=sorted(ctx.used_inline),
                used_contracts=sorted(ctx.used_contracts), used_trusted=sorted(ctx.used_trusted),
                dropped=list(ctx.dropped), prune_s=ctx.prune_solver_time)


def tasks_for(keys, lemmas):
    tasks = []
    for k in keys:
        c = dsl.CONTRACTS[k]
        for case in verify.case_splits(c):
            tasks.append(("fn", k, verify.case_label(case)))
    for l in lemmas:
        tasks.append(("lemma", l, None))
    return tasks


def symexec(keys, lemmas, workers=None):
    """Returns (infos, obls, agg)."""
    tasks = tasks_for(keys, lemmas)
    workers = workers or min(16, os.cpu_count() or 1)
    if workers == 1 or len(tasks) <= 1:
        raw = [_sym_task(t) for t in tasks]
    else:
        # one fresh child per task: every task starts from the parent's state (fresh-name counter, caches), so the text of
        # an obligation -- and with it the solver's behaviour -- does not depend on which other functions were selected
        with mp.get_context("fork").Pool(min(workers, len(tasks)), maxtasksperchild=1) as pool:
            raw = pool.map(_sym_task, tasks, chunksize=1)
    infos = {}
    order = []
    obls = []
    agg = dict(used_lib=set(), used_inline=set(), used_contracts=set(), used_trusted=set(), dropped=[], prune_s=0.0)
    for r in raw:
        kind, name, case = r["task"]
        k = name if kind == "fn" else "lemma::" + name
        i = r["info"]
        if k not in infos:
            infos[k] = dict(key=k, status="ok", detail="", cases=0, paths=0)
            order.append(k)
        cur = infos[k]
        cur["cases"] += i.get("cases", 0)
        cur["paths"] += i.get("paths", 0)
        if i.get("status") != "ok" and cur["status"] == "ok":
            cur.update(status=i["status"], detail=i.get("detail", ""), trace=i.get("trace", ""))
        obls += [SObl(d) for d in r["obls"]]
        for f in ("used_lib", "used_inline", "used_contracts", "used_trusted"):
            agg[f].update(r[f])
        agg["dropped"] += r["dropped"]
        agg["prune_s"] += r["prune_s"]
    for k in order:
        if infos[k]["cases"] == 0 and infos[k]["status"] == "ok":
            infos[k].update(status="unsupported", detail="no case executed")
    return [infos[k] for k in order], obls, agg


def discharge(obls, timeout_ms=10000, workers=None, second=True):
    jobs = [(i, ob.smt2, timeout_ms, ob.expect, second) for i, ob in enumerate(obls)]
    workers = workers or min(16, max(1, os.cpu_count() or 1))
    results = [None] * len(obls)
    if not jobs:
        return results
    if workers == 1 or len(jobs) == 1:
        for j in jobs:
            r = solve._work(j)
            results[r["idx"]] = r
    else:
        with mp.get_context("fork").Pool(workers) as pool:
            for r in pool.imap_unordered(solve._work, jobs, chunksize=1):
                results[r["idx"]] = r
    # last resort for the few obligations every back end left open: the same query again with a long budget and little
    # competition for the cores (a verdict must not flip because the machine was busy; at most 8, so that a tree on which
    # many obligations fail is still reported in reasonable time)
    if second:
        late = [j for j, r in zip(jobs, results) if r["verdict"] == "unknown" and j[3] == "unsat"][:8]
        if late:
            with mp.get_context("fork").Pool(min(4, len(late))) as pool:
                for r in pool.imap_unordered(solve._work_slow, late, chunksize=1):
                    if r["verdict"] in ("sat", "unsat"):
                        r["tried"] = results[r["idx"]].get("tried", []) + r["tried"]
                        r["seconds"] += results[r["idx"]].get("seconds", 0.0)
                        results[r["idx"]] = r
    for ob, r in zip(obls, results):
        r["smt2_len"] = len(ob.smt2)
        r["smt2"] = ob.smt2 if len(ob.smt2) < 20000 else None
        if ob.expect == "sat":
            r["ok"] = r["verdict"] in ("sat", "unknown")    # vacuity guard: only `unsat` is a failure
            r["vacuous"] = r["verdict"] == "unsat"
        else:
            r["ok"] = r["verdict"] == "unsat"
    return results


def verify_all(keys, lemmas, timeout_ms=10000, second=True, workers=None):
    infos, obls, agg = symexec(keys, lemmas, workers)
    results = discharge(obls, timeout_ms, workers, second)
    return infos, obls, results, agg

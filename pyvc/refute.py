"""Bounded quantifier-free refuter: the same real AST, executed symbolically with concrete
lengths (loops unrolled, quantifiers expanded, specs inlined, real nonlinear arithmetic).
A `sat` answer comes with a model, which is turned into a JSON input recipe for replay
against the real code.  It never proves anything; it only finds counterexamples."""
import time

import z3

from contracts import dsl
from . import front, solve, verify, lib
from .engine import Ctx, OptV
from .values import *   # noqa

SIZES = [(1,), (2,), (0,), (3,), (2, 1), (1, 2), (3, 2), (2, 3), (4,), (1, 3)]
KINDS = ("post", "assert", "frame", "index_bounds", "raise_unreach", "raises_only_when", "raises_when",
         "div_nonzero", "len_eq", "key_present", "nonempty", "sorted_arg", "call_pre")


def model_num(m, t):
    v = m.eval(t, model_completion=True)
    if z3.is_int_value(v):
        return v.as_long()
    if z3.is_rational_value(v):
        return float(v.numerator_as_long()) / float(v.denominator_as_long())
    if z3.is_algebraic_value(v):
        return float(v.approx(20).as_fraction())
    if z3.is_true(v):
        return True
    if z3.is_false(v):
        return False
    if z3.is_string_value(v):
        return v.as_string()
    return str(v)


class AtomNamer:
    def __init__(self, ctx, m):
        self.ctx, self.m, self.names = ctx, m, {}

    def name(self, t):
        v = self.m.eval(t, model_completion=True)
        sname = v.sort().name()
        key = (sname, str(v))
        if key in self.names:
            return self.names[key]
        for lit, c in ATOMS.get(sname, {}).items():
            if str(self.m.eval(c, model_completion=True)) == str(v):
                self.names[key] = lit
                return lit
        # not a literal: respect lower()/startswith() of the model where a literal lower-case form is known
        base = None
        for k, f in self.ctx.atom_funs.items():
            if k[0] == "lower" and k[1] == sname:
                lv = self.m.eval(f(v), model_completion=True)
                for lit, c in ATOMS.get(sname, {}).items():
                    if str(self.m.eval(c, model_completion=True)) == str(lv):
                        cands = [lit.upper(), lit.capitalize(), lit[:-1] + lit[-1:].upper(), lit[:1].upper() + lit[1:]]
                        for cand in cands:
                            if cand not in ATOMS.get(sname, {}) and cand.lower() == lit and cand not in self.names.values():
                                base = cand
                                break
        if base is None:
            pref = ""
            for k, f in self.ctx.atom_funs.items():
                if k[0] == "startswith" and k[1] == sname and z3.is_true(self.m.eval(f(v), model_completion=True)):
                    pref = k[2]
            base = "%s%d" % (pref or ("c" if sname == "Chrom" else "g"), 1 + len(self.names))
            if sname == "Chrom" and not pref:
                base = str(1 + len(self.names))
        self.names[key] = base
        return base


def concretize(ctx, m, v, st, namer):
    v = st.get(v)
    if v is None or isinstance(v, (bool, int, float, str)):
        return v
    if isinstance(v, NF):
        if model_num(m, v.null) is True:
            return None if False else float("nan")
        return float(model_num(m, v.val))
    if is_z3(v):
        if is_atom(v):
            return namer.name(v)
        return model_num(m, v)
    if isinstance(v, OptV):
        if model_num(m, v.none) is True:
            return None
        return concretize(ctx, m, v.val, st, namer)
    if isinstance(v, Vec):
        n = v.n if isinstance(v.n, int) else model_num(m, v.n)
        return [concretize(ctx, m, v.at(k), st, namer) for k in range(n)]
    if isinstance(v, Tab):
        n = v.n if isinstance(v.n, int) else model_num(m, v.n)
        d = {"__cols__": list(v.cols)}
        for c, f in v.cols.items():
            d[c] = [concretize(ctx, m, f(k), st, namer) for k in range(n)]
        if v.idx is not None and not isinstance(v.idx, RangeIdx) and v.idx.labels is not None:
            d["__index__"] = [concretize(ctx, m, v.idx.labels(k), st, namer) for k in range(n)]
        return d
    if isinstance(v, (tuple, ListV)):
        items = v.items if isinstance(v, ListV) else v
        return [concretize(ctx, m, x, st, namer) for x in items]
    if isinstance(v, Rec):
        return {k: concretize(ctx, m, x, st, namer) for k, x in v.f.items()}
    if isinstance(v, DictV):
        return {str(k): concretize(ctx, m, x, st, namer) for k, x in v.d.items()}
    if isinstance(v, Obj):
        return {"__class__": v.cls, **{k: concretize(ctx, m, x, st, namer) for k, x in v.f.items()}}
    if isinstance(v, Seq):
        n = v.n if isinstance(v.n, int) else model_num(m, v.n)
        return [concretize(ctx, m, v.at(k), st, namer) for k in range(n)]
    return repr(v)


def ground_axioms(ctx, formulas):
    """Quantifier-free instances of the exp2/log2/sqrt axioms at the ground terms that occur
    (keeps the query decidable so that `sat` comes with a model; the model is only a candidate)."""
    apps = {"exp2": [], "log2": [], "sqrt": []}
    seen = set()
    todo = list(formulas)
    while todo:
        t = todo.pop()
        if not is_z3(t) or t.get_id() in seen:
            continue
        seen.add(t.get_id())
        if z3.is_quantifier(t):
            continue
        if z3.is_app(t):
            nm = t.decl().name()
            if nm in apps and t.num_args() == 1:
                apps[nm].append(t)
            todo += t.children()
    out = []
    es = apps["exp2"]
    if "exp2" in ctx.ufs:
        e = ctx.ufs["exp2"]
        for c, v in ((0, 1), (1, 2), (2, 4), (3, 8), (-1, "1/2"), (-2, "1/4")):
            es = es + [e(z3.RealVal(c))]
            out.append(e(z3.RealVal(c)) == z3.RealVal(v))
    for a in es:
        out.append(a > 0)
    for i, a in enumerate(es):
        for b in es[i + 1:]:
            x, y = a.arg(0), b.arg(0)
            out.append(z3.And(z3.Implies(x < y, a < b), z3.Implies(y < x, b < a), z3.Implies(x == y, a == b)))
    if "log2" in ctx.ufs:
        l, e = ctx.ufs["log2"], ctx.uf("exp2", R, R)
        for a in apps["log2"]:
            out.append(z3.Implies(a.arg(0) > 0, e(a) == a.arg(0)))
        for a in apps["exp2"]:
            out.append(l(a) == a.arg(0))
    for a in apps["sqrt"]:
        out.append(z3.Implies(a.arg(0) >= 0, z3.And(a >= 0, a * a == a.arg(0))))
    return out


def refute_function(key, timeout_ms=4000, sizes=None, want=None, max_found=3, budget_s=60):
    """Returns list of dict(obligation, sizes, case, inputs) -- candidate counterexamples."""
    found = []
    seen = set()
    t0 = time.time()
    notes = []
    for sz in (sizes or SIZES):
        if time.time() - t0 > budget_s or len(found) >= max_found:
            break
        ctx = Ctx()
        ctx.bounded = sz
        ctx.inline_specs = True
        info = verify.verify_function(ctx, key)
        ctx_nl_note = ""
        if info["status"] != "ok":
            notes.append("sizes %s: %s" % (sz, info["detail"][:100]))
            continue
        for ob in ctx.obls:
            if ob.kind not in KINDS or ob.expect != "unsat":
                continue
            base = ob.name.split("@")[0]
            if want and not any(w in ob.name for w in want):
                pass
            if base in seen:
                continue
            s = z3.Solver()
            s.set("timeout", timeout_ms)
            for h in ob.hyps:
                s.add(h)
            s.add(z3.Not(ob.goal))
            txt = s.to_smt2()
            for a in ground_axioms(ctx, list(ob.hyps) + [ob.goal]):
                s.add(a)
            for a in solve.atom_axioms(ctx, txt):
                s.add(a)
            r = s.check()
            if r != z3.sat:
                continue
            m = s.model()
            lab = ob.name.split("@")[1].split("#")[0] if "@" in ob.name else ""
            # the case label is the prefix of the path id
            ent = None
            for cl, e in ctx.entries.items():
                if lab.startswith(cl) and (ent is None or len(cl) > len(ent[0])):
                    ent = (cl, e)
            if ent is None:
                continue
            env, entry, case = ent[1]
            namer = AtomNamer(ctx, m)
            inputs = {k: concretize(ctx, m, v, entry, namer) for k, v in env.items()}
            seen.add(base)
            found.append(dict(obligation=ob.name, sizes=list(sz), case=ent[0], inputs=inputs))
            if len(found) >= max_found:
                break
    return found, notes


if __name__ == "__main__":
    import sys, json
    from .devrun import load_contracts
    load_contracts()
    key = [k for k in dsl.CONTRACTS if sys.argv[1] in k][0]
    if len(sys.argv) > 3:
        front.mutate(key, sys.argv[2], sys.argv[3])
    f, notes = refute_function(key)
    print(json.dumps(f, indent=1, default=str)[:3000])
    print(notes)

"""Discharge obligations: z3 5.1 (API) first, cvc5 / z3 4.8 CLI on what it leaves open."""
import multiprocessing as mp
import os
import subprocess
import tempfile
import time

import z3

from . import lib


import shutil
Z3NEW = shutil.which("z3-new") or "/nonexistent/z3-new"


def to_smt2(ctx, ob, bounded=None):
    s = z3.Solver()
    for h in ob.hyps:
        s.add(h)
    if ob.expect == "unsat":
        s.add(z3.Not(ob.goal))
    text0 = s.to_smt2()
    ax = lib.transcendental_axioms(ctx)
    extra = []
    if "exp2" in ax and ("exp2" in text0 or "log2" in text0):
        extra += ax["exp2"]
    if "sqrt" in ax and "sqrt" in text0:
        extra += ax["sqrt"]
    for nm in ("mulR", "mulI", "divR"):
        if nm in ax and nm in text0:
            extra += ax[nm]
    # definitional axioms of the spec functions that occur (transitively)
    added = set()
    changed = True
    text = text0
    while changed:
        changed = False
        for key, d in ctx.spec_defs.items():
            if d and key not in added and (d[0].name() + " ") in text or d and key not in added and ("|%s|" % d[0].name()) in text:
                added.add(key)
                extra.append(d[1])
                text += d[1].sexpr()
                changed = True
    extra += atom_axioms(ctx, text)
    if extra:
        for a in extra:
            s.add(a)
        text0 = s.to_smt2()
    return text0


def atom_axioms(ctx, text):
    """Name atoms: distinct literals; lower()/startswith() exact on the literals that occur."""
    from .values import ATOMS, ATOM_SORTS, atom_const
    out = []
    for sname in list(ATOMS):
        if ("atom_%s_" % sname) not in text and not any(k[1] == sname and f.name() in text for k, f in ctx.atom_funs.items()):
            continue
        sort = ATOM_SORTS[sname]
        for k, f in list(ctx.atom_funs.items()):
            if k[1] != sname:
                continue
            # close the literal set under lower()
            if k[0] == "lower":
                for lit in list(ATOMS[sname]):
                    atom_const(sort, lit.lower())
        for k, f in ctx.atom_funs.items():
            if k[1] != sname:
                continue
            for lit, c in list(ATOMS[sname].items()):
                if k[0] == "lower":
                    out.append(f(c) == atom_const(sort, lit.lower()))
                elif k[0] == "match":
                    import re
                    out.append(f(c) == z3.BoolVal(re.match(k[2], lit) is not None))
                else:
                    out.append(f(c) == z3.BoolVal(lit.startswith(k[2])))
        cs = list(ATOMS[sname].values())
        if len(cs) > 1:
            out.append(z3.Distinct(cs))
    return out


def _run_z3_api(smt2, timeout_ms, seed=0):
    s = z3.Solver()
    s.set("timeout", timeout_ms)
    s.set("random_seed", seed)
    s.from_string(smt2)
    t = time.time()
    r = s.check()
    dt = time.time() - t
    model = None
    reason = None
    if r == z3.sat:
        try:
            model = s.model().sexpr()
        except Exception:
            model = None
    elif r == z3.unknown:
        reason = s.reason_unknown()
    return str(r), dt, model, reason


def _run_cli(cmd, smt2, timeout_s):
    with tempfile.NamedTemporaryFile("w", suffix=".smt2", delete=False, dir=os.environ.get("PYVC_TMP", None)) as fh:
        fh.write(smt2)
        path = fh.name
    t = time.time()
    try:
        p = subprocess.run(cmd + [path], capture_output=True, text=True, timeout=timeout_s + 5)
        out = p.stdout.strip().splitlines()
        r = out[0].strip() if out else "unknown"
        if r not in ("sat", "unsat", "unknown"):
            r = "unknown"
    except subprocess.TimeoutExpired:
        r = "unknown"
    finally:
        os.unlink(path)
    return r, time.time() - t


def _work(job):
    idx, smt2, timeout_ms, expect, second = job
    if expect == "sat":
        # vacuity guard: only a quick `unsat` matters; `unknown` is accepted
        timeout_ms, second = min(timeout_ms, 2000), False
    res = dict(idx=idx, verdict=None, backend=None, seconds=0.0, model=None, tried=[])
    # small portfolio over random seeds: quantifier instantiation order makes single runs unstable
    # (the same query is `unsat` in 0.1 s under most seeds and times out under a few)
    budget = timeout_ms if not second else max(1500, timeout_ms // 2)
    # two rounds over six seeds: short budgets first (an obligation that some seed decides in 0.2 s is decided here even on a
    # machine five times slower), then longer ones; an audit of all obligations under seeds 0-3 found 33 of ~7300 that some
    # seed leaves open for 8 s while another decides them at once
    short, longer = max(400, budget // 5), max(1500, (budget * 4) // 5)
    plan = ([(sd, short) for sd in range(6)] + [(sd, longer) for sd in range(6)]) if expect == "unsat" else [(0, budget)]
    reason = None
    for seed, tmo in plan:
        try:
            r, dt, model, reason = _run_z3_api(smt2, tmo, seed)
        except Exception as exc:   # z3 parse/internal error: not a verdict
            r, dt, model, reason = "error", 0.0, None, repr(exc)
        res["tried"].append(("z3-5.1/seed%d" % seed, r, round(dt, 3)))
        res["seconds"] += dt
        if r in ("sat", "unsat"):
            res.update(verdict=r, backend="z3-5.1", model=model)
            return res
        if r == "error":
            break
    res["reason"] = reason
    if second:
        for name, cmd in (("z3-5.1-cli", [Z3NEW, "-T:%d" % max(1, timeout_ms // 1000)]),
                          ("cvc5-1.0", ["/usr/bin/cvc5", "--lang=smt2", "--strings-exp", "--tlimit=%d" % timeout_ms]),
                          ("z3-4.8", ["/usr/bin/z3", "-T:%d" % max(1, timeout_ms // 1000)])):
            if not os.path.exists(cmd[0]):
                continue
            q = smt2 if "(check-sat)" in smt2 else smt2 + "\n(check-sat)\n"
            r2, dt2 = _run_cli(cmd, q, timeout_ms / 1000.0)
            res["tried"].append((name, r2, round(dt2, 3)))
            res["seconds"] += dt2
            if r2 in ("sat", "unsat"):
                res.update(verdict=r2, backend=name)
                return res
    res["verdict"] = "unknown"
    return res


def _work_slow(job):
    """The query once more, four seeds, 40 s each (see par.discharge)."""
    idx, smt2, _timeout_ms, _expect, _second = job
    res = dict(idx=idx, verdict="unknown", backend=None, seconds=0.0, model=None, tried=[], reason=None)
    for seed in (0, 1, 2, 3):
        try:
            r, dt, model, reason = _run_z3_api(smt2, 40000, seed)
        except Exception as exc:
            r, dt, model, reason = "error", 0.0, None, repr(exc)
        res["tried"].append(("z3-5.1/seed%d/late" % seed, r, round(dt, 3)))
        res["seconds"] += dt
        res["reason"] = reason
        if r in ("sat", "unsat"):
            res.update(verdict=r, backend="z3-5.1", model=model)
            break
        if r == "error":
            break
    return res


def discharge(ctx, obls, timeout_ms=10000, workers=None, second=True):
    """Returns list of result dicts aligned with obls."""
    jobs = []
    for i, ob in enumerate(obls):
        jobs.append((i, to_smt2(ctx, ob), timeout_ms, ob.expect, second))
    workers = workers or min(16, max(1, os.cpu_count() or 1))
    results = [None] * len(obls)
    if not jobs:
        return results
    if workers == 1 or len(jobs) == 1:
        for j in jobs:
            r = _work(j)
            results[r["idx"]] = r
    else:
        with mp.get_context("fork").Pool(workers) as pool:
            for r in pool.imap_unordered(_work, jobs, chunksize=1):
                results[r["idx"]] = r
    for (i, smt2, _, _, _), r in zip(jobs, results):
        r["smt2_len"] = len(smt2)
        r["smt2"] = smt2 if len(smt2) < 20000 else None
        ob = obls[i]
        if ob.expect == "sat":
            r["ok"] = r["verdict"] == "sat" or r["verdict"] == "unknown"   # vacuity guard: only `unsat` is a failure
            r["vacuous"] = r["verdict"] == "unsat"
        else:
            r["ok"] = r["verdict"] == "unsat"
    return results

"""Meta-level value domain of the pyvc symbolic executor.

Scalars are either concrete Python values (int/float/bool/str/None) or z3 terms.
Everything else is a small immutable Python object whose components are values
again.  Mutable Python objects (lists, dicts, arrays, Series, DataFrames,
GenomicArray instances) live in the state's heap behind a `Ref`.
"""
import itertools
import z3

I = z3.IntSort()
R = z3.RealSort()
B = z3.BoolSort()
S = z3.StringSort()

_ctr = itertools.count()


class Unsupported(Exception):
    """The code left the accepted subset.  Never becomes a pass."""


class SpecError(Exception):
    """A contract text is malformed (checker error, exit 3)."""


def fresh_name(hint="v"):
    return "%s!%d" % (hint, next(_ctr))


def fresh(sort, hint="v"):
    return z3.Const(fresh_name(hint), sort)


def is_z3(v):
    return isinstance(v, z3.ExprRef)


def is_conc(v):
    return isinstance(v, (int, float, bool, str, type(None))) and not is_z3(v)


def realval(x):
    """A Python float as an exact decimal rational (floats are modelled as reals)."""
    if isinstance(x, bool):
        return z3.RealVal(int(x))
    if isinstance(x, int):
        return z3.RealVal(x)
    return z3.RealVal(repr(float(x)))


def to_z3(v):
    if is_z3(v):
        return v
    if isinstance(v, bool):
        return z3.BoolVal(v)
    if isinstance(v, int):
        return z3.IntVal(v)
    if isinstance(v, float):
        if v != v or v in (float("inf"), float("-inf")):
            raise Unsupported("NaN/inf used as a number (declare the value nullable)")
        return realval(v)
    if isinstance(v, str):
        return z3.StringVal(v)
    raise Unsupported("cannot turn %r into a term" % (v,))


def to_real(v):
    if isinstance(v, NF):
        nul = v.null
        if nul is False or (is_z3(nul) and z3.is_false(z3.simplify(nul))):
            return v.val          # a float slot that provably holds a number
        raise Unsupported("nullable used where a real is needed")
    v = to_z3(v)
    if v.sort() == R:
        return v
    if v.sort() == I:
        return z3.ToReal(v)
    if v.sort() == B:
        return z3.If(v, z3.RealVal(1), z3.RealVal(0))
    raise Unsupported("not numeric: %s" % v.sort())


def to_int(v):
    v = to_z3(v)
    if v.sort() == I:
        return v
    if v.sort() == B:
        return z3.If(v, z3.IntVal(1), z3.IntVal(0))
    raise Unsupported("not an int: %s" % v.sort())


class NF:
    """Nullable real: (is NaN, value).  Arithmetic propagates null; ordered
    comparisons with null are false; != with null is true."""
    __slots__ = ("null", "val")

    def __init__(self, null, val):
        self.null = to_z3(null)
        self.val = to_real(val)

    def __repr__(self):
        return "NF(%s,%s)" % (self.null, self.val)


def as_nf(v):
    if isinstance(v, NF):
        return v
    if isinstance(v, float) and v != v:
        return NF(True, 0)
    return NF(False, to_real(v))


class OptV:
    """Optional scalar (element of an Opt-typed vector): (is None, payload)."""

    def __init__(self, none, val):
        self.none, self.val = to_z3(none), val


class Ref:
    """Pointer into the state's heap."""
    __slots__ = ("addr",)

    def __init__(self, addr):
        self.addr = addr

    def __repr__(self):
        return "Ref(%s)" % self.addr


def memo_at(f):
    """Element closures are pure: cache per index term (nested closures are otherwise re-evaluated
    exponentially often)."""
    if getattr(f, "_memo", False):
        return f
    cache = {}

    def g(k):
        key = ("i", k) if isinstance(k, int) and not isinstance(k, bool) else (("z", k.get_id()) if is_z3(k) else None)
        if key is None:
            return f(k)
        hit = cache.get(key)
        if hit is not None:
            return hit[1]
        v = f(k)
        cache[key] = (k, v)      # keep k alive so that its ast id is not reused
        return v
    g._memo = True
    return g


class Vec:
    """1-D array / Series: length + element closure (+ index token for Series).

    n    : int or z3 Int
    at   : k -> element value (k is a z3 Int or int; in range is the caller's duty)
    idx  : None for positional arrays (numpy, list), else an index token
    elt  : element type tag (dsl type) used when the vector must be havocked
    ro   : read-only view marker (`.values` of a Series)
    """
    __slots__ = ("n", "at", "idx", "elt", "ro", "kind", "perm", "nz")

    def __init__(self, n, at, idx=None, elt=None, ro=False, kind="array", perm=None, nz=None):
        self.n = n
        self.at = memo_at(at)
        self.idx = idx
        self.elt = elt
        self.ro = ro
        self.kind = kind  # 'array' | 'series' | 'list' | 'index'
        self.perm = perm  # for a vector known to be a permutation of 0..n-1: value -> its position (the inverse)
        self.nz = nz      # for np.nonzero(mask)[0]: (mask element closure, position -> its rank among the True positions, n)

    def with_(self, **kw):
        d = dict(n=self.n, at=self.at, idx=self.idx, elt=self.elt, ro=self.ro, kind=self.kind)
        d.update(kw)
        return Vec(**d)

    def __repr__(self):
        return "Vec(n=%s,%s)" % (self.n, self.kind)


class Tab:
    """DataFrame: row count, ordered columns (name -> element closure), index token."""
    __slots__ = ("n", "cols", "idx", "elts")

    def __init__(self, n, cols, idx, elts=None):
        self.n = n
        self.cols = {c: memo_at(f) for c, f in dict(cols).items()}
        self.idx = idx
        self.elts = dict(elts or {})

    def col(self, name):
        return Vec(self.n, self.cols[name], idx=self.idx, elt=self.elts.get(name), kind="series")

    def __repr__(self):
        return "Tab(n=%s,cols=%s)" % (self.n, list(self.cols))


class Idx:
    """Index token.  Two Series/DataFrames align positionally iff their tokens are
    the same object, or both are `RangeIdx` of provably equal length."""

    def __init__(self, label="idx", labels=None, unique=None):
        self.label = label
        self.labels = labels  # optional closure k -> label term (Int)
        self.unique = unique

    def __repr__(self):
        return "Idx(%s)" % self.label


class RangeIdx(Idx):
    def __init__(self, n):
        Idx.__init__(self, "range", labels=lambda k: k, unique=True)
        self.n = n


class Rec:
    """namedtuple / itertuples row / pandas row: ordered fields."""
    __slots__ = ("f", "name")

    def __init__(self, f, name="Row"):
        self.f = dict(f)
        self.name = name

    def __repr__(self):
        return "Rec(%s)" % list(self.f)


class ListV:
    """Python list/tuple of statically known length (elements are values)."""
    __slots__ = ("items", "tup")

    def __init__(self, items, tup=False):
        self.items = tuple(items)
        self.tup = tup

    def __repr__(self):
        return ("Tup" if self.tup else "List") + repr(list(self.items))


class DictV:
    """dict with concrete (Python) keys, insertion ordered."""
    __slots__ = ("d",)

    def __init__(self, d=None):
        self.d = dict(d or {})

    def __repr__(self):
        return "Dict(%s)" % list(self.d)


class Seq:
    """Sequence of symbolic length whose elements are meta values (generator
    output, list of rows, ...).  `elt` is the dsl type of an element."""
    __slots__ = ("n", "at", "elt")

    def __init__(self, n, at, elt=None):
        self.n = n
        self.at = at
        self.elt = elt

    def __repr__(self):
        return "Seq(n=%s)" % (self.n,)


class SliceV:
    __slots__ = ("lo", "hi", "step")

    def __init__(self, lo, hi, step=None):
        self.lo, self.hi, self.step = lo, hi, step

    def __repr__(self):
        return "Slice(%s,%s)" % (self.lo, self.hi)


class Obj:
    """Instance of a repository class (GenomicArray, CopyNumArray, ...)."""
    __slots__ = ("cls", "f")

    def __init__(self, cls, f):
        self.cls = cls
        self.f = dict(f)

    def __repr__(self):
        return "Obj(%s)" % self.cls


class Func:
    """Callable value."""
    __slots__ = ("kind", "target", "env", "bound", "mod")

    def __init__(self, kind, target, env=None, bound=None, mod=None):
        self.kind = kind      # 'repo' (key), 'lambda'/'def' (ast node), 'builtin' (name), 'spec'
        self.target = target
        self.env = env
        self.bound = bound    # bound self for methods
        self.mod = mod        # module path the code lives in (for name resolution)

    def __repr__(self):
        return "Func(%s,%s)" % (self.kind, self.target if isinstance(self.target, str) else "<ast>")


class Module:
    __slots__ = ("name",)

    def __init__(self, name):
        self.name = name

    def __repr__(self):
        return "Module(%s)" % self.name


class OpaqueVecApp:
    """`name(arg)`: the result of an opaque vector-to-vector function (equality = congruence)."""
    __slots__ = ("name", "arg")

    def __init__(self, name, arg):
        self.name, self.arg = name, arg

    @property
    def n(self):
        return self.arg.n

    def __repr__(self):
        return "%s(<vec>)" % self.name


class Opaque:
    """A value the engine carries around but cannot look into (e.g. 'rest' columns)."""
    __slots__ = ("term", "what")

    def __init__(self, term, what=""):
        self.term = term
        self.what = what


ATOMS = {}        # sort name -> {python str: constant}   (strings of which only equality matters)
ATOM_SORTS = {}


def is_atom(v):
    return is_z3(v) and v.sort().kind() == z3.Z3_UNINTERPRETED_SORT


def atom_const(sort, s):
    d = ATOMS.setdefault(sort.name(), {})
    ATOM_SORTS[sort.name()] = sort
    if s not in d:
        d[s] = z3.Const("atom_%s_%s" % (sort.name(), "".join(ch if ch.isalnum() else "_%02x" % ord(ch) for ch in s)), sort)
    return d[s]


def str_to_atom(sort, t):
    """A String-sorted term built from literals and ite (e.g. `"chrX" if c else "X"`) as an atom term."""
    if isinstance(t, str):
        return atom_const(sort, t)
    if is_z3(t) and t.sort() == S:
        if z3.is_string_value(t):
            return atom_const(sort, t.as_string())
        if z3.is_app(t) and t.decl().kind() == z3.Z3_OP_ITE:
            return z3.If(t.arg(0), str_to_atom(sort, t.arg(1)), str_to_atom(sort, t.arg(2)))
    raise Unsupported("comparison of a name atom with a computed string")


def atom_pair(a, b):
    if is_atom(a) and (isinstance(b, str) or (is_z3(b) and b.sort() == S)):
        return a, str_to_atom(a.sort(), b)
    if is_atom(b) and (isinstance(a, str) or (is_z3(a) and a.sort() == S)):
        return str_to_atom(b.sort(), a), b
    return a, b


def z3eq(a, b):
    """Structural equality as a formula (used by frames and by ==)."""
    a, b = atom_pair(a, b)
    if isinstance(a, NF) or isinstance(b, NF):
        a, b = as_nf(a), as_nf(b)
        return z3.And(z3.Not(a.null), z3.Not(b.null), a.val == b.val)
    if is_conc(a) and is_conc(b):
        if a is None or b is None:
            return z3.BoolVal(a is b)
        if isinstance(a, str) != isinstance(b, str):
            return z3.BoolVal(False)
        return z3.BoolVal(a == b)
    if a is None or b is None:
        return z3.BoolVal(False) if (is_z3(a) or is_z3(b)) else z3.BoolVal(a is b)
    if isinstance(a, (Rec,)) and isinstance(b, Rec):
        if list(a.f) != list(b.f):
            return z3.BoolVal(False)
        return z3.And([z3eq(a.f[k], b.f[k]) for k in a.f] + [z3.BoolVal(True)])
    if isinstance(a, ListV) and isinstance(b, ListV):
        if len(a.items) != len(b.items):
            return z3.BoolVal(False)
        return z3.And([z3eq(x, y) for x, y in zip(a.items, b.items)] + [z3.BoolVal(True)])
    if isinstance(a, tuple) and isinstance(b, tuple):
        if len(a) != len(b):
            return z3.BoolVal(False)
        return z3.And([z3eq(x, y) for x, y in zip(a, b)] + [z3.BoolVal(True)])
    if isinstance(a, Opaque) and isinstance(b, Opaque):
        return a.term == b.term
    za, zb = to_z3(a), to_z3(b)
    if za.sort() != zb.sort():
        if za.sort() in (I, R, B) and zb.sort() in (I, R, B) and S not in (za.sort(), zb.sort()):
            return to_real(za) == to_real(zb)
        raise Unsupported("equality between sorts %s and %s" % (za.sort(), zb.sort()))
    return za == zb


def merge_val(c, a, b):
    """ite over meta values."""
    if a is b:
        return a
    if is_conc(a) and is_conc(b) and type(a) is type(b) and a == b:
        return a
    if isinstance(a, OptV) or isinstance(b, OptV):
        a = a if isinstance(a, OptV) else OptV(a is None, 0 if a is None else a)
        b = b if isinstance(b, OptV) else OptV(b is None, 0 if b is None else b)
        return OptV(z3.If(c, a.none, b.none), merge_val(c, a.val, b.val))
    if isinstance(a, NF) or isinstance(b, NF):
        a, b = as_nf(a), as_nf(b)
        return NF(z3.If(c, a.null, b.null), z3.If(c, a.val, b.val))
    if isinstance(a, Rec) and isinstance(b, Rec) and list(a.f) == list(b.f):
        return Rec({k: merge_val(c, a.f[k], b.f[k]) for k in a.f}, a.name)
    if isinstance(a, tuple) and isinstance(b, tuple) and len(a) == len(b):
        return tuple(merge_val(c, x, y) for x, y in zip(a, b))
    if isinstance(a, ListV) and isinstance(b, ListV) and len(a.items) == len(b.items) and a.tup == b.tup:
        return ListV([merge_val(c, x, y) for x, y in zip(a.items, b.items)], a.tup)
    if isinstance(a, Vec) and isinstance(b, Vec):
        n = merge_val(c, a.n, b.n)
        return Vec(n, lambda k, a=a, b=b: merge_val(c, a.at(k), b.at(k)),
                   idx=a.idx if a.idx is b.idx else None, elt=a.elt, kind=a.kind)
    if isinstance(a, Opaque) and isinstance(b, Opaque):
        return Opaque(z3.If(c, a.term, b.term), a.what)
    if isinstance(a, SliceV) and isinstance(b, SliceV) and a.step in (None, 1) and b.step in (None, 1) \
            and None not in (a.lo, a.hi, b.lo, b.hi):
        return SliceV(merge_val(c, a.lo, b.lo), merge_val(c, a.hi, b.hi))
    a, b = atom_pair(a, b)
    if a is None or b is None:
        raise Unsupported("merge of None with a value (declare the variable Opt in the contract)")
    if isinstance(a, (Rec, tuple, ListV, Vec, Tab, Seq, Obj, Ref, Func, DictV)) or \
            isinstance(b, (Rec, tuple, ListV, Vec, Tab, Seq, Obj, Ref, Func, DictV)):
        raise Unsupported("merge of structured values %r / %r" % (a, b))
    za, zb = to_z3(a), to_z3(b)
    if za.sort() != zb.sort():
        if za.sort() in (I, R) and zb.sort() in (I, R):
            za, zb = to_real(za), to_real(zb)
        else:
            raise Unsupported("merge of sorts %s / %s" % (za.sort(), zb.sort()))
    return z3.If(c, za, zb)


class SuperProxy:
    """super() inside a method of class `cls`, bound to receiver `selfref`"""
    __slots__ = ("selfref", "cls")

    def __init__(self, selfref, cls):
        self.selfref, self.cls = selfref, cls


# ----------------------------------------------------------------------------- binders
BINDERS = []      # constants that the code currently building a formula is about to bind with a quantifier


class binding:
    """`with binding(k): term = closure(k)`: k will be bound by a quantifier around `term`.  Anything defined while
    evaluating the closure (a nested prefix-sum function) must depend on k explicitly."""

    def __init__(self, *ks):
        self.ks = [k for k in ks if is_z3(k)]

    def __enter__(self):
        BINDERS.extend(self.ks)
        return self

    def __exit__(self, *a):
        for _ in self.ks:
            BINDERS.pop()
        return False


def free_consts(t, _cache={}):
    """names of the uninterpreted constants occurring in term t"""
    i = t.get_id()
    hit = _cache.get(i)
    if hit is not None and hit[0].eq(t):
        return hit[1]
    out, seen, todo = set(), set(), [t]
    while todo:
        x = todo.pop()
        xi = x.get_id()
        if xi in seen:
            continue
        seen.add(xi)
        if z3.is_quantifier(x):
            todo.append(x.body())
        elif z3.is_app(x):
            if x.num_args() == 0 and x.decl().kind() == z3.Z3_OP_UNINTERPRETED:
                out.add(x.decl().name())
            else:
                todo += x.children()
    _cache[i] = (t, out)
    return out


def bound_names(t, _cache={}):
    """names of the variables bound by quantifiers inside t"""
    i = t.get_id()
    hit = _cache.get(i)
    if hit is not None and hit[0].eq(t):
        return hit[1]
    out, seen, todo = set(), set(), [t]
    while todo:
        x = todo.pop()
        xi = x.get_id()
        if xi in seen:
            continue
        seen.add(xi)
        if z3.is_quantifier(x):
            for q in range(x.num_vars()):
                out.add(x.var_name(q))
            todo.append(x.body())
        elif z3.is_app(x):
            todo += x.children()
    _cache[i] = (t, out)
    return out

"""Turn one contract + the real function body into obligations."""
import ast
import itertools
import traceback

import z3

from . import front
from .values import *   # noqa
from .engine import Exec, Ctx, State, Frame, Obl, _b
from contracts import dsl


def case_splits(c):
    """Enumerate the case product for Opt / Lit / optional-column parameters."""
    dims = []
    for name, t in c.params.items():
        if isinstance(t, dsl.Opt):
            dims.append([(name, ("none", None)), (name, ("some", t.t))])
        elif isinstance(t, dsl.Lit):
            dims.append([(name, ("lit", v)) for v in t.vals])
        elif isinstance(t, dsl.ObjT):
            for fn, ft in t.fields.items():
                if isinstance(ft, dsl.TabT) and ft.opt:
                    for oc in ft.opt:
                        dims.append([("%s.%s" % (name, oc), ("col", True)), ("%s.%s" % (name, oc), ("col", False))])
        elif isinstance(t, dsl.TabT) and t.opt:
            for oc in t.opt:
                dims.append([("%s.%s" % (name, oc), ("col", True)), ("%s.%s" % (name, oc), ("col", False))])
    if c.cases is not None:
        # explicit restriction: list of dicts name -> value description
        pass
    for combo in itertools.product(*dims) if dims else [()]:
        yield dict(combo)


def case_label(case):
    parts = []
    for k, (kind, v) in sorted(case.items()):
        if kind == "none":
            parts.append("%s=None" % k)
        elif kind == "lit":
            parts.append("%s=%r" % (k, v))
        elif kind == "col":
            parts.append(("+" if v else "-") + k.split(".")[-1])
    return ",".join(parts)


def make_params(ex, c, case, st):
    env = {}
    for name, t in c.params.items():
        sel = case.get(name)
        if sel is not None:
            kind, v = sel
            if kind == "none":
                env[name] = None
                continue
            if kind == "lit":
                env[name] = v
                continue
            if kind == "some":
                t = v
        present = None
        tt = t
        if isinstance(tt, dsl.ObjT):
            for fn, ft in tt.fields.items():
                if isinstance(ft, dsl.TabT) and ft.opt:
                    present = set(ft.cols) - {oc for oc in ft.opt if not case.get("%s.%s" % (name, oc), ("col", True))[1]}
        elif isinstance(tt, dsl.TabT) and tt.opt:
            present = set(tt.cols) - {oc for oc in tt.opt if not case.get("%s.%s" % (name, oc), ("col", True))[1]}
        env[name] = ex.fresh_value(tt, name, st, cols_present=present)
    # a Series parameter declared `like="other"` carries the index (and length) of that other parameter
    for name, t in c.params.items():
        like = getattr(t, "like", None)
        if like is not None and isinstance(env.get(name), Ref) and env.get(like) is not None:
            tok, n = ex.index_of(env[like], st)
            v = st.get(env[name])
            if isinstance(v, Vec):
                st.put(env[name], v.with_(idx=tok, n=n))
    return env


def verify_function(ctx, key, c=None, only_case=None):
    """Symbolically execute `key` against its contract; obligations go to ctx.obls.
    Returns dict(status='ok'|'unsupported', detail=..., cases=n, paths=n)."""
    c = c or dsl.CONTRACTS[key]
    info = dict(key=key, cases=0, paths=0, status="ok", detail="")
    try:
        fnode, mod, cls = front.find_def(key)
    except Unsupported as exc:
        info.update(status="unsupported", detail=str(exc))
        return info
    is_gen = any(isinstance(n, (ast.Yield, ast.YieldFrom)) for n in _own_nodes(fnode))
    nl_clauses = set(c.ghost.get("nonlinear_clauses", ()))
    passes = [(bool(c.ghost.get("nonlinear")) or ctx.bounded is not None, None)]
    if nl_clauses and ctx.bounded is None:
        passes = [(False, ("skip", nl_clauses)), (True, ("only", nl_clauses))]
    for nl, clause_sel in passes:
      ctx.nl = nl
      ctx.clause_sel = clause_sel
      for case in case_splits(c):
          lab = case_label(case)
          if only_case is not None and lab != only_case:
              continue
          ex = Exec(ctx)
          ex.lib.ABSTRACT_CAT[0] = bool(c.ghost.get("abstract_strings"))
          st = State(pathid=lab + ("~nl" if clause_sel and clause_sel[0] == "only" else ""))
          try:
              env = make_params(ex, c, case, st)
              # bind in signature order, apply real defaults for parameters the contract omits
              sig = [a.arg for a in fnode.args.args]
              fr = Frame(key, mod, cls, fnode, c)
              ex.frames.append(fr)
              missing = [a for a in sig if a not in env]
              if missing:
                  full = ex.bind_args(fnode, [], dict(env), st)
                  env = full
              st.env = dict(env)
              for i, r in enumerate(c.requires):
                  f = ex.spec_formula(r, dict(env), st)
                  st.assume(_b(f))
              for gname, gtext in (c.ghost.get("defs") or {}).items():
                  # ghost definitions: spec values computed once at entry and visible (read-only) to every clause
                  gv = ex.spec_value(gtext, dict(env), st)
                  env[gname] = gv
                  st.env[gname] = gv
              for ln in c.lemmas:
                  if isinstance(ln, tuple):
                      ln, b = ln
                      bind = {k: ex.spec_value(v, dict(env), st) for k, v in b.items()}
                  else:
                      bind = None
                  for f in lemma_facts(ex, ln, st, bind):
                      st.assume(f)
              st.ghost = dict(st.ghost)
              st.ghost["entry_pc"] = len(st.pc)      # the hypotheses up to here are the precondition (see needs "-path")
              if c.ghost.get("fs"):
                  from .lib_obj import FSV, FS_SORT
                  st.ghost["fs"] = FSV(z3.Const(fresh_name("fs0"), FS_SORT))
              ex.oblig("pre_sat", "requires", st, z3.BoolVal(True), expect="sat")
              entry = st.fork()
              fr.entry_state = entry
              ctx.entries[lab] = (dict(env), entry, case)
              if is_gen:
                  # nothing yielded yet: reads are always guarded by `k < len(out_)`, the placeholder is arbitrary
                  st.ghost["out"] = (0, ex.fresh_elems(c.yields, "out0", st) if c.yields is not None else
                                     (lambda k: (_ for _ in ()).throw(Unsupported("read of empty generator output"))))
                  for vname, mk in c.ghost.items():
                      if callable(mk):
                          st.ghost["view_" + vname] = mk(ex, st, init=True)
              outs = ex.block(fnode.body, [st])
              info["cases"] += 1
              for o in outs:
                  info["paths"] += 1
                  finish_path(ex, c, env, entry, o, is_gen)
          except Unsupported as exc:
              info.update(status="unsupported", detail="%s [%s]" % (exc, lab))
              info["trace"] = traceback.format_exc()
              return info
          finally:
              ex.frames[:] = []
    if info["cases"] == 0:
        info.update(status="unsupported", detail="no case executed")
    return info


def _own_nodes(fnode):
    todo = list(fnode.body)
    while todo:
        n = todo.pop()
        yield n
        for ch in ast.iter_child_nodes(n):
            if isinstance(ch, (ast.FunctionDef, ast.Lambda, ast.ClassDef)):
                continue
            todo.append(ch)


def finish_path(ex, c, env, entry, o, is_gen):
    if o.ctl == "raise":
        if c.raises:
            # reachable raise must coincide with `when`
            w = ex.spec_formula(c.raises["when"], dict(env), o, old_st=entry)
            if c.raises.get("exc") and o.exc and c.raises["exc"] != o.exc:
                ex.oblig("raise_unreach", "L%s(%s)" % (o.ret, o.exc), o, z3.BoolVal(False), line=o.ret)
            else:
                ex.oblig("raises_only_when", "L%s" % o.ret, o, _b(w), line=o.ret)
        elif o.exc in c.may_raise:
            pass
        else:
            ex.oblig("raise_unreach", "L%s(%s)" % (o.ret, o.exc), o, z3.BoolVal(False), line=o.ret)
        return
    if c.raises:
        w = ex.spec_formula(c.raises["when"], dict(env), o, old_st=entry)
        ex.oblig("raises_when", "normal_return", o, z3.Not(_b(w)))
    if is_gen:
        g = o.ghost["out"]
        result = Seq(g[0], g[1], elt=c.yields)
    else:
        result = o.ret if o.ctl == "return" else None
    o.ctl = None
    like = getattr(c.returns, "like", None)
    if like is not None and not is_gen:
        tok, n = ex.index_of(env.get(like), entry)
        rv = o.get(result)
        ok = isinstance(rv, Vec) and rv.idx is not None and (
            rv.idx is tok or (isinstance(rv.idx, RangeIdx) and isinstance(tok, RangeIdx)))
        ex.oblig("result_index", "same_index_as_" + like, o,
                 (to_z3(rv.n) == to_z3(n)) if ok else z3.BoolVal(False))
    senv = dict(env)
    senv["result"] = result
    if is_gen:
        g = o.ghost["out"]
        senv["src_"] = Seq(g[0], o.ghost.get("out_src") or (lambda k: (-1, -1, -1)))
    for kname, v in o.ghost.items():
        if kname.startswith("view_"):
            senv[kname] = v
        elif kname.startswith("loopiter_"):
            senv["iter%s_" % kname[9:]] = Seq(v[0], v[1])     # what for-loop number k iterated over, as a sequence
    sel = getattr(ex.ctx, "clause_sel", None)
    if c.ghost.get("locals_visible"):
        # the function's local variables at exit, readable in clauses as local_<name> (for stepping-stone clauses)
        for lname, lval in o.env.items():
            if isinstance(lname, str) and "local_" + lname not in senv:
                senv["local_" + lname] = lval      # a reassigned parameter too: `a` is the argument, `local_a` its value at exit
    chain = bool(c.ghost.get("chain_ensures"))
    for ent in c.ensures:
        lab, text = ent[0], ent[1]
        nd = getattr(c, "ensure_needs", {}).get(lab)
        needs = (set(nd) | {lab}) if nd is not None else None
        skipped = sel and ((sel[0] == "skip" and lab in sel[1]) or (sel[0] == "only" and lab not in sel[1]))
        if skipped and not chain:
            continue
        if not skipped:
            f = ex.spec_formula(text, senv, o, old_st=entry)
            ex.oblig("post", lab, o, _b(f), keep_invs=needs)
        if chain:
            # (a clause whose obligation belongs to the other arithmetic pass is still a hypothesis for the later ones)
            # cut rule: a clause that has its own obligation may be used to prove the clauses after it
            # (re-read in assume mode: a `use(lemma)` hint inside it is a proof step of the clause, not part of the fact)
            ex.assume_mode += 1
            try:
                fb = _b(ex.spec_formula(text, senv, o, old_st=entry))
            finally:
                ex.assume_mode -= 1
            o.assume(fb)
            if is_z3(fb):
                # tagged with its label: a later clause that declares its needs gets only the earlier clauses it names
                o.ghost = dict(o.ghost)
                tags = dict(o.ghost.get("inv_tags", {}))
                tags[fb.get_id()] = (lab, fb)
                o.ghost["inv_tags"] = tags
    if sel and sel[0] == "only":
        return
    # frame: every heap object reachable from a parameter and not in `modifies` is unchanged
    for pname, pv in env.items():
        if pname in c.modifies:
            continue
        for path, ref in reachable_refs(pv, entry, pname):
            if path in c.modifies:
                continue
            if ref.addr not in o.heap:
                continue
            if o.heap[ref.addr] is entry.heap.get(ref.addr):
                continue
            f = heap_eq(ex, o, o.heap[ref.addr], entry.heap[ref.addr], c, path)
            ex.oblig("frame", path, o, f)


def reachable_refs(v, st, path):
    if isinstance(v, Ref):
        yield path, v
        hv = st.heap.get(v.addr)
        if isinstance(hv, Obj):
            for k, x in hv.f.items():
                for r in reachable_refs(x, st, path + "." + k):
                    yield r
        elif isinstance(hv, ListV):
            for i, x in enumerate(hv.items):
                for r in reachable_refs(x, st, "%s[%d]" % (path, i)):
                    yield r
    elif isinstance(v, tuple):
        for i, x in enumerate(v):
            for r in reachable_refs(x, st, "%s[%d]" % (path, i)):
                yield r


def heap_eq(ex, st, a, b, c, path):
    """Formula: heap value a (now) equals b (at entry)."""
    if isinstance(a, Vec) and isinstance(b, Vec):
        k = fresh(I, "k")
        return z3.And(to_z3(a.n) == to_z3(b.n),
                      z3.ForAll([k], z3.Implies(z3.And(0 <= k, k < to_z3(b.n)), elem_same(a.at(k), b.at(k)))))
    if isinstance(a, Tab) and isinstance(b, Tab):
        if list(a.cols) != list(b.cols):
            return z3.BoolVal(False)
        if a.idx is not b.idx:
            return z3.BoolVal(False)
        k = fresh(I, "k")
        return z3.And(to_z3(a.n) == to_z3(b.n),
                      z3.ForAll([k], z3.Implies(z3.And(0 <= k, k < to_z3(b.n)),
                                                z3.And([elem_same(a.cols[cn](k), b.cols[cn](k)) for cn in a.cols]))))
    if isinstance(a, ListV) and isinstance(b, ListV):
        if len(a.items) != len(b.items):
            return z3.BoolVal(False)
        return z3.And([elem_same(st.get(x) if not isinstance(x, Ref) else x, st.get(y) if not isinstance(y, Ref) else y)
                       for x, y in zip(a.items, b.items)] + [z3.BoolVal(True)])
    if isinstance(a, DictV) and isinstance(b, DictV):
        exempt = set(c.ghost.get("frame_exempt_keys", ())) if isinstance(c.ghost.get("frame_exempt_keys", ()), (tuple, list, set)) else set()
        ka = [k for k in a.d if k not in exempt]
        kb = [k for k in b.d if k not in exempt]
        if ka != kb:
            return z3.BoolVal(False)
        return z3.And([elem_same(a.d[k], b.d[k]) for k in ka] + [z3.BoolVal(True)])
    if isinstance(a, Obj) and isinstance(b, Obj):
        if a.cls != b.cls or list(a.f) != list(b.f):
            return z3.BoolVal(False)
        return z3.And([elem_same(a.f[k], b.f[k]) for k in a.f] + [z3.BoolVal(True)])
    return z3.BoolVal(False)


def elem_same(x, y):
    """Identity of stored values (NaN equals NaN here: the cell did not change)."""
    if isinstance(x, Ref) and isinstance(y, Ref):
        return z3.BoolVal(x.addr == y.addr)
    if isinstance(x, NF) or isinstance(y, NF):
        x, y = as_nf(x), as_nf(y)
        return z3.And(x.null == y.null, z3.Or(x.null, x.val == y.val))
    return z3eq(x, y)


# ----------------------------------------------------------------------------- lemmas
def lemma_env(ex, lm, st, bind=None):
    env = {}
    for name, t in lm.vars.items():
        if bind and name in bind:
            env[name] = bind[name]
            continue
        env[name] = ex.fresh_value(t, name, st)
    for fname, sig in lm.funs.items():
        from .engine import sort_of
        f = ex.ctx.uf(fname, *[sort_of(ex.ctx, s) for s in sig])
        env[fname] = Func("uf", f)
    return env


def lemma_facts(ex, name, st, bind=None):
    """A proved lemma used as a hypothesis.  Variables given in `bind` (name -> value, needed for
    vectors/tables, which are function symbols) are instantiated; the remaining scalar variables
    stay universally quantified."""
    lm = dsl.LEMMAS[name]
    s2 = State(pc=[], heap=st.heap)
    env = lemma_env(ex, lm, s2, bind)
    for vn, t in lm.vars.items():
        if not (bind and vn in bind) and not isinstance(t, (dsl._Int, dsl._Real, dsl._Bool, dsl._Str, dsl.Atom, dsl._NReal)):
            raise SpecError("lemma %s: variable %s must be bound at the use site" % (name, vn))
    ex.frames.append(Frame("lemma::" + name, None, None, None, None))
    try:
        pre = [_b(ex.spec_formula(r, dict(env), s2)) for r in lm.requires]
        post = [_b(ex.spec_formula(e if isinstance(e, str) else e[1], dict(env), s2)) for e in lm.ensures]
    finally:
        ex.frames.pop()
    consts = []
    for vn, v in env.items():
        if bind and vn in bind:
            continue
        if is_z3(v) and z3.is_const(v) and v.decl().kind() == z3.Z3_OP_UNINTERPRETED:
            consts.append(v)
        elif isinstance(v, NF):
            consts += [v.null, v.val]
    body = z3.Implies(z3.And(s2.pc + pre), z3.And(post))
    st.heap.update({k: v for k, v in s2.heap.items() if k not in st.heap})
    if lm.trusted:
        ex.ctx.used_trusted.add("lemma:" + name)
    return [z3.ForAll(consts, body) if consts else body]


def verify_lemma(ctx, name):
    lm = dsl.LEMMAS[name]
    info = dict(key="lemma::" + name, status="ok", detail="", cases=1, paths=1)
    if lm.trusted:
        ctx.used_trusted.add("lemma:" + name)
        return info
    ex = Exec(ctx)
    ctx.nl = bool(lm.nl)
    ctx.clause_sel = None
    ex.frames.append(Frame("lemma::" + name, None, None, None, None))
    try:
        st = State()
        env = lemma_env(ex, lm, st)
        for r in lm.requires:
            st.assume(_b(ex.spec_formula(r, dict(env), st)))
        for u in lm.uses:
            if isinstance(u, tuple):
                u, b = u
                bind = {k: ex.spec_value(v, dict(env), st) for k, v in b.items()}
            else:
                ul = dsl.LEMMAS[u]
                bind = {k: env[k] for k, t in ul.vars.items() if k in env and
                        not isinstance(t, (dsl._Int, dsl._Real, dsl._Bool, dsl._Str, dsl.Atom, dsl._NReal))}
            for f in lemma_facts(ex, u, st, bind):
                st.assume(f)
        ex.oblig("pre_sat", "requires", st, z3.BoolVal(True), expect="sat")
        if lm.induct:
            # induction on a natural-number variable n: prove P(0) and P(n) => P(n+1);
            # encoded by adding the hypothesis for n-1 when n > 0
            n = env[lm.induct]
            # evaluate the conclusion once on the main state first, so that ghost definitions it introduces (prefix
            # functions of vectors) are shared with, not re-created inside, the induction hypothesis
            for e in lm.ensures:
                ex.spec_formula(e if isinstance(e, str) else e[1], dict(env), st)
            s_h = State(pc=[], heap=st.heap)
            s_h.ghost = dict(st.ghost)
            env_h = dict(env)
            env_h[lm.induct] = n - 1
            pre_h = [_b(ex.spec_formula(r, dict(env_h), s_h)) for r in lm.requires]
            post_h = [_b(ex.spec_formula(e if isinstance(e, str) else e[1], dict(env_h), s_h)) for e in lm.ensures]
            # the hypothesis is generalised over all other Int/Real variables listed in `hints` (if any)
            gen = [env[h] for h in lm.hints if h in env and is_z3(env[h])]
            hyp = z3.Implies(z3.And(s_h.pc + pre_h + [n - 1 >= 0]), z3.And(post_h))
            if gen:
                hyp = z3.ForAll(gen, hyp)
            st.assume(hyp)
        for e in lm.ensures:
            lab, text = (e if not isinstance(e, str) else ("ensures", e))
            f = ex.spec_formula(text, dict(env), st)
            ex.oblig("lemma_ind" if lm.induct else "lemma", lab, st, _b(f))
    except Unsupported as exc:
        info.update(status="unsupported", detail=str(exc), trace=traceback.format_exc())
    finally:
        ex.frames[:] = []
    return info

"""JSON recipes <-> real objects <-> spec-visible views."""
import copy
import importlib
import math
import os
import sys

import numpy as np
import pandas as pd

from contracts import dsl
from .specrt import F, num

REPO = os.environ.get("VERIF_REPO", "/repo")
if REPO not in sys.path:
    sys.path.insert(0, REPO)


# ----------------------------------------------------------------------------- recipe -> real value
def _col(vals, t):
    if isinstance(t, (dsl.Atom, dsl._Str)):
        return pd.Series([str(v) for v in vals], dtype=object) if len(vals) else pd.Series([], dtype=object)
    if isinstance(t, dsl._Int):
        return pd.Series([int(v) for v in vals], dtype=np.int64)
    if isinstance(t, dsl._Bool):
        return pd.Series([bool(v) for v in vals], dtype=bool)
    return pd.Series([float("nan") if v is None else float(v) for v in vals], dtype=np.float64)


def build(v, t):
    if isinstance(t, dsl.Opt):
        return None if v is None else build(v, t.t)
    if isinstance(t, dsl.Lit):
        return v
    if isinstance(t, (dsl._Int,)):
        return int(v)
    if isinstance(t, (dsl._Real, dsl._NReal)):
        return float("nan") if v is None else float(v)
    if isinstance(t, dsl._Bool):
        return bool(v)
    if isinstance(t, (dsl._Str, dsl.Atom)):
        return str(v)
    if isinstance(t, dsl.TabT):
        cols = [c for c in v.get("__cols__", list(t.cols)) if c in v]
        df = pd.DataFrame({c: _col(v[c], t.cols.get(c, dsl.Real)).values for c in cols}, columns=cols)
        for c in cols:
            if isinstance(t.cols.get(c), (dsl.Atom, dsl._Str)):
                df[c] = df[c].astype(object) if len(df) else df[c].astype(str)
        if "__index__" in v:
            df.index = pd.Index([int(x) for x in v["__index__"]])
        return df
    if isinstance(t, dsl.ObjT):
        f = {k: build(v[k], ft) for k, ft in t.fields.items()}
        cls = find_class(t.cls)
        return cls(f["data"], f.get("meta") or None) if "data" in f else cls(**f)
    if isinstance(t, dsl.DictT):
        return {k: build(v[k], ft) for k, ft in t.items.items() if k in v} if t.items else dict(v or {})
    if isinstance(t, dsl.VecT):
        if t.kind == "list":
            return [build(x, t.elt) for x in v]
        arr = _col(v, t.elt)
        if t.kind == "series":
            return arr
        return arr.values
    if isinstance(t, dsl.TupT):
        return tuple(build(x, tt) for x, tt in zip(v, t.ts))
    if isinstance(t, dsl.SeqT):
        return [build(x, t.elt) for x in v]
    if isinstance(t, dsl.RecT):
        import collections
        nt = collections.namedtuple(t.name, list(t.fields))
        return nt(**{k: build(v[k], ft) for k, ft in t.fields.items()})
    raise TypeError("cannot build %r" % (t,))


def find_class(name):
    for mod in ("cnvlib.cnary", "skgenome.gary", "cnvlib.vary"):
        m = importlib.import_module(mod)
        if hasattr(m, name):
            return getattr(m, name)
    raise KeyError(name)


def resolve(key):
    """'cnvlib/call.py::absolute_threshold' -> python callable (unbound for methods)."""
    rel, qual = key.split("#")[0].split("::")     # "file::qual#rt" = run-time contract next to a deductive one
    modname = rel[:-3].replace("/", ".")
    if modname.endswith(".__init__"):
        modname = modname[:-9]
    obj = importlib.import_module(modname)
    for p in qual.split("."):
        obj = getattr(obj, p)
    return obj


# ----------------------------------------------------------------------------- real value -> spec view
class ColView:
    def __init__(self, arr):
        self.a = np.asarray(arr)

    def __len__(self):
        return len(self.a)

    def __getitem__(self, k):
        if isinstance(k, slice):
            return ColView(self.a[k])
        if k < 0 or k >= len(self.a):
            raise IndexError(k)
        return num(self.a[k])

    def __iter__(self):
        return (num(x) for x in self.a)

    def __eq__(self, o):
        o = list(o)
        return len(o) == len(self.a) and all(same(x, y) for x, y in zip(self, o))


class TabView:
    def __init__(self, df):
        object.__setattr__(self, "_df", df)

    def __len__(self):
        return len(self._df)

    def __getattr__(self, c):
        df = object.__getattribute__(self, "_df")
        if c == "columns":
            return tuple(df.columns)
        if c == "index":
            return ColView(df.index.values)
        if c in df.columns:
            return ColView(df[c].values)
        raise AttributeError(c)

    def __getitem__(self, c):
        return ColView(self._df[c].values)

    def __contains__(self, c):
        return c in self._df.columns


class ObjView:
    def __init__(self, o):
        self._o = o

    @property
    def data(self):
        return TabView(self._o.data)

    @property
    def meta(self):
        return dict(self._o.meta)

    def __len__(self):
        return len(self._o.data)

    def __contains__(self, c):
        return c in self._o.data.columns


def same(a, b):
    if isinstance(a, float) and isinstance(b, float) and math.isnan(a) and math.isnan(b):
        return True
    return a == b


def view(v):
    """Adapt a real value for spec evaluation."""
    if v is None or isinstance(v, (bool, str)):
        return v
    if isinstance(v, (int, float, np.integer, np.floating, np.bool_)):
        return num(v)
    if isinstance(v, pd.DataFrame):
        return TabView(v)
    if isinstance(v, (pd.Series, np.ndarray, pd.Index)):
        return ColView(v.values if hasattr(v, "values") else v)
    if hasattr(v, "data") and hasattr(v, "meta") and isinstance(getattr(v, "data"), pd.DataFrame):
        return ObjView(v)
    if isinstance(v, tuple) and hasattr(v, "_fields"):
        return type(v)(*[view(x) for x in v])
    if isinstance(v, tuple):
        return tuple(view(x) for x in v)
    if isinstance(v, list):
        return [view(x) for x in v]
    if isinstance(v, dict):
        return {k: view(x) for k, x in v.items()}
    return v


def snapshot(v):
    return copy.deepcopy(v)


def deep_equal(a, b, exempt_meta=("chr_x", "chr_y")):
    """Structural equality for the frame check."""
    if isinstance(a, pd.DataFrame) and isinstance(b, pd.DataFrame):
        return list(a.columns) == list(b.columns) and a.index.equals(b.index) and a.equals(b)
    if isinstance(a, pd.Series) and isinstance(b, pd.Series):
        return a.equals(b)
    if isinstance(a, np.ndarray) and isinstance(b, np.ndarray):
        return a.shape == b.shape and bool(np.array_equal(a, b, equal_nan=True)) if a.dtype.kind == "f" else \
            a.shape == b.shape and bool(np.array_equal(a, b))
    if hasattr(a, "data") and hasattr(a, "meta") and hasattr(b, "data"):
        ma = {k: v for k, v in a.meta.items() if k not in exempt_meta}
        mb = {k: v for k, v in b.meta.items() if k not in exempt_meta}
        return type(a) is type(b) and deep_equal(a.data, b.data) and ma == mb
    if isinstance(a, (list, tuple)) and isinstance(b, (list, tuple)):
        return type(a) is type(b) and len(a) == len(b) and all(deep_equal(x, y) for x, y in zip(a, b))
    if isinstance(a, dict) and isinstance(b, dict):
        return list(a) == list(b) and all(deep_equal(a[k], b[k]) for k in a)
    if isinstance(a, float) and isinstance(b, float):
        return a == b or (math.isnan(a) and math.isnan(b))
    try:
        return bool(a == b)
    except Exception:
        return a is b


def to_json(v):
    """Real value -> JSON-able (for replay files and evidence samples)."""
    if v is None or isinstance(v, (bool, str, int)):
        return v
    if isinstance(v, (np.integer,)):
        return int(v)
    if isinstance(v, (float, np.floating)):
        f = float(v)
        return None if math.isnan(f) else f
    if isinstance(v, pd.DataFrame):
        d = {"__cols__": list(v.columns)}
        for c in v.columns:
            d[c] = [to_json(x) for x in v[c].values]
        if not isinstance(v.index, pd.RangeIndex):
            d["__index__"] = [to_json(x) for x in v.index.values]
        return d
    if isinstance(v, (pd.Series, np.ndarray, pd.Index)):
        return [to_json(x) for x in (v.values if hasattr(v, "values") else v)]
    if hasattr(v, "data") and hasattr(v, "meta"):
        return {"__class__": type(v).__name__, "data": to_json(v.data), "meta": to_json(dict(v.meta))}
    if isinstance(v, (list, tuple)):
        return [to_json(x) for x in v]
    if isinstance(v, dict):
        return {str(k): to_json(x) for k, x in v.items()}
    return repr(v)

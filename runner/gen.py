"""Input generators for the bounded stand-in (type driven, seeded; contracts may override
per parameter with `domain={param: callable(rng, tier) -> JSON}` or give a whole-recipe
generator `domain=callable(rng, tier, i) -> recipe`)."""
import itertools
import math
import random

from contracts import dsl

REALS = [-30.0, -20.0, -5.0, -3.0, -1.1, -1.0, -0.4150375, -0.25, -0.1, 0.0, 0.1, 0.2, 0.3219281, 0.5849625, 0.7, 1.0, 1.5, 2.0,
         3.0, 5.0, 30.0]
CHROMS_CHR = ["chr1", "chr2", "chr10", "chrX", "chrY"]
CHROMS_PLAIN = ["1", "2", "10", "X", "Y"]
GENES = ["A", "B", "C", "-", "Antitarget", "A,B", "CGH", "D"]


def gen_scalar(t, rng, tier):
    if isinstance(t, dsl._Int):
        return rng.choice([0, 1, 2, 3, 4, 5, 6]) if rng.random() < 0.8 else rng.randint(-3, 40)
    if isinstance(t, dsl._Real):
        return rng.choice(REALS) if rng.random() < 0.5 else round(rng.uniform(-3, 3), rng.choice([1, 3, 6]))
    if isinstance(t, dsl._NReal):
        if rng.random() < 0.12:
            return None
        return gen_scalar(dsl.Real, rng, tier)
    if isinstance(t, dsl._Bool):
        return rng.random() < 0.5
    if isinstance(t, dsl.Atom):
        if t.sort == "Chrom":
            return rng.choice(CHROMS_CHR + CHROMS_PLAIN)
        return rng.choice(GENES)
    if isinstance(t, dsl._Str):
        return rng.choice(["a", "b", "chr1", "X", ""])
    raise TypeError(t)


def gen_table(t, rng, tier, present=None):
    sizes = [0, 1, 1, 2, 3, 4, 6] if tier == "quick" else [0, 1, 2, 3, 5, 8, 13, 30]
    n = rng.choice(sizes)
    cols = [c for c in t.cols if c not in t.opt or (present is not None and c in present) or
            (present is None and rng.random() < 0.5)]
    d = {"__cols__": cols}
    style = rng.choice([CHROMS_CHR, CHROMS_PLAIN])
    # chromosomes: contiguous blocks in natural order (the representation invariant of sorted arrays)
    k = rng.randint(1, min(len(style), max(1, n))) if n else 1
    chosen = sorted(rng.sample(range(len(style)), k))
    cuts = sorted(rng.sample(range(1, n), k - 1)) if n > 1 and k > 1 else []
    block = []
    prev = 0
    for ci, cut in zip(chosen, cuts + [n]):
        block += [style[ci]] * (cut - prev)
        prev = cut
    block = block[:n] + [style[chosen[-1]]] * (n - len(block))
    pos = 0
    starts, ends = [], []
    last_chrom = None
    for i in range(n):
        if block[i] != last_chrom:
            pos = rng.choice([0, 0, 5, 100, 60000])
            last_chrom = block[i]
        mode = rng.random()
        gap = rng.choice([0, 0, 1, 10, 1000]) if mode < 0.8 else -rng.choice([1, 5])
        s = max(0, pos + gap)
        e = s + rng.choice([1, 5, 50, 100, 2000])
        starts.append(s)
        ends.append(e)
        pos = e
    for c in cols:
        ct = t.cols[c]
        if c == "chromosome":
            d[c] = block
        elif c == "start":
            d[c] = starts
        elif c == "end":
            d[c] = ends
        else:
            d[c] = [gen_scalar(ct, rng, tier) for _ in range(n)]
    if t.index != "range" and n and rng.random() < 0.5:
        lab = rng.sample(range(0, 3 * n + 3), n)
        if t.index == "unique_sorted":
            lab = sorted(lab)
        d["__index__"] = lab
    return d


def gen_value(t, rng, tier):
    if isinstance(t, dsl.Opt):
        return None if rng.random() < 0.3 else gen_value(t.t, rng, tier)
    if isinstance(t, dsl.Lit):
        return rng.choice(t.vals)
    if isinstance(t, (dsl._Int, dsl._Real, dsl._NReal, dsl._Bool, dsl._Str, dsl.Atom)):
        return gen_scalar(t, rng, tier)
    if isinstance(t, dsl.TabT):
        return gen_table(t, rng, tier)
    if isinstance(t, dsl.ObjT):
        out = {"__class__": t.cls}
        for k, ft in t.fields.items():
            out[k] = gen_value(ft, rng, tier) if not isinstance(ft, dsl.DictT) else {}
        return out
    if isinstance(t, dsl.DictT):
        return {}
    if isinstance(t, dsl.VecT):
        n = t.n if isinstance(t.n, int) else rng.choice([0, 1, 2, 3, 5] if tier == "quick" else [0, 1, 2, 3, 5, 12, 40])
        return [gen_scalar(t.elt, rng, tier) for _ in range(n)]
    if isinstance(t, dsl.TupT):
        return [gen_value(x, rng, tier) for x in t.ts]
    if isinstance(t, dsl.RecT):
        return {k: gen_value(x, rng, tier) for k, x in t.fields.items()}
    if isinstance(t, dsl.SeqT):
        return [gen_value(t.elt, rng, tier) for _ in range(rng.choice([0, 1, 2, 3]))]
    raise TypeError("no generator for %r" % (t,))


def generate(c, n, seed, tier):
    rng = random.Random((seed * 1000003) ^ hash(c.key) & 0xFFFFFFF)
    rng = random.Random("%s|%s" % (seed, c.key))
    if c.gen is not None:
        for i in range(n):
            yield {"__gen__": [seed, i, tier]}
        return
    dom = c.domain
    if callable(dom):
        for i in range(n):
            r = dom(rng, tier, i)
            if r is None:
                return
            yield r
        return
    dom = dom or {}
    for i in range(n):
        rec = {}
        for name, t in c.params.items():
            if name in dom:
                rec[name] = dom[name](rng, tier)
            else:
                rec[name] = gen_value(t, rng, tier)
        if "__fix__" in dom:
            rec = dom["__fix__"](rec, rng, tier)
        yield rec


def describe(c, tier):
    if c.gen is not None:
        return (c.gen.__doc__ or c.gen.__name__).strip()
    if callable(c.domain):
        return (c.domain.__doc__ or c.domain.__name__).strip()
    return "type-driven random inputs (tables <= %d rows, boundary reals, NaN, both naming styles), tier %s" % (
        6 if tier == "quick" else 30, tier)


def nontrivial(c, inputs):
    """A case is non-trivial when some table/vector argument is non-empty (or there is none)."""
    if "__gen__" in inputs:
        return True
    has = False
    for v in inputs.values():
        if isinstance(v, dict) and "data" in v:
            v = v["data"]
        if isinstance(v, dict) and "__cols__" in v:
            has = True
            if any(len(v[cn]) for cn in v["__cols__"]):
                return True
        elif isinstance(v, list):
            has = True
            if len(v):
                return True
    return not has


def sorted_reals(lo_n, hi_n):
    def g(rng, tier):
        n = rng.randint(lo_n, hi_n)
        xs = set()
        while len(xs) < n:
            xs.add(rng.choice(REALS) if rng.random() < 0.6 else round(rng.uniform(-3, 3), 3))
        return sorted(xs)
    return g


def int_in(lo, hi):
    return lambda rng, tier: rng.randint(lo, hi)


def choice(*vals):
    return lambda rng, tier: rng.choice(vals)

"""Run-time semantics of the contracts: replay of counterexamples and bounded stand-in.

Runs under /venv/bin/python (the interpreter that has the repository's dependencies).
"""
import ast
import importlib
import inspect
import json
import os
import pkgutil
import sys
import time
import traceback

HERE = os.path.dirname(os.path.dirname(os.path.abspath(__file__)))
if HERE not in sys.path:
    sys.path.insert(0, HERE)

from contracts import dsl            # noqa: E402
from runner import specrt, adapt     # noqa: E402


def load_contracts():
    import contracts
    for m in pkgutil.iter_modules(contracts.__path__):
        if m.name.startswith("c_") or m.name in ("vocab", "lemmas"):
            importlib.import_module("contracts." + m.name)
    import os
    for extra in filter(None, os.environ.get("VERIF_EXTRA_CONTRACTS", "").split(",")):
        importlib.import_module("contracts." + extra)      # work-in-progress contract modules (development only)


class _Rewrite(ast.NodeTransformer):
    def __init__(self, params):
        self.params = set(params)
        self.in_old = 0

    def visit_Call(self, n):
        if isinstance(n.func, ast.Name) and n.func.id == "old" and len(n.args) == 1:
            self.in_old += 1
            e = self.visit(n.args[0])
            self.in_old -= 1
            return e
        self.generic_visit(n)
        if isinstance(n.func, ast.Name) and n.func.id == "implies" and len(n.args) == 2:
            return ast.BoolOp(ast.Or(), [ast.UnaryOp(ast.Not(), n.args[0]), n.args[1]])
        if isinstance(n.func, ast.Name) and n.func.id == "ite" and len(n.args) == 3:
            return ast.IfExp(n.args[0], n.args[1], n.args[2])
        return n

    def visit_Name(self, n):
        if self.in_old and n.id in self.params:
            return ast.copy_location(ast.Name("__old__" + n.id, ast.Load()), n)
        return n


_compiled = {}


def compile_spec(text, params):
    k = (text, tuple(params))
    if k not in _compiled:
        tree = ast.parse(text.strip(), mode="eval")
        tree = _Rewrite(params).visit(tree)
        ast.fix_missing_locations(tree)
        _compiled[k] = compile(tree, "<spec>", "eval")
    return _compiled[k]


def spec_env():
    env = {k: getattr(specrt, k) for k in dir(specrt) if not k.startswith("_")}
    env.update(dsl.SPECS)
    env.update(dsl.CONSTS)
    env["__builtins__"] = {"len": len, "abs": abs, "min": min, "max": max, "sum": sum, "range": range,
                           "all": all, "any": any, "int": int, "float": float, "str": str, "bool": bool,
                           "sorted": sorted, "set": set, "list": list, "tuple": tuple, "isinstance": isinstance,
                           "round": round, "zip": zip, "enumerate": enumerate, "dict": dict, "True": True,
                           "False": False, "None": None}
    return env


def eval_spec(text, env, params):
    return eval(compile_spec(text, params), env)


def signature_defaults(fn):
    out = {}
    try:
        sig = inspect.signature(fn)
    except (TypeError, ValueError):
        return out
    for n, p in sig.parameters.items():
        if p.default is not inspect.Parameter.empty:
            out[n] = p.default
    return out


def check_call(c, inputs, want_result=False):
    """Run the real function on `inputs` (JSON recipe) under its contract.
    Returns dict(status, clause, detail)."""
    fn = adapt.resolve(c.key) if "::" in c.key and not c.key.startswith("prop::") else None
    try:
        if "__gen__" in inputs:
            import random
            seed, i, tier = inputs["__gen__"]
            args = c.gen(random.Random("%s|%s|%s" % (seed, c.key, i)), tier, i)
            if args is None:
                return dict(status="invalid", clause="gen", detail="exhausted")
        else:
            args = {}
            for name, t in c.params.items():
                if name in inputs:
                    args[name] = adapt.build(inputs[name], t)
                else:
                    raise KeyError("recipe lacks parameter " + name)
    except Exception as exc:
        return dict(status="error", clause="build", detail="%s: %s" % (type(exc).__name__, traceback.format_exc()[-600:]))
    params = list(c.params)
    env = spec_env()
    for n, v in args.items():
        env[n] = adapt.view(v)
    # requires
    try:
        for i, r in enumerate(c.requires):
            if not eval_spec(r, env, params):
                return dict(status="invalid", clause="requires#%d" % i, detail=r)
    except Exception as exc:
        return dict(status="invalid", clause="requires", detail="%s: %s" % (type(exc).__name__, exc))
    old = {n: adapt.snapshot(v) for n, v in args.items()}
    for n, v in old.items():
        env["__old__" + n] = adapt.view(v)
    when = None
    if c.raises:
        try:
            when = bool(eval_spec(c.raises["when"], env, params))
        except Exception as exc:
            return dict(status="error", clause="raises.when", detail=repr(exc))
    exc_info = None
    result = None
    try:
        result = c.call(fn, args) if c.call else fn(**args)
        if inspect.isgenerator(result) or c.yields is not None:
            result = list(result)
    except Exception as exc:   # the real code raised
        exc_info = exc
    out = dict(status="ok", clause=None, detail="")
    if exc_info is not None:
        ename = type(exc_info).__name__
        if c.raises:
            if when and (not c.raises.get("exc") or c.raises["exc"] == ename):
                return out
            return dict(status="violation", clause="raises_only_when", detail="%s: %s" % (ename, exc_info))
        if ename in c.may_raise:
            return out
        return dict(status="violation", clause="raise_unreach(%s)" % ename, shown=adapt.to_json(args),
                    detail="%s: %s" % (ename, str(exc_info)[:300]),
                    trace="".join(traceback.format_exception(type(exc_info), exc_info, exc_info.__traceback__)[-6:]))
    if c.raises and when:
        return dict(status="violation", clause="raises_when", detail="no exception although: " + c.raises["when"])
    for n, v in args.items():
        env[n] = adapt.view(v)
    env["result"] = adapt.view(result)
    for lab, text in c.ensures:
        try:
            ok = eval_spec(text, env, params)
        except Exception as exc:
            return dict(status="violation", clause="post:" + lab,
                        detail="postcondition not evaluable on the result: %s: %s" % (type(exc).__name__, exc),
                        observed=adapt.to_json(result))
        if not ok:
            return dict(status="violation", clause="post:" + lab, detail=text, observed=adapt.to_json(result))
    for lab, f in c.checks:
        try:
            msg = f(args, result, old)
        except Exception as exc:
            msg = "check not evaluable: %s" % traceback.format_exc()[-500:]
        if msg:
            return dict(status="violation", clause="post:" + lab, detail=str(msg)[:1500], observed=adapt.to_json(result),
                        shown=adapt.to_json(old))
    for n, v in args.items():
        if n in c.modifies:
            continue
        if not adapt.deep_equal(v, old[n]):
            return dict(status="violation", clause="frame:" + n, detail="argument changed by the call",
                        observed=adapt.to_json(v), before=adapt.to_json(old[n]))
    if want_result:
        out["result"] = adapt.to_json(result)
    return out


# ----------------------------------------------------------------------------- CLI
def cmd_replay(path):
    with open(path) as fh:
        rec = json.load(fh)
    load_contracts()
    c = dsl.CONTRACTS[rec["function"]]
    r = check_call(c, rec["inputs"])
    rec_out = dict(rec)
    rec_out["replay"] = r
    print(json.dumps(dict(status=r["status"], clause=r.get("clause"), detail=r.get("detail", "")[:500])))
    return 1 if r["status"] == "violation" else 0


def cmd_batch(path_in, path_out):
    """Check many recipes: input JSON list of {function, inputs}; output verdicts."""
    load_contracts()
    with open(path_in) as fh:
        jobs = json.load(fh)
    res = []
    for j in jobs:
        c = dsl.CONTRACTS[j["function"]]
        try:
            r = check_call(c, j["inputs"])
        except Exception as exc:
            r = dict(status="error", clause="runner", detail=traceback.format_exc()[-800:])
        res.append(r)
    with open(path_out, "w") as fh:
        json.dump(res, fh)
    return 0


def _standin_one(job):
    from runner import gen
    key, n, seed, tier = job
    c = dsl.CONTRACTS[key]
    rec = dict(function=key, evaluations=0, valid=0, invalid=0, distinct=0, violations=0, errors=0,
               bound=gen.describe(c, tier), samples=[], tier_of_contract="bounded" if c.bounded else "deductive+runtime")
    viol = []
    seen = set()
    t0 = time.time()
    budget = float(os.environ.get("VERIF_STANDIN_BUDGET_S", "60" if tier == "quick" else "900"))
    for inputs in gen.generate(c, n, seed, tier):
        if time.time() - t0 > budget:
            rec["stopped_by_budget_s"] = budget
            break
        try:
            r = check_call(c, inputs)
        except Exception:
            r = dict(status="error", clause="runner", detail=traceback.format_exc()[-800:])
        if r["status"] == "invalid" and r.get("clause") == "gen":
            rec["exhaustive"] = True
            break
        rec["evaluations"] += 1
        if r["status"] == "invalid":
            rec["invalid"] += 1
            continue
        if r["status"] == "error":
            rec["errors"] += 1
            if len(rec.get("error_samples", [])) < 2:
                rec.setdefault("error_samples", []).append(dict(inputs=inputs, detail=r.get("detail", "")[:600]))
            continue
        rec["valid"] += 1
        h = json.dumps(inputs, sort_keys=True, default=str)
        if h not in seen:
            seen.add(h)
            if gen.nontrivial(c, inputs):
                rec["distinct"] += 1
        if len(rec["samples"]) < 2 and gen.nontrivial(c, inputs):
            rec["samples"].append(inputs if "__gen__" not in inputs else dict(inputs, shown=r.get("shown_inputs")))
        if r["status"] == "violation":
            rec["violations"] += 1
            if len([v for v in viol if v["clause"] == r["clause"]]) < 3:
                viol.append(dict(function=key, clause=r["clause"], detail=r.get("detail", "")[:1500],
                                 inputs=inputs, observed=r.get("observed"), shown=r.get("shown")))
    rec["seconds"] = round(time.time() - t0, 2)
    return rec, viol


def cmd_standin(prop, n, seed, path_out, tier="quick", only=None):
    """Bounded stand-in: every contract of the property, run-time checked on generated inputs."""
    load_contracts()
    import logging
    import multiprocessing as mp
    import pandas as pd
    logging.disable(logging.CRITICAL)
    assert int(pd.__version__.split(".")[0]) >= 3, "pandas >= 3 (copy-on-write always on) is assumed by the contracts"
    out = dict(property=prop, functions=[], violations=[], wall_s=0.0)
    t0 = time.time()
    jobs = []
    for key, c in dsl.CONTRACTS.items():
        if prop not in c.props and prop != "ALL":
            continue
        if only and only not in key:
            continue
        if c.domain == "skip":
            continue
        # bounded-tier contracts enumerate their own scope (gen returns None when exhausted) under the time budget
        nn = n if c.gen is None else 10 ** 9
        jobs.append((key, nn, seed, tier))
    if len(jobs) > 1:
        # non-daemonic workers: the code under test may start its own process pools
        from concurrent.futures import ProcessPoolExecutor
        with ProcessPoolExecutor(max_workers=min(16, len(jobs)), mp_context=mp.get_context("fork")) as pool:
            res = list(pool.map(_standin_one, jobs))
    else:
        res = [_standin_one(j) for j in jobs]
    for rec, viol in res:
        out["functions"].append(rec)
        out["violations"] += viol
    out["wall_s"] = time.time() - t0
    with open(path_out, "w") as fh:
        json.dump(out, fh, default=str)
    return 0


if __name__ == "__main__":
    a = sys.argv[1:]
    if a[0] == "replay":
        sys.exit(cmd_replay(a[1]))
    if a[0] == "batch":
        sys.exit(cmd_batch(a[1], a[2]))
    if a[0] == "standin":
        sys.exit(cmd_standin(a[1], int(a[2]), int(a[3]), a[4], a[5] if len(a) > 5 else "quick",
                             a[6] if len(a) > 6 else None))
    sys.exit(3)

"""Executable semantics of the spec language (run under /venv/bin/python or any CPython).

Reals are floats compared with a tolerance (floats are not reals): class F.
"""
import math

REL, ABS = 1e-11, 1e-11


def _close(a, b):
    a, b = float(a), float(b)
    if a == b:
        return True
    if math.isnan(a) or math.isnan(b):
        return False
    if math.isinf(a) or math.isinf(b):
        return False
    return abs(a - b) <= max(ABS, REL * max(abs(a), abs(b)))


class F(float):
    """float with tolerant comparisons; arithmetic stays in F."""
    __slots__ = ()

    def __eq__(self, o):
        try:
            return _close(self, o)
        except (TypeError, ValueError):
            return False

    def __ne__(self, o):
        return not self.__eq__(o)

    # ordering is exact IEEE (inputs are exact floats; thresholds must be compared as the code does);
    # only equality is tolerant.  Use le()/ge() below where a computed bound needs slack.
    def __lt__(self, o):
        return float(self) < float(o)

    def __gt__(self, o):
        return float(self) > float(o)

    def __le__(self, o):
        return float(self) <= float(o)

    def __ge__(self, o):
        return float(self) >= float(o)

    __hash__ = float.__hash__

    def __add__(self, o):
        return F(float(self) + float(o))
    __radd__ = __add__

    def __sub__(self, o):
        return F(float(self) - float(o))

    def __rsub__(self, o):
        return F(float(o) - float(self))

    def __mul__(self, o):
        return F(float(self) * float(o))
    __rmul__ = __mul__

    def __truediv__(self, o):
        return F(float(self) / float(o))

    def __rtruediv__(self, o):
        return F(float(o) / float(self))

    def __neg__(self):
        return F(-float(self))

    def __abs__(self):
        return F(abs(float(self)))

    def __pow__(self, o):
        return F(float(self) ** float(o))

    def __rpow__(self, o):
        return F(float(o) ** float(self))


def num(x):
    """Wrap a concrete number for spec evaluation."""
    if isinstance(x, bool) or x is None or isinstance(x, str):
        return x
    if isinstance(x, int):
        return x
    try:
        import numpy as np
        if isinstance(x, (np.bool_,)):
            return bool(x)
        if isinstance(x, np.integer):
            return int(x)
        if isinstance(x, np.floating):
            return F(float(x))
    except ImportError:
        pass
    if isinstance(x, float):
        return F(x)
    return x


def forall(*a):
    if len(a) == 3:
        lo, hi, f = a
        return all(f(k) for k in range(int(lo), int(hi)))
    if len(a) == 1:
        # unbounded integer quantifier: at run time instantiated at the integers 0..12 (bounded check only)
        return all(a[0](k) for k in range(0, 13))
    raise TypeError("forall(lo, hi, f) or forall(f)")


def exists(*a):
    if len(a) == 3:
        lo, hi, f = a
        return any(f(k) for k in range(int(lo), int(hi)))
    raise TypeError("unbounded exists is not executable")


def implies(a, b):          # the runner rewrites implies() into a short-circuit form; kept for direct use
    return (not a) or b


def ite(c, a, b):
    return a if c else b


def let(f, *vals):
    return f(*vals)


def exp2(x):
    return F(2.0 ** float(x))


def log2(x):
    return F(math.log2(float(x)))


def trunc(x):
    return int(float(x))


def ceil(x):
    return int(math.ceil(float(x)))


def floor(x):
    return int(math.floor(float(x)))


def rnd(x):
    return int(round(float(x)))


def isnull(x):
    if x is None:
        return True
    try:
        return math.isnan(float(x))
    except (TypeError, ValueError):
        return False


def val(x):
    return x


def lower(s):
    return s.lower()


def real(x):
    return F(float(x))


def le(a, b):
    """a <= b up to the real-arithmetic tolerance (for bounds on computed values)"""
    return float(a) <= float(b) or _close(a, b)


def ge(a, b):
    return float(a) >= float(b) or _close(a, b)


def startswith(s, p):
    return s.startswith(p)


def use(_name, **kw):
    """proof hint (a proved lemma instance): true at run time"""
    return True


def sqrt(x):
    return F(math.sqrt(float(x)))


def median_of(v):
    import numpy as np
    return F(float(np.median([float(x) for x in v])))


def count(s, ch):
    return s.count(ch)


def some(x):
    return x


def sumof(v):
    return sum(v)


class Vec(list):
    """Vec(n, f): the vector [f(0), ..., f(n-1)] (spec language)"""

    def __init__(self, n, f):
        list.__init__(self, [f(k) for k in range(int(n))])


def psum(v, m):
    return sum(list(v)[:int(m)])

#!/bin/sh
# Offline setup: nothing to build; verify that both interpreters and the solvers are usable.
cd "$(dirname "$0")" || exit 1
python3-vt -c "import z3, sys; assert z3.get_version_string().startswith('5.'), z3.get_version_string()" || exit 1
/venv/bin/python -c "import pandas, numpy, cnvlib, skgenome; assert int(pandas.__version__.split('.')[0]) >= 3" || exit 1
test -x /usr/bin/cvc5 || echo "note: /usr/bin/cvc5 missing (second-opinion back end disabled)"
mkdir -p evidence replays
echo setup-ok

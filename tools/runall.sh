#!/bin/sh
# tools/runall.sh [seed] [tier]: run every claimed check once, report exit codes and evidence validity.
cd "$(dirname "$0")/.." || exit 3
SEED="${1:-0}"; TIER="${2:-quick}"
for P in $(python3 -c "import json;print(' '.join(c['property_id'] for c in json.load(open('MANIFEST.json'))['checks']))"); do
  T0=$(date +%s)
  VERIF_SEED=$SEED ./check $P --tier $TIER > /tmp/runall_$P.log 2>&1; RC=$?
  T1=$(date +%s)
  echo "$P seed=$SEED exit=$RC $((T1-T0))s $(grep -c '^VIOLATION' /tmp/runall_$P.log) violations; $(grep -m1 '^property' /tmp/runall_$P.log | cut -c1-150)"
  grep '^VIOLATION\|^CHECKER\|^DEGRADED' /tmp/runall_$P.log | head -3
done
python3-vt - <<'PY'
import json,jsonschema,glob
sch=json.load(open('/root/.vp/EVIDENCE.schema.json'))
m={c['property_id']:c for c in json.load(open('MANIFEST.json'))['checks']}
for f in sorted(glob.glob('evidence/*.json')):
    ev=json.load(open(f)); pid=ev['property_id']
    try:
        jsonschema.validate(ev,sch); ok='valid'
    except Exception as e:
        ok='INVALID '+str(e)[:80].replace('\n',' ')
    claim=m.get(pid,{}).get('level_claimed',{}).get('category')
    print(pid, 'level', ev['level'], 'claimed', claim, 'MISMATCH' if claim!=ev['level'] else '', ok)
PY

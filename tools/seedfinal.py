#!/usr/bin/env python3
"""tools/seedfinal.py <seedtest log> [...]: record, in seeded/<id>/meta.json and seeded/INDEX.md, the verdict of the quick
check of the final commit on every seeded change (lines printed by tools/seedtest.sh; its output directories hold the logs
and replays, from which the first failed obligation / clause is read)."""
import json
import os
import re
import sys

ROOT = os.path.dirname(os.path.dirname(os.path.abspath(__file__)))
SEEDED = os.path.join(ROOT, "seeded")


def first_failed(sid):
    outd = "/tmp/seedtest/out_%s" % sid
    log = os.path.join(outd, "log")
    if not os.path.isfile(log):
        return None, None
    for line in open(log):
        if line.startswith("VIOLATION"):
            m = re.search(r"replay=(\S+)", line)
            if m and os.path.isfile(os.path.join(outd, m.group(1))):
                r = json.load(open(os.path.join(outd, m.group(1))))
                what = r.get("obligation") or r.get("clause") or ""
                tier = "deductive" if "bounded stand-in" not in str(r.get("solver", "")) else "bounded"
                return "%s %s" % (r.get("function", ""), what.split("/")[-1] if "/" in what else what), tier
    return None, None


def main(files):
    verdict = {}
    for f in files:
        for line in open(f):
            m = re.match(r"(C\d+_\d+) (C\d+) exit=(\d+) violations=(\d+)", line)
            if m:
                verdict[m.group(1)] = (int(m.group(3)), int(m.group(4)))
    rows = []
    for sid in sorted(os.listdir(SEEDED)):
        mp = os.path.join(SEEDED, sid, "meta.json")
        if not os.path.isfile(mp):
            continue
        meta = json.load(open(mp))
        if sid in verdict:
            ff, tier = first_failed(sid)
            meta["final_check"] = dict(exit=verdict[sid][0], violations=verdict[sid][1], first_failed=ff, tier_of_first_failure=tier,
                                       how="tools/seedtest.sh at the final commit (patched scratch worktree, quick tier)")
            json.dump(meta, open(mp, "w"), indent=1)
        fc = meta.get("final_check") or {}
        rows.append((sid, meta["property"], meta.get("function", "").split(" (")[0][:70],
                     "caught" if fc.get("exit") == 1 else ("MISSED" if fc.get("exit") == 0 else "?"),
                     fc.get("tier_of_first_failure") or "", (fc.get("first_failed") or "")[:120]))
    with open(os.path.join(SEEDED, "INDEX.md"), "w") as fh:
        fh.write("Verdict of each property's quick check at the final commit on every seeded change "
                 "(first VIOLATION reported; `deductive` = a named proof obligation fails, `bounded` = a run-time clause "
                 "fails on a generated input that replays).\n\n")
        fh.write("| seed | property | changed function | quick check | tier | first failed obligation / clause |\n|---|---|---|---|---|---|\n")
        for r in rows:
            fh.write("| %s | %s | `%s` | %s | %s | `%s` |\n" % r)
    n = len(rows)
    c = sum(1 for r in rows if r[3] == "caught")
    d = sum(1 for r in rows if r[4] == "deductive")
    print("%d seeds, %d caught, %d of them first by a deductive obligation; not caught: %s" % (
        n, c, d, [r[0] for r in rows if r[3] != "caught"]))


if __name__ == "__main__":
    main(sys.argv[1:])

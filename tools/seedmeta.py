#!/usr/bin/env python3
"""tools/seedmeta.py <results.jsonl> [...]: merge the verdicts of tools/seedverify.sh into seeded/<id>/meta.json
(later files override earlier ones) and write seeded/INDEX.md, the seed -> check table quoted in DESIGN.md."""
import json
import os
import sys

ROOT = os.path.dirname(os.path.dirname(os.path.abspath(__file__)))
SEEDED = os.path.join(ROOT, "seeded")


def main(files):
    res = {}
    for f in files:
        for line in open(f):
            line = line.strip()
            if not line:
                continue
            d = json.loads(line)
            if d.get("check_exit", -1) == 3 or d.get("patch_applies", 0) != 0:
                continue                      # checker was being edited / patch had to be rebased: superseded by a later run
            res[d["id"]] = d
    rows = []
    for sid in sorted(os.listdir(SEEDED)):
        mp = os.path.join(SEEDED, sid, "meta.json")
        if not os.path.isfile(mp):
            continue
        meta = json.load(open(mp))
        r = res.get(sid)
        if r:
            ok = (r["demo_clean_exit"] == 0 and r["demo_patched_exit"] == 1 and r["tests_same"] == 0)
            meta["confirmed_by_me"] = dict(
                how=("tools/seedverify.sh in a scratch worktree of /repo HEAD: demo.py exits 0 on the clean tree, patch.diff "
                     "applies, demo.py exits 1 with it, `pytest test/` PASSED set identical to the clean tree's (64 tests), "
                     "then `VERIF_REPO=<worktree> ./check %s --tier quick`" % meta["property"]),
                demo_clean_exit=r["demo_clean_exit"], demo_patched_exit=r["demo_patched_exit"],
                tests_unchanged=(r["tests_same"] == 0), confirmed=ok)
            meta["check_result"] = dict(exit=r["check_exit"], violations=r["violations"], first_failed=r["caught_by"])
        json.dump(meta, open(mp, "w"), indent=1)
        cr = meta.get("check_result", {})
        rows.append((sid, meta["property"], meta.get("function", ""), "caught" if cr.get("exit") == 1 else
                     ("MISSED" if cr.get("exit") == 0 else "?"), cr.get("first_failed", "")))
    with open(os.path.join(SEEDED, "INDEX.md"), "w") as fh:
        fh.write("| seed | property | changed function | quick check | first failed obligation / run-time clause |\n|---|---|---|---|---|\n")
        for r in rows:
            fh.write("| %s | %s | `%s` | %s | `%s` |\n" % (r[0], r[1], r[2].split(" (")[0][:70], r[3], r[4][:110]))
    n = len(rows)
    c = sum(1 for r in rows if r[3] == "caught")
    print("%d seeds, %d caught by the quick check, %d missed/unknown" % (n, c, n - c))
    for r in rows:
        if r[3] != "caught":
            print("  ", r[0], r[3])


if __name__ == "__main__":
    main(sys.argv[1:])

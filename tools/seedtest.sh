#!/bin/sh
# tools/seedtest.sh <seed dir with patch.diff + meta.json> [tier]
# Applies the seeded change to a scratch worktree of /repo HEAD, runs the property's check against it
# (VERIF_REPO), prints the verdict, removes the worktree.  Never touches /repo's working tree or /verif/evidence.
set -u
SEED="$1"; TIER="${2:-quick}"
ID=$(basename "$SEED")
PROP=$(python3 -c "import json,sys;print(json.load(open('$SEED/meta.json'))['property'])")
WT=/tmp/seedtest/$ID
OUTD=/tmp/seedtest/out_$ID
rm -rf "$WT" "$OUTD"; mkdir -p /tmp/seedtest "$OUTD"
git -C /repo worktree add --detach "$WT" HEAD >/dev/null 2>&1 || { echo "$ID worktree-failed"; exit 2; }
if ! git -C "$WT" apply "$SEED/patch.diff" 2>/dev/null; then
  echo "$ID $PROP patch-does-not-apply"; git -C /repo worktree remove --force "$WT"; exit 2
fi
cd "$(dirname "$0")/.." || exit 3
VERIF_REPO="$WT" VERIF_OUT="$OUTD" ./check "$PROP" --tier "$TIER" > "$OUTD/log" 2>&1
RC=$?
NV=$(grep -c '^VIOLATION' "$OUTD/log")
echo "$ID $PROP exit=$RC violations=$NV $(grep -m1 '^VIOLATION' "$OUTD/log" | cut -c1-120)"
git -C /repo worktree remove --force "$WT"
exit 0

#!/bin/sh
# tools/seedverify.sh <seed dir> <baseline pass list>
# Confirms a seeded change independently: demo passes on the clean tree, patch applies, demo fails with it,
# the existing tests pass exactly as before; then runs the property's quick check against the changed tree.
# Prints one JSON line.  Works in a scratch worktree of /repo HEAD which is removed afterwards.
set -u
SEED="$1"; BASE="$2"
VROOT=$(cd "$(dirname "$0")/.." && pwd)
ID=$(basename "$SEED")
PROP=$(python3 -c "import json;print(json.load(open('$SEED/meta.json'))['property'])")
WT=/tmp/seedverify/$ID; OUTD=/tmp/seedverify/out_$ID
rm -rf "$WT" "$OUTD"; mkdir -p /tmp/seedverify "$OUTD"
git -C /repo worktree add --detach "$WT" HEAD >/dev/null 2>&1 || { echo "{\"id\":\"$ID\",\"error\":\"worktree\"}"; exit 0; }
cd "$WT"
PYTHONPATH="$WT" timeout 600 /venv/bin/python "$SEED/demo.py" > "$OUTD/demo_clean.log" 2>&1; DC=$?
if git apply "$SEED/patch.diff" 2>"$OUTD/apply.log"; then AP=0; else AP=1; fi
DP=-1; TP=-1; RC=-1; NV=0
if [ $AP -eq 0 ]; then
  PYTHONPATH="$WT" timeout 600 /venv/bin/python "$SEED/demo.py" > "$OUTD/demo_patched.log" 2>&1; DP=$?
  PYTHONPATH="$WT" timeout 1200 /venv/bin/python -m pytest -q -p no:cacheprovider --timeout=900 -rA test/ 2>/dev/null | grep '^PASSED' | sort > "$OUTD/pass.txt"
  if cmp -s "$OUTD/pass.txt" "$BASE"; then TP=0; else TP=1; fi
  rm -f test/chrM-Y-trunc.hg19.bed
  cd "$VROOT"
  VERIF_REPO="$WT" VERIF_OUT="$OUTD" ./check "$PROP" --tier quick > "$OUTD/check.log" 2>&1; RC=$?
  NV=$(grep -c '^VIOLATION' "$OUTD/check.log")
fi
FIRST=$(grep -m1 '^VIOLATION' "$OUTD/check.log" 2>/dev/null | cut -c1-100)
RP=$(echo "$FIRST" | sed -n 's/.*replay=\([^ ]*\).*/\1/p')
CL=""
if [ -n "$RP" ] && [ -f "$OUTD/$RP" ]; then CL=$(python3 -c "import json;r=json.load(open('$OUTD/$RP'));print((r.get('function','')+' '+str(r.get('clause') or r.get('obligation','')))[:160])"); fi
echo "{\"id\":\"$ID\",\"property\":\"$PROP\",\"demo_clean_exit\":$DC,\"patch_applies\":$AP,\"demo_patched_exit\":$DP,\"tests_same\":$TP,\"check_exit\":$RC,\"violations\":$NV,\"caught_by\":\"$CL\"}"
cd /; git -C /repo worktree remove --force "$WT" >/dev/null 2>&1
exit 0

"""Regenerate MANIFEST.json from the table below (keeps the file valid and consistent)."""
import json

TECH = ("deductive verification: ast->VC generator (pyvc) over sidecar contracts, z3/cvc5; bounded symbolic refuter + "
        "run-time contract replay")

CLAIMED = {
    "C01": dict(
        category="proof",
        text="Every obligation generated from the real ASTs of do_call (no filters/variants; all 3 methods x purity given or not "
             "x 3 PAR builds x with/without baf), get_as_dframe_and_set_reference_and_expect_copies (with the real "
             "chr_x/chr_y/PAR filter methods of CopyNumArray inlined), absolute_dataframe, absolute_clonal, absolute_pure, "
             "log2_ratios, _log2_ratio_to_absolute(_pure) and _reference_copies_pure is discharged by SMT for all tables of "
             "any length: per-row reference/expected copies equal the class table of the statement, the purity formula "
             "inverts the mixing model (lemma L1, nonlinear), cn = n on model-consistent log2, rescaled log2 as stated for "
             "even ploidy, cn nearest integer to r*2^log2 without purity, and cn >= 0 on every path.",
        note="floats as reals; exp2/log2 abstract with axioms; log2_doubling identity trusted; symbolic products uninterpreted "
             "outside the nonlinear lemma/clauses; pandas/numpy models listed in evidence.assumptions; do_call is verified "
             "for filters=None and variants=None (filters are C14's, BAF lookup C18's)",
        technique=TECH, design_ref="8 (C01), 3, 5"),
    "C05": dict(
        category="other",
        text="Run-time contracts (bounded stand-in) on the real do_reference over generated cohort files (1..8 samples, any sex "
             "mix, depth scales, noise, naming style, with/without/empty antitarget files, male/female reference, sexes given "
             "or inferred, corrections off): the reference has exactly the input bins and each bin's log2/spread equal "
             "biweight location/midvariance over the samples plus one neutral pseudo-sample of each sample's median-centred, "
             "sex-shifted log2; files whose bins differ are rejected; depth-only variation gives spread ~ 0; chrX 1.0 below "
             "the autosomal baseline for a male reference and on it for a female one, chrY at -1.0; do_reference_flat gives "
             "0 / -1 on Y / -1 on X only for a male reference and gc/rmask as G+C and lowercase fractions of unambiguous bases.",
        note="the exact oracle reuses the package's biweight estimators (C19) and center_all (C15); corrections-on clauses and "
             "the '~ 0' wording are approximate and only sampled",
        technique="contract-based: run-time contracts with an exact per-bin oracle on generated cohort files (bounded stand-in)",
        design_ref="8 (C05)"),
    "C06": dict(
        category="other",
        text="Run-time contracts (bounded stand-in, never counted as proved) on the real GenomicArray.merge/flatten/subtract/"
             "intersection(trim)/subdivide/resize_ranges with oracles written as set algebra on base pairs: exhaustive over "
             "every pair of multisets of <= 2 intervals over coordinates 0..4 (thorough: <= 2 x <= 3 over 0..6) decorated with "
             "second-chromosome rows and a gene column, then random tables to 40 rows / 10^6 coordinates.",
        note="deductive kernels for this property are listed in the evidence when present; pandas sort_values/groupby.apply "
             "glue is only reached by the stand-in",
        technique="contract-based: run-time contracts on exhaustive small scopes and seeded random tables (bounded stand-in); "
                  "deductive obligations where listed in evidence",
        design_ref="8 (C06)"),
    "C07": dict(
        category="other",
        text="Run-time contracts (bounded stand-in) on the real by_ranges/intersection/in_range/into_ranges/iter_ranges_of with "
             "the statement's hit predicate as oracle (outer: overlap by one base; inner: containment; trim: clipped): "
             "exhaustive over <= 2 rows x <= 2 queries over coordinates 0..4 x 3 modes x keep_empty (thorough: <= 2 x <= 3 over "
             "0..6), filtered receivers with non-default index, open-ended queries, random nested/duplicated/abutting tables.",
        note="deductive kernels for this property are listed in the evidence when present",
        technique="contract-based: run-time contracts on exhaustive small scopes and seeded random tables (bounded stand-in); "
                  "deductive obligations where listed in evidence",
        design_ref="8 (C07)"),
    "C03": dict(
        category="other",
        text="Run-time contracts (bounded stand-in) on the real do_segmentation for none, haar, hmm, hmm-tumor, hmm-germline x "
             "skip_low x outlier filter x min_weight x 1..16 processes on generated bin tables (centromere gaps, zero-weight "
             "and null-coverage bins at edges and interior, X/Y): per chromosome sorted, positive-length, non-overlapping "
             "segments inside the input span; every surviving bin in exactly one segment whose probes counts them; per-arm "
             "methods reach the arm's first and last input bin; weight/depth/gene aggregated over all spanned input bins; "
             "log2 = weight-averaged log2 of the surviving bins for none and hmm*; by_arm partitions each chromosome.",
        note="HMM state sequences, haar wavelet statistics and pomegranate are outside any contract; cbs/flasso need R and "
             "are not exercised; the surviving-bin set is computed with the package's own filters",
        technique="contract-based: run-time contracts with a tiling oracle on seeded random bin tables (bounded stand-in)",
        design_ref="8 (C03)"),
    "C04": dict(
        category="other",
        text="Run-time contracts (bounded stand-in) on the real do_fix / load_adjust_coverages: emitted bins = sample bins whose "
             "coordinate-matched reference bin passes the filters, in genomic order; ValueError for a sample bin absent from "
             "the reference or duplicated coordinates; corrections off: log2 = sample - reference + one constant per class; "
             "each single correction (gc, edge formula) equals log2 minus the rolling median over bins ordered by the covariate; "
             "centred on the autosomal chromosome medians; weights in [1e-4, 1], monotone in bin size and reference spread; "
             "output unchanged by rescaling the sample depth and by permuting the rows of every input.",
        note="rolling_median and the estimators are contracted under C19; invariance is a two-execution property only the "
             "stand-in can check; covariates are generated without ties (ties are ordered by a seeded shuffle)",
        technique="contract-based: run-time contracts with statement-derived oracles and metamorphic re-execution on seeded "
                  "random references/samples (bounded stand-in)",
        design_ref="8 (C04)"),
    "C08": dict(
        category="other",
        text="Run-time contracts (bounded stand-in) over real files: write -> read -> write -> read for tab, bed3, bed4, "
             "interval list and chr:start-end text (identical coordinates, names, integer columns, numbers to 6 significant "
             "digits, rows in natural chromosome/start/end order, byte-identical second write); auto-detection yields the "
             "explicit parser's table for names of letters/digits/underscores; hand-written GFF, SEG, interval-list, text and "
             "Picard per-target files with known 1-based coordinates read to 0-based half-open; write_seg -> parse_seg round "
             "trip for 1..4 samples; sorter_chrom against the natural order 1..22, X, Y, M.",
        note="csv formatting/parsing and the regex engine are library code; VCF reading is covered under C18",
        technique="contract-based: run-time contracts on generated tables through real file I/O (bounded stand-in)",
        design_ref="8 (C08)"),
    "C09": dict(
        category="other",
        text="Run-time contracts (bounded stand-in) on the real do_coverage over synthetic coordinate-sorted BAMs written with "
             "pysam (1..3 contigs, reads of 30..150 bases with soft clips, every excluded-flag combination, MAPQ 0..60, reads "
             "straddling bin edges and contig ends) and BED files (3/4/6 columns, abutting, overlapping, zero-width, "
             "off-contig-end bins, more than one 5000-line chunk incl. exact multiples): every bin's depth = aligned bases of "
             "counted reads inside it / bin length, log2 = log2(depth) or -20, rows keep coordinates and names, pileup and count "
             "agree, 1..3 processes agree; to_chunks partitions the non-comment lines into chunks of at most the chunk size.",
        note="what samtools bedcov and pysam fetch count is C code outside any contract: the synthetic-BAM oracle is its only "
             "check; reads carry no indels (the statement's condition for pileup = count)",
        technique="contract-based: run-time contracts with an independent depth oracle over generated BAM/BED files (bounded "
                  "stand-in)",
        design_ref="8 (C09)"),
    "C10": dict(
        category="other",
        text="Frames: every contract's arguments are deep-compared before/after each call (run time) and, in the deductive "
             "tier, proved unchanged by frame obligations; plus run-time contracts specific to C10: caller-owned lists of "
             "do_call/by_gene/get_gene_intervals/transfer_fields untouched; segment/segmetrics/fix/bintest/shuffle+sort "
             "repeatable under arbitrary global RNG state and 1 vs N workers; random call sequences of length <= 4 over 21 "
             "operations on shared objects equal the same operation on fresh objects and leave the shared objects unchanged; "
             "k x (ensure_path; write) leaves k files and never touches pre-existing numbered backups.",
        note="process scheduling itself is not explored (ordered pool.map is assumed); sequences are sampled, not enumerated",
        technique="contract-based: frame clauses (deductive where the function is in the subset) + run-time contracts on "
                  "generated call sequences (bounded stand-in)",
        design_ref="8 (C10)"),
    "C12": dict(
        category="other",
        text="Run-time contracts (bounded stand-in) on the real do_target (split on/off, label shortening), shorten_labels and "
             "do_antitarget with base-set oracles from the statement: split targets cover exactly the union of the non-empty "
             "baits in max(1, round(len/avg)) equal bins; antitarget bins lie in (access shrunk by 500) minus (targets padded "
             "by 500) also for nested/overlapping baits, are disjoint, named Antitarget, sized within [min, 1.5 avg], and cover "
             "every off-target accessible stretch >= min on every targeted or canonically named contig. The interval kernels "
             "used (subtract, subdivide, resize_ranges, merge) carry their own contracts under C06.",
        note="minimum bin sizes above half the average are outside the generated scope (the size clause then conflicts with "
             "equal splitting); contig-name regex taken from the package documentation",
        technique="contract-based: run-time contracts with base-set oracles on seeded random bait/access tables (bounded "
                  "stand-in); deductive obligations where listed in evidence",
        design_ref="8 (C12)"),
    "C13": dict(
        category="other",
        text="Run-time contracts (bounded stand-in): get_regions against the maximal-non-N-run oracle exhaustively for every "
             "text over {N,A,n} of length <= 7 (thorough <= 9) x every line width, plus random multi-sequence FASTA files; "
             "do_access end to end (exclude BEDs with overlapping/nested/edge-touching rows, min gap 0..300, "
             "skip_noncanonical) against runs minus excluded, joined below the gap size, sorted and separated by >= 1 base.",
        note="the line scanner mixes string tests with numpy byte arrays (outside the deductive subset); deductive kernels are "
             "listed in evidence when present",
        technique="contract-based: run-time contracts, exhaustive small scope + seeded random FASTA/BED files (bounded stand-in)",
        design_ref="8 (C13)"),
    "C14": dict(
        category="other",
        text="Run-time contracts (bounded stand-in) on the real segfilters.cn/ci/sem/ampdel against a run-merging oracle "
             "written from the statement (maximal runs of equal level per chromosome incl. allele-specific cn with missing "
             "values; first start, last end, summed probes and weight, weight-averaged log2; conservation), and on "
             "do_call(filters=...) for every ordered list of distinct filters with at most one of ci/sem x calling method "
             "(ci/sem first, then the given order; spans and probes conserved; caller's list unchanged).",
        note="pandas groupby.apply plumbing is outside the deductive subset; deductive kernels are listed in evidence when present",
        technique="contract-based: run-time contracts with a statement-derived oracle on seeded random segment tables "
                  "(bounded stand-in); deductive obligations where listed in evidence",
        design_ref="8 (C14)"),
    "C20": dict(
        category="other",
        text="Run-time contracts (bounded stand-in) on the real export_bed (three show modes), segments2vcf (one record per non-neutral segment; POS, END, SVTYPE/ALT, SVLEN sign, CN for gains), write_seg (1-based starts under each sample ID, chromosome renumbering), merge_samples+fmt_cdt/fmt_jtv over real files (one row per bin, one column per sample, refusal of mismatching bins and duplicate IDs) and export_nexus_basic, with the expected-copies table of C01 (cls_of / Xcopies) as oracle.",
        note="deductive kernels are listed in evidence when present (the reference/expected copies used by bed/vcf are proved under C01)",
        technique="contract-based: run-time contracts with statement-derived oracles on seeded random segment tables and files (bounded stand-in); deductive obligations where listed in evidence",
        design_ref="8 (C20)"),
    "C15": dict(
        category="other",
        text="Run-time contracts (bounded stand-in) on the real center_all (one constant added to every bin, other columns "
             "untouched, the chosen two-level estimator of the autosomal bins zero afterwards, for median/mean/biweight/mode x "
             "by_chrom x skip_low x PAR genome, also when no chromosome is named like an autosome), expect_flat_log2 and "
             "shift_xx (pointwise against the class table of C01), and -- statistical, bounded only -- guess_xx / sex report / "
             "shift_xx on generated samples (sex x reference sex x +-Y x +-weights x noise sd 0.01..0.3 x 40..400 X bins).",
        note="sex inference is a statistical claim over noise realisations (scipy's median test): no contract decides it, the "
             "stand-in samples it; biweight/mode zero only to the estimators' own tolerance",
        technique="contract-based: run-time contracts on seeded random tables (bounded stand-in); deductive obligations where "
                  "listed in evidence",
        design_ref="8 (C15)"),
    "C16": dict(
        category="other",
        text="Run-time contracts (bounded stand-in) on the real CopyNumArray.by_gene (every bin exactly once; each named gene "
             "from its first to its last bin; Antitarget blocks exactly the stretches before, between and after; default and "
             "filtered non-default index; caller's ignore list untouched), do_genemetrics with and without segments, "
             "squash_genes and do_breaks, against a partition oracle written from the statement.",
        note="Series-row and nested-dict manipulation in reports.py is outside the deductive subset; genes are named without "
             "commas (a comma-joined name belongs to two genes and is outside the statement's hypothesis)",
        technique="contract-based: run-time contracts with a statement-derived partition oracle on seeded random bin tables "
                  "(bounded stand-in)",
        design_ref="8 (C16)"),
    "C17": dict(
        category="other",
        text="Run-time contracts (bounded stand-in) on the real do_segmetrics (each statistic recomputed independently over "
             "exactly the bins overlapping the segment; spread statistics on deviations from the segment log2; PI = alpha/2 "
             "and 1-alpha/2 percentiles with pi_lo <= median <= pi_hi; bootstrap CI ordered inside the bins' range and "
             "reproducible; input columns unchanged), p_adjust_bh against the Benjamini-Hochberg step-up definition on "
             "p-vectors of length 1..200 with ties, 0 and 1, and do_bintest (two-sided normal tail of (log2 - segment "
             "mean)/sqrt(1-weight), BH-adjusted, exactly the bins below alpha, on-target only when asked).",
        note="numpy/scipy definitions of std, sem, t-test, percentile and the normal cdf are the reference, not proved",
        technique="contract-based: run-time contracts with independent recomputation on seeded random tables (bounded stand-in)",
        design_ref="8 (C17)"),
    "C18": dict(
        category="other",
        text="Run-time contracts (bounded stand-in) on the real VCF reader over generated biallelic VCF files (1..3 samples, "
             "+-PEDIGREE, GT/AD/DP subsets, SNVs and indels, SOMATIC and FILTER flags, sample/normal selectors, min depth, "
             "skip_somatic): one row per record with 0-based start, depth, alt count, alt_freq = count/depth, zygosity from "
             "the genotype, the SOMATIC flag, for the sample and paired normal chosen by the documented rules; load_het_snps "
             "keeps exactly the germline-heterozygous records (with zygosity_freq and the all-0/0-normal fallback); "
             "baf_by_ranges = median of the heterozygous frequencies inside each range mirrored to one side of 0.5, missing "
             "where there are none, with and without TumorBoost. rescale_baf's formula is discharged deductively (shared "
             "with C02).",
        note="pysam's record API is C code outside any contract; multi-allelic records are outside the claim",
        technique="contract-based: run-time contracts with an independent parser-side oracle on generated VCF files (bounded "
                  "stand-in); deductive VC generation (pyvc) for rescale_baf",
        design_ref="8 (C18)"),
    "C19": dict(
        category="other",
        text="Deductive: _width2wing (window half-width always in [1, n-1]) discharged by SMT for all lengths and widths. "
             "Bounded (run-time contracts on the real functions, never counted as proved): weighted-median half-weight "
             "inequalities and equal-weight median, range and shift-equivariance of the location estimators, non-negativity, "
             "zero-on-constant, shift/scale behaviour and agreement with an independent implementation of each published "
             "formula for the scale estimators, output length/finiteness/constant reproduction/range for the smoothers, "
             "exhaustive mirror-padding check.",
        note="the estimators bottom out in numpy sort/median/percentile, scipy gaussian_kde/savgol and pandas rolling kernels, "
             "which no contract here reaches; equivariance is a two-execution property checked only by the bounded stand-in",
        technique="contract-based: deductive VC generation (pyvc) for the scalar kernel; run-time contracts on generated inputs "
                  "as the bounded stand-in for numpy/scipy-bound estimators",
        design_ref="8 (C19)"),
    "C02": dict(
        category="proof",
        text="Every obligation generated from the real AST of absolute_threshold (both loops, for/else, break, continue), "
             "_reference_copies_pure, _log2_ratio_to_absolute_pure and rescale_baf is discharged by SMT for all inputs: "
             "cn is the step function T of the statement for any strictly increasing threshold vector of any length, "
             "missing log2 gives the neutral reference copy number, row count preserved; lemmas link the quantifier-free "
             "cut to 'number of thresholds strictly below'. The allelic clause (cn1+cn2=cn) and the monotonicity corollary "
             "are checked at run time on generated inputs (bounded) until their contracts are discharged.",
        note="floats as reals; exp2 abstract (positive, monotone); symbolic products uninterpreted (congruence); "
             "CopyNumArray iteration via the real __iter__; pandas/numpy models listed in evidence.assumptions",
        technique="deductive verification: ast->VC generator (pyvc) over sidecar contracts, z3/cvc5; bounded symbolic refuter + run-time contract replay",
        design_ref="8 (C02), 3, 5"),
}

NA = {
    "C11": "statistical power claim over random noise realisations (haar/HMM find a step within 5 bins): no universally "
           "quantified postcondition exists and the deciding code is scipy/pomegranate C code (DESIGN section 11)",
}
PENDING = "check not built yet at this commit (contracts for this property are still being written; see DESIGN section 12)"


def deductive_functions():
    """property -> (functions whose obligations are discharged deductively, assumed (trusted, non-bounded) contracts),
    read from the contract registry itself so that the manifest cannot drift from what the checks do"""
    import importlib
    import pkgutil
    import sys
    sys.path.insert(0, ".")
    import contracts
    from contracts import dsl
    for m in pkgutil.iter_modules(contracts.__path__):
        if m.name.startswith("c_") or m.name in ("vocab", "lemmas"):
            importlib.import_module("contracts." + m.name)
    ded, assumed = {}, []
    for key, c in dsl.CONTRACTS.items():
        if c.bounded:
            continue
        if c.trusted:
            assumed.append(key.split("::")[-1])
            continue
        for p in c.props:
            ded.setdefault(p, []).append(key.split("::")[-1])
    lem = {}
    for name, l in dsl.LEMMAS.items():
        for p in l.props:
            lem.setdefault(p, []).append(name + (" (trusted)" if l.trusted else ""))
    return ded, sorted(assumed), lem


def main():
    props = [json.loads(l) for l in open("properties.jsonl")]
    checks, na = [], []
    DED, ASSUMED, LEM = deductive_functions()
    for p in props:
        pid = p["id"]
        if pid in CLAIMED:
            c = dict(CLAIMED[pid])
            if c["category"] != "proof" and DED.get(pid):
                c["text"] = ("Deductive part (obligations generated from the real ASTs and discharged by SMT for all inputs, "
                             "see evidence.functions_under_contract): %s%s. Bounded part: %s" % (
                                 ", ".join(sorted(DED[pid])),
                                 ("; lemmas " + ", ".join(sorted(LEM[pid]))) if LEM.get(pid) else "", c["text"]))
                c["technique"] = ("contract-based deductive verification of the functions listed in the claim (verification conditions generated "
                                  "from the real AST on every run against sidecar contracts, discharged by z3 / cvc5, policed by must-fail canaries) "
                                  "-- a failed or undecided obligation is the violation; for the clauses outside them: " +
                                  c["technique"].replace("contract-based: ", ""))
                c["note"] = c["note"] + ("; the property is claimed at level 'other' because clauses outside the listed "
                                         "functions rest on run-time contracts; assumed callee contracts used by the "
                                         "deductive part are listed in the evidence (trusted)")
            checks.append(dict(
                property_id=pid,
                quick_cmd="./check %s --tier quick" % pid,
                thorough_cmd="./check %s --tier thorough" % pid,
                evidence_file="evidence/%s.json" % pid,
                replay_cmd_template="./check %s --replay {path}" % pid,
                engine="pyvc",
                level_claimed=dict(category=c["category"], text=c["text"], design_ref=c["design_ref"]),
                level_note=c["note"],
                technique=c["technique"]))
        else:
            na.append(dict(property_id=pid, reason=NA.get(pid, PENDING)))
    m = dict(
        version=1,
        setup_cmd="./setup.sh",
        hooks=dict(guard="CNVKIT_VERIF", enable="no hooks are needed: contracts are sidecar files keyed by file::qualname; "
                   "checks read /repo (or $VERIF_REPO) directly",
                   baseline_off_cmd="cd /repo && /venv/bin/python -m pytest -ra -q -p no:cacheprovider --timeout=900 "
                                    "--continue-on-collection-errors",
                   source_commits=[], add_only=True),
        engines=[
            dict(name="pyvc", path="pyvc/", serves_properties=sorted(CLAIMED),
                 kind_free_text="deductive verifier for a Python subset written for this task: re-reads the real function "
                                "bodies with ast, forward symbolic execution against sidecar contracts (pre/post, loop "
                                "invariants, frames, lemmas), obligations discharged by z3 5.1 / cvc5 / z3 4.8"),
            dict(name="runner", path="runner/", serves_properties=sorted(CLAIMED),
                 kind_free_text="run-time semantics of the same contracts under /venv/bin/python: replay of counterexamples "
                                "on the real code and bounded stand-in (never counted as proved)"),
        ],
        checks=checks,
        not_applicable=na,
        notes="See DESIGN.md. Exit codes: 0 held, 1 violation (VIOLATION line), 3 checker error.",
    )
    json.dump(m, open("MANIFEST.json", "w"), indent=1)
    print("claimed", sorted(CLAIMED), "na", len(na))


if __name__ == "__main__":
    main()
